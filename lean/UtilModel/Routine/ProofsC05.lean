import UtilModel.Routine.Proofs
/-!
# routine: the invariant behind C05

`Cur s`: every instance other than the current instance of the container's current record is cancelled (`sc`);
the current instance is either still cancellable through the record's cancel function or already cancelled
(`k1`); a current instance with a live context derives from the container's context, which is set (`k3`).
All container mutations happen in single critical sections, so the invariant holds in **every** reachable state,
whatever the number of concurrent callers.
-/
namespace UtilModel.Routine
open UtilModel

def curRec (s : St) : Option Rec := s.routine.bind (fun r => s.recs[r]?)
def curInst (s : St) : Option Nat := (curRec s).bind (·.rctx)
def curCancel (s : St) : Option Nat := (curRec s).bind (·.cancelOf)

/-- instance `n` exists and its context is cancelled -/
def cancelledAt (s : St) (n : Nat) : Prop := ∃ x, s.insts[n]? = some x ∧ s.isCancelled x = true

structure Cur0 (s : St) : Prop where
  sc : ∀ (n : Nat) (x : Inst), s.insts[n]? = some x → curInst s ≠ some n → s.isCancelled x = true
  k1 : ∀ n, curInst s = some n → curCancel s = some n ∨ cancelledAt s n

/-- a current instance with a live context derives from the container's context, which is set -/
def K3 (s : St) : Prop :=
  ∀ (n : Nat) (x : Inst), curInst s = some n → s.insts[n]? = some x → s.isCancelled x = false →
    x.root = s.ctx ∧ s.ctx ≠ 0

/-- cancellation only grows -/
def CancMono (s s' : St) : Prop :=
  InstsExt s s' ∧ (∀ c, s.croots.contains c = true → s'.croots.contains c = true)

theorem CancMono.refl (s : St) : CancMono s s := ⟨InstsExt.refl s, fun _ h => h⟩
theorem CancMono.trans {a b c : St} (h1 : CancMono a b) (h2 : CancMono b c) : CancMono a c :=
  ⟨h1.1.trans h2.1, fun x h => h2.2 x (h1.2 x h)⟩

theorem CancMono.isCancelled {s s' : St} (h : CancMono s s') (n : Nat) (x x' : Inst)
    (hx : s.insts[n]? = some x) (hx' : s'.insts[n]? = some x') (hc : s.isCancelled x = true) :
    s'.isCancelled x' = true := by
  obtain ⟨y, hy, hle⟩ := h.1 n x hx
  rw [hx'] at hy; cases hy
  simp only [St.isCancelled, Bool.or_eq_true] at hc ⊢
  rcases hc with hc | hc
  · exact Or.inl (hle.2.2.2.2.2.2 hc)
  · right; rw [hle.2.2.1]; exact h.2 _ hc

theorem CancMono.at {s s' : St} (h : CancMono s s') (n : Nat) (hc : cancelledAt s n) : cancelledAt s' n := by
  obtain ⟨x, hx, hc⟩ := hc
  obtain ⟨y, hy, _⟩ := h.1 n x hx
  exact ⟨y, hy, h.isCancelled n x y hx hy hc⟩

theorem cancMono_cancelInst (s : St) (n : Nat) : CancMono s (cancelInst s n) :=
  ⟨instsExt_cancelInst s n, by intro c h; unfold cancelInst; split <;> exact h⟩

@[simp] theorem cancelInst_croots (s : St) (n : Nat) : (cancelInst s n).croots = s.croots := by
  unfold cancelInst; split <;> rfl
@[simp] theorem cancelOpt_croots (s : St) (o : Option Nat) : (cancelOpt s o).croots = s.croots := by
  cases o <;> simp [cancelOpt]
@[simp] theorem killTimer_croots (s : St) (o : Option Nat) : (killTimer s o).croots = s.croots := by
  unfold killTimer; split
  · split
    · split <;> rfl
    · rfl
  · rfl
@[simp] theorem killTimer_ctx (s : St) (o : Option Nat) : (killTimer s o).ctx = s.ctx := by
  unfold killTimer; split
  · split
    · split <;> rfl
    · rfl
  · rfl

theorem cancMono_cancelOpt (s : St) (o : Option Nat) : CancMono s (cancelOpt s o) :=
  ⟨instsExt_cancelOpt s o, by intro c h; simpa using h⟩

/-- cancelling an existing instance cancels it -/
theorem cancelledAt_cancelInst (s : St) (n : Nat) (h : n < s.insts.length) : cancelledAt (cancelInst s n) n := by
  unfold cancelInst
  have hx : s.insts[n]? = some s.insts[n] := List.getElem?_eq_getElem h
  simp only [hx]
  exact ⟨{ s.insts[n] with cancelled := true }, by simp [h], by simp [St.isCancelled]⟩

/-- generic transfer: instances only get more cancelled, none is added, the current instance stays or is dropped
after having been cancelled -/
theorem Cur0.keep {s s' : St} (h : Cur0 s) (hm : CancMono s s') (hlen : s'.insts.length = s.insts.length)
    (hcur : curInst s' = curInst s ∨ (curInst s' = none ∧ ∀ n, curInst s = some n → cancelledAt s' n))
    (hk1 : ∀ n, curInst s' = some n → curCancel s' = some n ∨ cancelledAt s' n) : Cur0 s' := by
  refine ⟨?_, hk1⟩
  intro n x' hx' hne
  have hlt : n < s.insts.length := by rw [← hlen]; exact get_lt hx'
  have hx : s.insts[n]? = some s.insts[n] := List.getElem?_eq_getElem hlt
  rcases hcur with e | ⟨e, hc⟩
  · rw [e] at hne
    exact hm.isCancelled n _ x' hx hx' (h.sc n _ hx hne)
  · by_cases hn : curInst s = some n
    · obtain ⟨y, hy, hcy⟩ := hc n hn
      rw [hx'] at hy; cases hy; exact hcy
    · exact hm.isCancelled n _ x' hx hx' (h.sc n _ hx hn)

theorem curInst_of {s : St} {r : Nat} {x : Rec} (h1 : s.routine = some r) (h2 : s.recs[r]? = some x) :
    curInst s = x.rctx ∧ curCancel s = x.cancelOf := by
  simp [curInst, curCancel, curRec, h1, h2]

theorem curInst_none {s : St} (h1 : s.routine = none) : curInst s = none ∧ curCancel s = none := by
  simp [curInst, curCancel, curRec, h1]

theorem cancMono_of_eq {s s' : St} (h1 : s'.insts = s.insts) (h2 : s'.croots = s.croots) : CancMono s s' :=
  ⟨InstsExt.of_eq h1, by intro c h; rw [h2]; exact h⟩

theorem cancelledAt_of_eq {s s' : St} (h1 : s'.insts = s.insts) (h2 : s'.croots = s.croots) (n : Nat)
    (h : cancelledAt s n) : cancelledAt s' n := (cancMono_of_eq h1 h2).at n h

/-- states that agree on instances, cancelled roots and the current record's instance/cancel function -/
theorem Cur0.frame {s s' : St} (h : Cur0 s) (h1 : s'.insts = s.insts) (h2 : s'.croots = s.croots)
    (h3 : curInst s' = curInst s) (h4 : curCancel s' = curCancel s) : Cur0 s' := by
  refine h.keep (cancMono_of_eq h1 h2) (by rw [h1]) (Or.inl h3) ?_
  intro n hn
  rw [h3] at hn
  rcases h.k1 n hn with e | e
  · exact Or.inl (h4 ▸ e)
  · exact Or.inr (cancelledAt_of_eq h1 h2 n e)

theorem cur0_cancelOpt {s : St} (h : Cur0 s) (o : Option Nat) : Cur0 (cancelOpt s o) := by
  have hc : curInst (cancelOpt s o) = curInst s ∧ curCancel (cancelOpt s o) = curCancel s := by
    simp [curInst, curCancel, curRec]
  refine h.keep (cancMono_cancelOpt s o) (by simp) (Or.inl hc.1) ?_
  intro n hn
  rw [hc.1] at hn
  rcases h.k1 n hn with e | e
  · exact Or.inl (hc.2 ▸ e)
  · exact Or.inr ((cancMono_cancelOpt s o).at n e)

/-- after `ctxCancel()` of the current record, its current instance is cancelled -/
theorem cancelled_after_cancelOf {s : St} (h : Cur0 s) (ha : AllRec s) (r : Nat) (x : Rec)
    (hr : s.routine = some r) (hx : s.recs[r]? = some x) (n : Nat) (hn : x.rctx = some n) :
    cancelledAt (cancelOpt s x.cancelOf) n := by
  have hc := curInst_of hr hx
  rcases h.k1 n (hc.1 ▸ hn) with e | e
  · rw [hc.2] at e
    rw [e]
    obtain ⟨y, hy, _⟩ := (ha r x hx).k5 n hn
    exact cancelledAt_cancelInst s n (get_lt hy)
  · exact (cancMono_cancelOpt s x.cancelOf).at n e

theorem stopRec_cancMono (s : St) (r : Nat) : CancMono s (stopRec s r) := by
  refine ⟨instsExt_stopRec s r, ?_⟩
  intro c h
  unfold stopRec; split
  · simpa using h
  · exact h

theorem cur0_stopRec {s : St} (h : Cur0 s) (ha : AllRec s) (r : Nat) (hr : s.routine = some r) :
    Cur0 (stopRec s r) ∧ (∀ x, s.recs[r]? = some x → curInst (stopRec s r) = none) := by
  cases hx : s.recs[r]? with
  | none =>
    have : stopRec s r = s := by unfold stopRec; simp [hx]
    rw [this]; exact ⟨h, by intro x hx'; cases hx'⟩
  | some x =>
    have hr' : (stopRec s r).routine = some r := by simp [hr]
    have hx' : (stopRec s r).recs[r]? = some x.stopped := by simp [stopRec_recs_get, hx]
    have hc' := curInst_of hr' hx'
    have hnone : curInst (stopRec s r) = none := by rw [hc'.1]; rfl
    refine ⟨?_, fun _ _ => hnone⟩
    refine h.keep (stopRec_cancMono s r) (by simp) (Or.inr ⟨hnone, ?_⟩) (by intro n hn; rw [hnone] at hn; cases hn)
    intro n hn
    rw [(curInst_of hr hx).1] at hn
    have := cancelled_after_cancelOf h ha r x hr hx n hn
    -- stopRec = (kill timer, update record) after the cancel
    obtain ⟨y, hy, hcy⟩ := this
    refine ⟨y, ?_, ?_⟩
    · unfold stopRec; simp only [hx]; simpa using hy
    · unfold stopRec; simp only [hx]
      simpa [St.isCancelled] using hcy

theorem K3.of_none {s : St} (h : curInst s = none) : K3 s := by
  intro n x hn; rw [h] at hn; cases hn

theorem K3.keep {s s' : St} (h : K3 s) (hm : CancMono s s') (hlen : s'.insts.length = s.insts.length)
    (hcur : curInst s' = curInst s) (hctx : s'.ctx = s.ctx) : K3 s' := by
  intro n x' hn hx' hlive
  rw [hcur] at hn
  cases hx : s.insts[n]? with
  | none =>
    have h1 := get_lt hx'
    rw [hlen] at h1
    rw [List.getElem?_eq_getElem h1] at hx; cases hx
  | some x =>
    obtain ⟨y, hy, hle⟩ := hm.1 n x hx
    rw [hx'] at hy; cases hy
    have : s.isCancelled x = false := by
      cases hcx : s.isCancelled x with
      | false => rfl
      | true => have := hm.isCancelled n x x' hx hx' hcx; rw [this] at hlive; cases hlive
    have := h n x hn hx this
    rw [hctx, hle.2.2.1]; exact this

theorem get_set_self {α : Type} {l : List α} {i : Nat} (v : α) (h : i < l.length) : (l.set i v)[i]? = some v := by
  simp [h]

/-- `start()` of the container's current record with the container's (non-nil) context -/
theorem cur_startRec {S : St} (h : Cur0 S) (ha : AllRec S) (hk : K3 S) (r c : Nat) (w : Option Nat) (force : Bool)
    (hr : S.routine = some r) (hc : c = S.ctx) (hc0 : c ≠ 0) :
    Cur0 (startRec S r c w force) ∧ K3 (startRec S r c w force) := by
  unfold startRec
  split
  · exact ⟨h, hk⟩
  · rename_i x hx
    split
    · exact ⟨h, hk⟩
    · obtain ⟨h1, hnone⟩ := cur0_stopRec h ha r hr
      have hnone := hnone x hx
      have hlen : (stopRec S r).insts.length = S.insts.length := by simp
      have hrlt : r < (stopRec S r).recs.length := by simpa using get_lt hx
      refine ⟨⟨?_, ?_⟩, ?_⟩
      · intro n y hy hne
        simp [curInst, curRec, hr, get_set_self _ hrlt] at hne
        simp only [List.getElem?_append] at hy
        by_cases hlt : n < (stopRec S r).insts.length
        · simp only [hlt, if_true] at hy
          have := h1.sc n y hy (by rw [hnone]; simp)
          simpa [St.isCancelled] using this
        · simp only [hlt, if_false] at hy
          have hn : n = (stopRec S r).insts.length := by
            rcases Nat.lt_or_ge (n - (stopRec S r).insts.length) 1 with g | g
            · omega
            · have : [({ rid := r, root := c, waitOn := w, born := S.croots.contains c } : Inst)][n - (stopRec S r).insts.length]? = none :=
                List.getElem?_eq_none (by simpa using g)
              rw [this] at hy; cases hy
          exact absurd (by rw [hn, hlen]) hne
      · intro n hn; left
        simp [curInst, curRec, hr, get_set_self _ hrlt] at hn
        simp [curCancel, curRec, hr, get_set_self _ hrlt, hn]
      · intro n y hn hy _
        simp [curInst, curRec, hr, get_set_self _ hrlt] at hn
        subst hn
        simp at hy; subst hy
        simp only [stopRec_ctx]
        exact ⟨hc, hc ▸ hc0⟩

def Cur (s : St) : Prop := Cur0 s ∧ K3 s

@[simp] theorem normCtx_croots (s : St) : (normCtx s).croots = s.croots := by unfold normCtx; split <;> rfl

theorem cur_normCtx {s : St} (h : Cur s) : Cur (normCtx s) := by
  have hci : curInst (normCtx s) = curInst s ∧ curCancel (normCtx s) = curCancel s := by
    simp [curInst, curCancel, curRec]
  refine ⟨h.1.frame (by simp) (by simp) hci.1 hci.2, ?_⟩
  intro n x hn hx hlive
  rw [hci.1] at hn
  have hx' : s.insts[n]? = some x := by simpa using hx
  have hl' : s.isCancelled x = false := by simpa [St.isCancelled] using hlive
  have := h.2 n x hn hx' hl'
  unfold normCtx
  split
  · rename_i hc
    simp only [Bool.and_eq_true] at hc
    have hcr : s.croots.contains x.root = true := by rw [this.1]; exact hc.2
    simp only [St.isCancelled, Bool.or_eq_false_iff] at hl'
    rw [hcr] at hl'; exact absurd hl'.2 (by simp)
  · exact this

theorem cur_bcast {s : St} (h : Cur s) : Cur s.bcastNow :=
  ⟨h.1.frame rfl rfl rfl rfl, h.2.keep (cancMono_of_eq rfl rfl) rfl rfl rfl⟩

theorem cur_setContextCS {s : St} (h : Cur s) (ha : AllRec s) (c : Nat) (restart : Bool) :
    Cur (setContextCS s c restart).1 := by
  simp only [setContextCS]
  split
  · exact h
  · split
    · rename_i hr
      have := curInst_none (s := { s with ctx := c }) hr
      exact ⟨h.1.frame rfl rfl (by rw [this.1, (curInst_none hr).1]) (by rw [this.2, (curInst_none hr).2]),
        K3.of_none this.1⟩
    · rename_i r hr
      split
      · rename_i hx
        have e : curInst { s with ctx := c } = none := by simp [curInst, curRec, hr, hx]
        have e0 : curInst s = none := by simp [curInst, curRec, hr, hx]
        exact ⟨h.1.frame rfl rfl (by rw [e, e0]) (by simp [curCancel, curRec, hr, hx]), K3.of_none e⟩
      · rename_i rr hx
        split
        · rename_i hsame
          have hc : s.ctx = c := by
            simp only [Bool.and_eq_true] at hsame; simpa using hsame.1
          subst hc
          exact h
        · have h1 : Cur0 { s with ctx := c } := h.1.frame rfl rfl rfl rfl
          have ha1 : AllRec { s with ctx := c } := ha.of_eq rfl (InstsExt.of_eq rfl)
          obtain ⟨h2, hnone⟩ := cur0_stopRec h1 ha1 r hr
          have hnone := hnone rr hx
          have ha2 := allRec_stopRec ha1 r
          split
          · rename_i hcond
            have hc0 : c ≠ 0 := by
              simp only [Bool.and_eq_true] at hcond; simpa using hcond.2
            have := cur_startRec h2 ha2 (K3.of_none hnone) r c rr.exitedCh false (by simp [hr]) (by simp) hc0
            exact cur_bcast this
          · exact cur_bcast ⟨h2, K3.of_none hnone⟩

/-- after `ctxCancel()`, the record keeps its current instance but loses the cancel function -/
theorem cur_cancel_clear {s : St} (h : Cur s) (ha : AllRec s) (r : Nat) (x y : Rec)
    (hr : s.routine = some r) (hx : s.recs[r]? = some x) (hy1 : y.rctx = x.rctx) (hy2 : y.cancelOf = none)
    (T : St) (hT1 : T.insts = (cancelOpt s x.cancelOf).insts) (hT2 : T.croots = s.croots)
    (hT3 : T.routine = some r) (hT4 : T.recs[r]? = some y) (hT5 : T.ctx = s.ctx) : Cur T := by
  have hcT := curInst_of hT3 hT4
  have hcs := curInst_of hr hx
  have hm : CancMono s T := by
    refine ⟨?_, by intro c hc; rw [hT2]; exact hc⟩
    intro n z hz
    obtain ⟨z', g1, g2⟩ := instsExt_cancelOpt s x.cancelOf n z hz
    exact ⟨z', by rw [hT1]; exact g1, g2⟩
  have hlen : T.insts.length = s.insts.length := by rw [hT1]; simp
  have hcur : curInst T = curInst s := by rw [hcT.1, hcs.1, hy1]
  refine ⟨h.1.keep hm hlen (Or.inl hcur) ?_, h.2.keep hm hlen hcur hT5⟩
  intro n hn
  right
  rw [hcT.1, hy1] at hn
  obtain ⟨z, hz, hcz⟩ := cancelled_after_cancelOf h.1 ha r x hr hx n hn
  exact ⟨z, by rw [hT1]; exact hz, by simpa [St.isCancelled, hT2] using hcz⟩

theorem cur_restartCS {s : St} (h : Cur s) (ha : AllRec s) : Cur (restartCS s).1 := by
  have h0 := cur_normCtx h
  have ha0 : AllRec (normCtx s) := (csok_normCtx s).2 ha
  simp only [restartCS]
  split
  · exact h0
  · rename_i r hr
    split
    · exact h0
    · rename_i x hx
      have hlt : r < (normCtx s).recs.length := get_lt hx
      split
      · exact cur_cancel_clear h0 ha0 r x { x with cancelOf := none } hr hx rfl rfl _ rfl (by simp) (by simpa using hr)
          (by simp [get_set_self _ (by simpa using hlt)]) (by simp)
      · rename_i hctx
        have h2 : Cur { (cancelOpt (normCtx s) x.cancelOf) with
            recs := ((cancelOpt (normCtx s) x.cancelOf).recs.set r { x with cancelOf := none }).set r
              { x with cancelOf := none, exitedCh := none } } :=
          cur_cancel_clear h0 ha0 r x { x with cancelOf := none, exitedCh := none } hr hx rfl rfl _ rfl (by simp)
            (by simpa using hr) (by simp [get_set_self _ (by simpa using hlt)]) (by simp)
        have ha2 : AllRec { (cancelOpt (normCtx s) x.cancelOf) with
            recs := ((cancelOpt (normCtx s) x.cancelOf).recs.set r { x with cancelOf := none }).set r
              { x with cancelOf := none, exitedCh := none } } := by
          have hx' : (cancelOpt (normCtx s) x.cancelOf).recs[r]? = some x := by simpa using hx
          have := (csok_set _ r x { x with cancelOf := none, exitedCh := none } hx' rfl (Or.inr rfl) (Or.inr rfl)).2
            ((csok_cancelOpt _ _).2 ha0)
          simpa using this
        have hc0 : (cancelOpt (normCtx s) x.cancelOf).ctx ≠ 0 := by simpa using hctx
        have := cur_startRec h2.1 ha2 h2.2 r (cancelOpt (normCtx s) x.cancelOf).ctx x.exitedCh true
          (by simpa using hr) rfl hc0
        exact cur_bcast this

@[simp] theorem detachPrev_croots (s : St) : (detachPrev s).1.croots = s.croots := by
  cases hr : s.routine with
  | none => simp [detachPrev, hr]
  | some r => cases hx : s.recs[r]? <;> simp [detachPrev, hr, hx]

theorem detachPrev_insts (s : St) :
    (detachPrev s).1.insts = s.insts ∨
    (∃ r x, s.routine = some r ∧ s.recs[r]? = some x ∧ (detachPrev s).1.insts = (cancelOpt s x.cancelOf).insts) := by
  cases hr : s.routine with
  | none => left; simp [detachPrev, hr]
  | some r =>
    cases hx : s.recs[r]? with
    | none => left; simp [detachPrev, hr, hx]
    | some x => right; exact ⟨r, x, rfl, hx, by simp [detachPrev, hr, hx]⟩

theorem cur_detachPrev {s : St} (h : Cur s) (ha : AllRec s) :
    Cur (detachPrev s).1 ∧ curInst (detachPrev s).1 = none := by
  have hnone := curInst_none (detachPrev_routine s)
  refine ⟨⟨?_, K3.of_none hnone.1⟩, hnone.1⟩
  rcases detachPrev_insts s with e | ⟨r, x, hr, hx, e⟩
  · have hm : CancMono s (detachPrev s).1 := cancMono_of_eq e (by simp)
    refine h.1.keep hm (by rw [e]) (Or.inr ⟨hnone.1, ?_⟩) (by intro n hn; rw [hnone.1] at hn; cases hn)
    intro n hn
    -- the branches without a record to detach have no current instance
    cases hr : s.routine with
    | none => rw [(curInst_none hr).1] at hn; cases hn
    | some r =>
      cases hx : s.recs[r]? with
      | none => simp [curInst, curRec, hr, hx] at hn
      | some x =>
        obtain ⟨z, hz, hcz⟩ := cancelled_after_cancelOf h.1 ha r x hr hx n (by rw [← (curInst_of hr hx).1]; exact hn)
        refine ⟨z, ?_, by simpa [St.isCancelled] using hcz⟩
        have : (detachPrev s).1.insts = (cancelOpt s x.cancelOf).insts := by simp [detachPrev, hr, hx]
        rw [this]; exact hz
  · have hm : CancMono s (detachPrev s).1 := by
      refine ⟨?_, by intro c hc; simpa using hc⟩
      intro n z hz
      obtain ⟨z', g1, g2⟩ := instsExt_cancelOpt s x.cancelOf n z hz
      exact ⟨z', by rw [e]; exact g1, g2⟩
    refine h.1.keep hm (by rw [e]; simp) (Or.inr ⟨hnone.1, ?_⟩) (by intro n hn; rw [hnone.1] at hn; cases hn)
    intro n hn
    obtain ⟨z, hz, hcz⟩ := cancelled_after_cancelOf h.1 ha r x hr hx n (by rw [← (curInst_of hr hx).1]; exact hn)
    exact ⟨z, by rw [e]; exact hz, by simpa [St.isCancelled] using hcz⟩

theorem cur_setRoutineLocked {s : St} (h : Cur s) (ha : AllRec s) (f arg : Nat) :
    Cur (setRoutineLocked s f arg).1 := by
  have h0 := cur_normCtx h
  have ha0 : AllRec (normCtx s) := (csok_normCtx s).2 ha
  obtain ⟨hd, hdn⟩ := cur_detachPrev h0 ha0
  have had : AllRec (detachPrev (normCtx s)).1 := (csok_detachPrev _).2 ha0
  have hdr := detachPrev_routine (normCtx s)
  have hdc := curInst_none hdr
  simp only [setRoutineLocked]
  split
  · split
    · rename_i hctx
      -- fresh record, then start()
      have hrlen : (detachPrev (normCtx s)).1.recs.length < ((detachPrev (normCtx s)).1.recs ++ [({ fn := f, arg := arg } : Rec)]).length := by simp
      have hcS : curInst { (detachPrev (normCtx s)).1 with
          recs := (detachPrev (normCtx s)).1.recs ++ [{ fn := f, arg := arg }],
          routine := some (detachPrev (normCtx s)).1.recs.length } = none ∧
          curCancel { (detachPrev (normCtx s)).1 with
          recs := (detachPrev (normCtx s)).1.recs ++ [{ fn := f, arg := arg }],
          routine := some (detachPrev (normCtx s)).1.recs.length } = none := by
        simp [curInst, curCancel, curRec]
      have hS : Cur0 { (detachPrev (normCtx s)).1 with
          recs := (detachPrev (normCtx s)).1.recs ++ [{ fn := f, arg := arg }],
          routine := some (detachPrev (normCtx s)).1.recs.length } :=
        hd.1.frame rfl rfl (by rw [hcS.1, hdc.1]) (by rw [hcS.2, hdc.2])
      have haS := (csok_appendRec (detachPrev (normCtx s)).1 { fn := f, arg := arg } rfl rfl
        (by intro p hp; cases hp) (some (detachPrev (normCtx s)).1.recs.length)).2 had
      have hc0 : (detachPrev (normCtx s)).1.ctx ≠ 0 := by simpa using hctx
      have := cur_startRec hS haS (K3.of_none hcS.1) (detachPrev (normCtx s)).1.recs.length
        (detachPrev (normCtx s)).1.ctx (detachPrev (normCtx s)).2.1 false rfl rfl hc0
      exact cur_bcast this
    · have hcS : curInst { (detachPrev (normCtx s)).1 with
          recs := (detachPrev (normCtx s)).1.recs ++ [{ fn := f, arg := arg, exitedCh := (detachPrev (normCtx s)).2.1 }],
          routine := some (detachPrev (normCtx s)).1.recs.length } = none ∧
          curCancel { (detachPrev (normCtx s)).1 with
          recs := (detachPrev (normCtx s)).1.recs ++ [{ fn := f, arg := arg, exitedCh := (detachPrev (normCtx s)).2.1 }],
          routine := some (detachPrev (normCtx s)).1.recs.length } = none := by
        simp [curInst, curCancel, curRec]
      exact cur_bcast ⟨hd.1.frame rfl rfl (by rw [hcS.1, hdc.1]) (by rw [hcS.2, hdc.2]), K3.of_none hcS.1⟩
  · split
    · exact cur_bcast hd
    · exact hd

end UtilModel.Routine
