import UtilModel.Routine.Proofs
/-!
# routine: the invariant behind C05

`Cur s`: every instance other than the current instance of the container's current record is cancelled (`sc`);
the current instance is either still cancellable through the record's cancel function or already cancelled
(`k1`); a current instance with a live context derives from the container's context, which is set (`k3`).
All container mutations happen in single critical sections, so the invariant holds in **every** reachable state,
whatever the number of concurrent callers.
-/
namespace UtilModel.Routine
open UtilModel

def curRec (s : St) : Option Rec := s.routine.bind (fun r => s.recs[r]?)
def curInst (s : St) : Option Nat := (curRec s).bind (·.rctx)
def curCancel (s : St) : Option Nat := (curRec s).bind (·.cancelOf)

/-- instance `n` exists and its context is cancelled -/
def cancelledAt (s : St) (n : Nat) : Prop := ∃ x, s.insts[n]? = some x ∧ s.isCancelled x = true

structure Cur0 (s : St) : Prop where
  sc : ∀ (n : Nat) (x : Inst), s.insts[n]? = some x → curInst s ≠ some n → s.isCancelled x = true
  k1 : ∀ n, curInst s = some n → curCancel s = some n ∨ cancelledAt s n

/-- a current instance that has not exited and has a live context derives from the container's context, which
is set -/
def K3 (s : St) : Prop :=
  ∀ (n : Nat) (x : Inst), curInst s = some n → s.insts[n]? = some x → x.st ≠ .closed → s.isCancelled x = false →
    x.root = s.ctx ∧ s.ctx ≠ 0

/-- cancellation only grows -/
def CancMono (s s' : St) : Prop :=
  (∀ (n : Nat) (x : Inst), s.insts[n]? = some x →
    ∃ x' : Inst, s'.insts[n]? = some x' ∧ x'.root = x.root ∧ (x.cancelled = true → x'.cancelled = true) ∧
      (x'.st ≠ .closed → x.st ≠ .closed)) ∧
  (∀ c, s.croots.contains c = true → s'.croots.contains c = true)

theorem CancMono.of_ext {s s' : St} (h : InstsExt s s')
    (h2 : ∀ c, s.croots.contains c = true → s'.croots.contains c = true) : CancMono s s' := by
  refine ⟨?_, h2⟩
  intro n x hx
  obtain ⟨y, hy, hle⟩ := h n x hx
  exact ⟨y, hy, hle.2.2.1, hle.2.2.2.2.2.2, by rw [hle.2.2.2.1]; exact id⟩

theorem CancMono.isCancelled {s s' : St} (h : CancMono s s') (n : Nat) (x x' : Inst)
    (hx : s.insts[n]? = some x) (hx' : s'.insts[n]? = some x') (hc : s.isCancelled x = true) :
    s'.isCancelled x' = true := by
  obtain ⟨y, hy, hle⟩ := h.1 n x hx
  rw [hx'] at hy; cases hy
  simp only [St.isCancelled, Bool.or_eq_true] at hc ⊢
  rcases hc with hc | hc
  · exact Or.inl (hle.2.1 hc)
  · right; rw [hle.1]; exact h.2 _ hc

theorem CancMono.at {s s' : St} (h : CancMono s s') (n : Nat) (hc : cancelledAt s n) : cancelledAt s' n := by
  obtain ⟨x, hx, hc⟩ := hc
  obtain ⟨y, hy, _⟩ := h.1 n x hx
  exact ⟨y, hy, h.isCancelled n x y hx hy hc⟩

theorem cancMono_cancelInst (s : St) (n : Nat) : CancMono s (cancelInst s n) :=
  CancMono.of_ext (instsExt_cancelInst s n) (by intro c h; unfold cancelInst; split <;> exact h)

@[simp] theorem cancelInst_croots (s : St) (n : Nat) : (cancelInst s n).croots = s.croots := by
  unfold cancelInst; split <;> rfl
@[simp] theorem cancelOpt_croots (s : St) (o : Option Nat) : (cancelOpt s o).croots = s.croots := by
  cases o <;> simp [cancelOpt]
@[simp] theorem killTimer_croots (s : St) (o : Option Nat) : (killTimer s o).croots = s.croots := by
  unfold killTimer; split
  · split
    · split <;> rfl
    · rfl
  · rfl
@[simp] theorem killTimer_ctx (s : St) (o : Option Nat) : (killTimer s o).ctx = s.ctx := by
  unfold killTimer; split
  · split
    · split <;> rfl
    · rfl
  · rfl

theorem cancMono_cancelOpt (s : St) (o : Option Nat) : CancMono s (cancelOpt s o) :=
  CancMono.of_ext (instsExt_cancelOpt s o) (by intro c h; simpa using h)

/-- cancelling an existing instance cancels it -/
theorem cancelledAt_cancelInst (s : St) (n : Nat) (h : n < s.insts.length) : cancelledAt (cancelInst s n) n := by
  unfold cancelInst
  have hx : s.insts[n]? = some s.insts[n] := List.getElem?_eq_getElem h
  simp only [hx]
  exact ⟨{ s.insts[n] with cancelled := true }, by simp [h], by simp [St.isCancelled]⟩

/-- generic transfer: instances only get more cancelled, none is added, the current instance stays or is dropped
after having been cancelled -/
theorem Cur0.keep {s s' : St} (h : Cur0 s) (hm : CancMono s s') (hlen : s'.insts.length = s.insts.length)
    (hcur : curInst s' = curInst s ∨ (curInst s' = none ∧ ∀ n, curInst s = some n → cancelledAt s' n))
    (hk1 : ∀ n, curInst s' = some n → curCancel s' = some n ∨ cancelledAt s' n) : Cur0 s' := by
  refine ⟨?_, hk1⟩
  intro n x' hx' hne
  have hlt : n < s.insts.length := by rw [← hlen]; exact get_lt hx'
  have hx : s.insts[n]? = some s.insts[n] := List.getElem?_eq_getElem hlt
  rcases hcur with e | ⟨e, hc⟩
  · rw [e] at hne
    exact hm.isCancelled n _ x' hx hx' (h.sc n _ hx hne)
  · by_cases hn : curInst s = some n
    · obtain ⟨y, hy, hcy⟩ := hc n hn
      rw [hx'] at hy; cases hy; exact hcy
    · exact hm.isCancelled n _ x' hx hx' (h.sc n _ hx hn)

theorem curInst_of {s : St} {r : Nat} {x : Rec} (h1 : s.routine = some r) (h2 : s.recs[r]? = some x) :
    curInst s = x.rctx ∧ curCancel s = x.cancelOf := by
  simp [curInst, curCancel, curRec, h1, h2]

theorem curInst_none {s : St} (h1 : s.routine = none) : curInst s = none ∧ curCancel s = none := by
  simp [curInst, curCancel, curRec, h1]

theorem cancMono_of_eq {s s' : St} (h1 : s'.insts = s.insts) (h2 : s'.croots = s.croots) : CancMono s s' :=
  CancMono.of_ext (InstsExt.of_eq h1) (by intro c h; rw [h2]; exact h)

theorem cancelledAt_of_eq {s s' : St} (h1 : s'.insts = s.insts) (h2 : s'.croots = s.croots) (n : Nat)
    (h : cancelledAt s n) : cancelledAt s' n := (cancMono_of_eq h1 h2).at n h

/-- states that agree on instances, cancelled roots and the current record's instance/cancel function -/
theorem Cur0.frame {s s' : St} (h : Cur0 s) (h1 : s'.insts = s.insts) (h2 : s'.croots = s.croots)
    (h3 : curInst s' = curInst s) (h4 : curCancel s' = curCancel s) : Cur0 s' := by
  refine h.keep (cancMono_of_eq h1 h2) (by rw [h1]) (Or.inl h3) ?_
  intro n hn
  rw [h3] at hn
  rcases h.k1 n hn with e | e
  · exact Or.inl (h4 ▸ e)
  · exact Or.inr (cancelledAt_of_eq h1 h2 n e)

theorem cur0_cancelOpt {s : St} (h : Cur0 s) (o : Option Nat) : Cur0 (cancelOpt s o) := by
  have hc : curInst (cancelOpt s o) = curInst s ∧ curCancel (cancelOpt s o) = curCancel s := by
    simp [curInst, curCancel, curRec]
  refine h.keep (cancMono_cancelOpt s o) (by simp) (Or.inl hc.1) ?_
  intro n hn
  rw [hc.1] at hn
  rcases h.k1 n hn with e | e
  · exact Or.inl (hc.2 ▸ e)
  · exact Or.inr ((cancMono_cancelOpt s o).at n e)

/-- after `ctxCancel()` of the current record, its current instance is cancelled -/
theorem cancelled_after_cancelOf {s : St} (h : Cur0 s) (ha : AllRec s) (r : Nat) (x : Rec)
    (hr : s.routine = some r) (hx : s.recs[r]? = some x) (n : Nat) (hn : x.rctx = some n) :
    cancelledAt (cancelOpt s x.cancelOf) n := by
  have hc := curInst_of hr hx
  rcases h.k1 n (hc.1 ▸ hn) with e | e
  · rw [hc.2] at e
    rw [e]
    obtain ⟨y, hy, _⟩ := (ha r x hx).k5 n hn
    exact cancelledAt_cancelInst s n (get_lt hy)
  · exact (cancMono_cancelOpt s x.cancelOf).at n e

theorem stopRec_cancMono (s : St) (r : Nat) : CancMono s (stopRec s r) := by
  refine CancMono.of_ext (instsExt_stopRec s r) ?_
  intro c h
  unfold stopRec; split
  · simpa using h
  · exact h

theorem cur0_stopRec {s : St} (h : Cur0 s) (ha : AllRec s) (r : Nat) (hr : s.routine = some r) :
    Cur0 (stopRec s r) ∧ (∀ x, s.recs[r]? = some x → curInst (stopRec s r) = none) := by
  cases hx : s.recs[r]? with
  | none =>
    have : stopRec s r = s := by unfold stopRec; simp [hx]
    rw [this]; exact ⟨h, by intro x hx'; cases hx'⟩
  | some x =>
    have hr' : (stopRec s r).routine = some r := by simp [hr]
    have hx' : (stopRec s r).recs[r]? = some x.stopped := by simp [stopRec_recs_get, hx]
    have hc' := curInst_of hr' hx'
    have hnone : curInst (stopRec s r) = none := by rw [hc'.1]; rfl
    refine ⟨?_, fun _ _ => hnone⟩
    refine h.keep (stopRec_cancMono s r) (by simp) (Or.inr ⟨hnone, ?_⟩) (by intro n hn; rw [hnone] at hn; cases hn)
    intro n hn
    rw [(curInst_of hr hx).1] at hn
    have := cancelled_after_cancelOf h ha r x hr hx n hn
    -- stopRec = (kill timer, update record) after the cancel
    obtain ⟨y, hy, hcy⟩ := this
    refine ⟨y, ?_, ?_⟩
    · unfold stopRec; simp only [hx]; simpa using hy
    · unfold stopRec; simp only [hx]
      simpa [St.isCancelled] using hcy

theorem K3.of_none {s : St} (h : curInst s = none) : K3 s := by
  intro n x hn; rw [h] at hn; cases hn

@[simp] theorem get_set_self'' {α : Type} {l : List α} {i : Nat} (v : α) (h : i < l.length) :
    (l.set i v)[i]? = some v := by simp [h]

theorem K3.keep {s s' : St} (h : K3 s) (hm : CancMono s s') (hlen : s'.insts.length = s.insts.length)
    (hcur : curInst s' = curInst s) (hctx : s'.ctx = s.ctx) : K3 s' := by
  intro n x' hn hx' hnc hlive
  rw [hcur] at hn
  cases hx : s.insts[n]? with
  | none =>
    have h1 := get_lt hx'
    rw [hlen] at h1
    rw [List.getElem?_eq_getElem h1] at hx; cases hx
  | some x =>
    obtain ⟨y, hy, hle⟩ := hm.1 n x hx
    rw [hx'] at hy; cases hy
    have : s.isCancelled x = false := by
      cases hcx : s.isCancelled x with
      | false => rfl
      | true => have := hm.isCancelled n x x' hx hx' hcx; rw [this] at hlive; cases hlive
    have := h n x hn hx (hle.2.2 hnc) this
    rw [hctx, hle.1]; exact this

theorem get_set_self {α : Type} {l : List α} {i : Nat} (v : α) (h : i < l.length) : (l.set i v)[i]? = some v := by
  simp [h]

/-- `start()` of the container's current record with the container's (non-nil) context -/
theorem cur_startRec {S : St} (h : Cur0 S) (ha : AllRec S) (hk : K3 S) (r c : Nat) (w : Option Nat) (force : Bool)
    (hr : S.routine = some r) (hc : c = S.ctx) (hc0 : c ≠ 0) :
    Cur0 (startRec S r c w force) ∧ K3 (startRec S r c w force) := by
  unfold startRec
  split
  · exact ⟨h, hk⟩
  · rename_i x hx
    split
    · exact ⟨h, hk⟩
    · obtain ⟨h1, hnone⟩ := cur0_stopRec h ha r hr
      have hnone := hnone x hx
      have hlen : (stopRec S r).insts.length = S.insts.length := by simp
      have hrlt : r < (stopRec S r).recs.length := by simpa using get_lt hx
      refine ⟨⟨?_, ?_⟩, ?_⟩
      · intro n y hy hne
        simp [curInst, curRec, hr, get_set_self _ hrlt] at hne
        simp only [List.getElem?_append] at hy
        by_cases hlt : n < (stopRec S r).insts.length
        · simp only [hlt, if_true] at hy
          have := h1.sc n y hy (by rw [hnone]; simp)
          simpa [St.isCancelled] using this
        · simp only [hlt, if_false] at hy
          have hn : n = (stopRec S r).insts.length := by
            rcases Nat.lt_or_ge (n - (stopRec S r).insts.length) 1 with g | g
            · omega
            · have : [({ rid := r, root := c, waitOn := w, born := S.croots.contains c } : Inst)][n - (stopRec S r).insts.length]? = none :=
                List.getElem?_eq_none (by simpa using g)
              rw [this] at hy; cases hy
          exact absurd (by rw [hn, hlen]) hne
      · intro n hn; left
        simp [curInst, curRec, hr, get_set_self _ hrlt] at hn
        simp [curCancel, curRec, hr, get_set_self _ hrlt, hn]
      · intro n y hn hy _ _
        simp [curInst, curRec, hr, get_set_self _ hrlt] at hn
        subst hn
        simp at hy; subst hy
        simp only [stopRec_ctx]
        exact ⟨hc, hc ▸ hc0⟩

def Cur (s : St) : Prop := Cur0 s ∧ K3 s

@[simp] theorem normCtx_croots (s : St) : (normCtx s).croots = s.croots := by unfold normCtx; split <;> rfl

theorem cur_normCtx {s : St} (h : Cur s) : Cur (normCtx s) := by
  have hci : curInst (normCtx s) = curInst s ∧ curCancel (normCtx s) = curCancel s := by
    simp [curInst, curCancel, curRec]
  refine ⟨h.1.frame (by simp) (by simp) hci.1 hci.2, ?_⟩
  intro n x hn hx hnc hlive
  rw [hci.1] at hn
  have hx' : s.insts[n]? = some x := by simpa using hx
  have hl' : s.isCancelled x = false := by simpa [St.isCancelled] using hlive
  have := h.2 n x hn hx' hnc hl'
  unfold normCtx
  split
  · rename_i hc
    simp only [Bool.and_eq_true] at hc
    have hcr : s.croots.contains x.root = true := by rw [this.1]; exact hc.2
    simp only [St.isCancelled, Bool.or_eq_false_iff] at hl'
    rw [hcr] at hl'; exact absurd hl'.2 (by simp)
  · exact this

theorem cur_bcast {s : St} (h : Cur s) : Cur s.bcastNow :=
  ⟨h.1.frame rfl rfl rfl rfl, h.2.keep (cancMono_of_eq rfl rfl) rfl rfl rfl⟩

theorem cur_setContextCS {s : St} (h : Cur s) (ha : AllRec s) (c : Nat) (restart : Bool) :
    Cur (setContextCS s c restart).1 := by
  simp only [setContextCS]
  split
  · exact h
  · split
    · rename_i hr
      have := curInst_none (s := { s with ctx := c }) hr
      exact ⟨h.1.frame rfl rfl (by rw [this.1, (curInst_none hr).1]) (by rw [this.2, (curInst_none hr).2]),
        K3.of_none this.1⟩
    · rename_i r hr
      split
      · rename_i hx
        have e : curInst { s with ctx := c } = none := by simp [curInst, curRec, hr, hx]
        have e0 : curInst s = none := by simp [curInst, curRec, hr, hx]
        exact ⟨h.1.frame rfl rfl (by rw [e, e0]) (by simp [curCancel, curRec, hr, hx]), K3.of_none e⟩
      · rename_i rr hx
        split
        · rename_i hsame
          have hc : s.ctx = c := by
            simp only [Bool.and_eq_true] at hsame; simpa using hsame.1
          subst hc
          exact h
        · split
          · -- the failed routine keeps waiting for its retry: its last instance has exited
            rename_i hd14
            refine ⟨h.1.frame rfl rfl rfl rfl, ?_⟩
            intro n x hn hxn hnc _
            have hn' : rr.rctx = some n := by
              have : curInst s = some n := hn
              rw [(curInst_of hr hx).1] at this; exact this
            have herr : rr.err ≠ none := by
              simp only [Bool.and_eq_true] at hd14
              intro e; rw [e] at hd14; simp at hd14
            obtain ⟨z, hz, hzc⟩ := (ha r rr hx).kx (Or.inl herr) n hn'
            have hxn' : s.insts[n]? = some x := hxn
            rw [hxn'] at hz; cases hz
            exact absurd hzc hnc
          have h1 : Cur0 { s with ctx := c } := h.1.frame rfl rfl rfl rfl
          have ha1 : AllRec { s with ctx := c } := ha.of_eq rfl (InstsExt.of_eq rfl)
          obtain ⟨h2, hnone⟩ := cur0_stopRec h1 ha1 r hr
          have hnone := hnone rr hx
          have ha2 := allRec_stopRec ha1 r
          split
          · rename_i hcond
            have hc0 : c ≠ 0 := by
              simp only [Bool.and_eq_true] at hcond; simpa using hcond.2
            have := cur_startRec h2 ha2 (K3.of_none hnone) r c rr.exitedCh false (by simp [hr]) (by simp) hc0
            exact cur_bcast this
          · exact cur_bcast ⟨h2, K3.of_none hnone⟩

/-- after `ctxCancel()`, the record keeps its current instance but loses the cancel function -/
theorem cur_cancel_clear {s : St} (h : Cur s) (ha : AllRec s) (r : Nat) (x y : Rec)
    (hr : s.routine = some r) (hx : s.recs[r]? = some x) (hy1 : y.rctx = x.rctx) (hy2 : y.cancelOf = none)
    (T : St) (hT1 : T.insts = (cancelOpt s x.cancelOf).insts) (hT2 : T.croots = s.croots)
    (hT3 : T.routine = some r) (hT4 : T.recs[r]? = some y) (hT5 : T.ctx = s.ctx) : Cur T := by
  have hcT := curInst_of hT3 hT4
  have hcs := curInst_of hr hx
  have hm : CancMono s T := by
    refine ⟨?_, by intro c hc; rw [hT2]; exact hc⟩
    intro n z hz
    obtain ⟨z', g1, g2⟩ := instsExt_cancelOpt s x.cancelOf n z hz
    exact ⟨z', by rw [hT1]; exact g1, g2.2.2.1, g2.2.2.2.2.2.2, by rw [g2.2.2.2.1]; exact id⟩
  have hlen : T.insts.length = s.insts.length := by rw [hT1]; simp
  have hcur : curInst T = curInst s := by rw [hcT.1, hcs.1, hy1]
  refine ⟨h.1.keep hm hlen (Or.inl hcur) ?_, h.2.keep hm hlen hcur hT5⟩
  intro n hn
  right
  rw [hcT.1, hy1] at hn
  obtain ⟨z, hz, hcz⟩ := cancelled_after_cancelOf h.1 ha r x hr hx n hn
  exact ⟨z, by rw [hT1]; exact hz, by simpa [St.isCancelled, hT2] using hcz⟩

theorem cur_restartCS {s : St} (h : Cur s) (ha : AllRec s) : Cur (restartCS s).1 := by
  have h0 := cur_normCtx h
  have ha0 : AllRec (normCtx s) := (csok_normCtx s).2 ha
  simp only [restartCS]
  split
  · exact h0
  · rename_i r hr
    split
    · exact h0
    · rename_i x hx
      have hlt : r < (normCtx s).recs.length := get_lt hx
      split
      · exact cur_cancel_clear h0 ha0 r x { x with cancelOf := none } hr hx rfl rfl _ rfl (by simp) (by simpa using hr)
          (by simp [get_set_self _ (by simpa using hlt)]) (by simp)
      · rename_i hctx
        have h2 : Cur { (cancelOpt (normCtx s) x.cancelOf) with
            recs := ((cancelOpt (normCtx s) x.cancelOf).recs.set r { x with cancelOf := none }).set r
              { x with cancelOf := none, exitedCh := none } } :=
          cur_cancel_clear h0 ha0 r x { x with cancelOf := none, exitedCh := none } hr hx rfl rfl _ rfl (by simp)
            (by simpa using hr) (by simp [get_set_self _ (by simpa using hlt)]) (by simp)
        have ha2 : AllRec { (cancelOpt (normCtx s) x.cancelOf) with
            recs := ((cancelOpt (normCtx s) x.cancelOf).recs.set r { x with cancelOf := none }).set r
              { x with cancelOf := none, exitedCh := none } } := by
          have hx' : (cancelOpt (normCtx s) x.cancelOf).recs[r]? = some x := by simpa using hx
          have := (csok_set _ r x { x with cancelOf := none, exitedCh := none } hx' rfl (Or.inr rfl) (Or.inr rfl) (Or.inl ⟨rfl, rfl⟩)).2
            ((csok_cancelOpt _ _).2 ha0)
          simpa using this
        have hc0 : (cancelOpt (normCtx s) x.cancelOf).ctx ≠ 0 := by simpa using hctx
        have := cur_startRec h2.1 ha2 h2.2 r (cancelOpt (normCtx s) x.cancelOf).ctx x.exitedCh true
          (by simpa using hr) rfl hc0
        exact cur_bcast this

@[simp] theorem detachPrev_croots (s : St) : (detachPrev s).1.croots = s.croots := by
  cases hr : s.routine with
  | none => simp [detachPrev, hr]
  | some r => cases hx : s.recs[r]? <;> simp [detachPrev, hr, hx]

theorem detachPrev_insts (s : St) :
    (detachPrev s).1.insts = s.insts ∨
    (∃ r x, s.routine = some r ∧ s.recs[r]? = some x ∧ (detachPrev s).1.insts = (cancelOpt s x.cancelOf).insts) := by
  cases hr : s.routine with
  | none => left; simp [detachPrev, hr]
  | some r =>
    cases hx : s.recs[r]? with
    | none => left; simp [detachPrev, hr, hx]
    | some x => right; exact ⟨r, x, rfl, hx, by simp [detachPrev, hr, hx]⟩

theorem cur_detachPrev {s : St} (h : Cur s) (ha : AllRec s) :
    Cur (detachPrev s).1 ∧ curInst (detachPrev s).1 = none := by
  have hnone := curInst_none (detachPrev_routine s)
  refine ⟨⟨?_, K3.of_none hnone.1⟩, hnone.1⟩
  rcases detachPrev_insts s with e | ⟨r, x, hr, hx, e⟩
  · have hm : CancMono s (detachPrev s).1 := cancMono_of_eq e (by simp)
    refine h.1.keep hm (by rw [e]) (Or.inr ⟨hnone.1, ?_⟩) (by intro n hn; rw [hnone.1] at hn; cases hn)
    intro n hn
    -- the branches without a record to detach have no current instance
    cases hr : s.routine with
    | none => rw [(curInst_none hr).1] at hn; cases hn
    | some r =>
      cases hx : s.recs[r]? with
      | none => simp [curInst, curRec, hr, hx] at hn
      | some x =>
        obtain ⟨z, hz, hcz⟩ := cancelled_after_cancelOf h.1 ha r x hr hx n (by rw [← (curInst_of hr hx).1]; exact hn)
        refine ⟨z, ?_, by simpa [St.isCancelled] using hcz⟩
        have : (detachPrev s).1.insts = (cancelOpt s x.cancelOf).insts := by simp [detachPrev, hr, hx]
        rw [this]; exact hz
  · have hm : CancMono s (detachPrev s).1 := by
      refine ⟨?_, by intro c hc; simpa using hc⟩
      intro n z hz
      obtain ⟨z', g1, g2⟩ := instsExt_cancelOpt s x.cancelOf n z hz
      exact ⟨z', by rw [e]; exact g1, g2.2.2.1, g2.2.2.2.2.2.2, by rw [g2.2.2.2.1]; exact id⟩
    refine h.1.keep hm (by rw [e]; simp) (Or.inr ⟨hnone.1, ?_⟩) (by intro n hn; rw [hnone.1] at hn; cases hn)
    intro n hn
    obtain ⟨z, hz, hcz⟩ := cancelled_after_cancelOf h.1 ha r x hr hx n (by rw [← (curInst_of hr hx).1]; exact hn)
    exact ⟨z, by rw [e]; exact hz, by simpa [St.isCancelled] using hcz⟩

theorem cur_setRoutineLocked {s : St} (h : Cur s) (ha : AllRec s) (f arg : Nat) :
    Cur (setRoutineLocked s f arg).1 := by
  have h0 := cur_normCtx h
  have ha0 : AllRec (normCtx s) := (csok_normCtx s).2 ha
  obtain ⟨hd, hdn⟩ := cur_detachPrev h0 ha0
  have had : AllRec (detachPrev (normCtx s)).1 := (csok_detachPrev _).2 ha0
  have hdr := detachPrev_routine (normCtx s)
  have hdc := curInst_none hdr
  simp only [setRoutineLocked]
  split
  · split
    · rename_i hctx
      -- fresh record, then start()
      have hrlen : (detachPrev (normCtx s)).1.recs.length < ((detachPrev (normCtx s)).1.recs ++ [({ fn := f, arg := arg } : Rec)]).length := by simp
      have hcS : curInst { (detachPrev (normCtx s)).1 with
          recs := (detachPrev (normCtx s)).1.recs ++ [{ fn := f, arg := arg }],
          routine := some (detachPrev (normCtx s)).1.recs.length } = none ∧
          curCancel { (detachPrev (normCtx s)).1 with
          recs := (detachPrev (normCtx s)).1.recs ++ [{ fn := f, arg := arg }],
          routine := some (detachPrev (normCtx s)).1.recs.length } = none := by
        simp [curInst, curCancel, curRec]
      have hS : Cur0 { (detachPrev (normCtx s)).1 with
          recs := (detachPrev (normCtx s)).1.recs ++ [{ fn := f, arg := arg }],
          routine := some (detachPrev (normCtx s)).1.recs.length } :=
        hd.1.frame rfl rfl (by rw [hcS.1, hdc.1]) (by rw [hcS.2, hdc.2])
      have haS := (csok_appendRec (detachPrev (normCtx s)).1 { fn := f, arg := arg } rfl rfl
        (some (detachPrev (normCtx s)).1.recs.length)).2 had
      have hc0 : (detachPrev (normCtx s)).1.ctx ≠ 0 := by simpa using hctx
      have := cur_startRec hS haS (K3.of_none hcS.1) (detachPrev (normCtx s)).1.recs.length
        (detachPrev (normCtx s)).1.ctx (detachPrev (normCtx s)).2.1 false rfl rfl hc0
      exact cur_bcast this
    · have hcS : curInst { (detachPrev (normCtx s)).1 with
          recs := (detachPrev (normCtx s)).1.recs ++ [{ fn := f, arg := arg, exitedCh := (detachPrev (normCtx s)).2.1 }],
          routine := some (detachPrev (normCtx s)).1.recs.length } = none ∧
          curCancel { (detachPrev (normCtx s)).1 with
          recs := (detachPrev (normCtx s)).1.recs ++ [{ fn := f, arg := arg, exitedCh := (detachPrev (normCtx s)).2.1 }],
          routine := some (detachPrev (normCtx s)).1.recs.length } = none := by
        simp [curInst, curCancel, curRec]
      exact cur_bcast ⟨hd.1.frame rfl rfl (by rw [hcS.1, hdc.1]) (by rw [hcS.2, hdc.2]), K3.of_none hcS.1⟩
  · have hd' : Cur { (detachPrev (normCtx s)).1 with cleared := (detachPrev (normCtx s)).2.1 } := by
      have e1 : curInst { (detachPrev (normCtx s)).1 with cleared := (detachPrev (normCtx s)).2.1 } =
          curInst (detachPrev (normCtx s)).1 := rfl
      have e2 : curCancel { (detachPrev (normCtx s)).1 with cleared := (detachPrev (normCtx s)).2.1 } =
          curCancel (detachPrev (normCtx s)).1 := rfl
      exact ⟨hd.1.frame rfl rfl e1 e2, hd.2.keep (cancMono_of_eq rfl rfl) rfl e1 rfl⟩
    split
    · exact cur_bcast hd'
    · exact hd'

/-- states that agree on everything the invariant looks at -/
theorem Cur.frame {s s' : St} (h : Cur s) (h1 : s'.insts = s.insts) (h2 : s'.croots = s.croots)
    (h3 : s'.routine = s.routine) (h4 : s'.recs = s.recs) (h5 : s'.ctx = s.ctx) : Cur s' := by
  have hc : curInst s' = curInst s ∧ curCancel s' = curCancel s := by
    simp [curInst, curCancel, curRec, h3, h4]
  exact ⟨h.1.frame h1 h2 hc.1 hc.2, h.2.keep (cancMono_of_eq h1 h2) (by rw [h1]) hc.1 h5⟩

theorem cur_updateStateRoutine {s : St} (h : Cur s) (ha : AllRec s) : Cur (updateStateRoutine s).1 := by
  simp only [updateStateRoutine]; exact cur_setRoutineLocked h ha _ _

theorem cur_setStateCS {s : St} (h : Cur s) (ha : AllRec s) (cmp v : Nat) : Cur (setStateCS s cmp v).1 := by
  simp only [setStateCS]
  split
  · dsimp only
    exact cur_updateStateRoutine (s := { s with sval := v }) (h.frame rfl rfl rfl rfl rfl)
      (ha.of_eq rfl (InstsExt.of_eq rfl))
  · exact h

theorem cur_apiCS {s : St} (h : Cur s) (ha : AllRec s) (cf : Cfg) (op : Op) (r : St × Res × Option Nat)
    (hr : apiCS s cf op = some r) : Cur r.1 := by
  cases op with
  | setContext c restart => simp [apiCS] at hr; subst hr; exact cur_setContextCS h ha c restart
  | setRoutine f =>
    simp only [apiCS] at hr
    split at hr
    · cases hr
    · simp at hr; subst hr; exact cur_setRoutineLocked h ha f 0
  | restart => simp [apiCS] at hr; subst hr; exact cur_restartCS h ha
  | setState v =>
    simp only [apiCS] at hr
    split at hr
    · cases hr
    · simp at hr; subst hr; exact cur_setStateCS h ha cf.cmp v
  | setStateRoutine f =>
    simp only [apiCS] at hr
    split at hr
    · cases hr
    · simp at hr; subst hr
      dsimp only
      exact cur_updateStateRoutine (s := { s with sfn := f }) (h.frame rfl rfl rfl rfl rfl)
        (ha.of_eq rfl (InstsExt.of_eq rfl))
  | swap k =>
    simp only [apiCS] at hr
    split at hr
    · cases hr
    · split at hr
      · split at hr
        · simp only [Option.some.injEq] at hr; subst hr; exact cur_setStateCS h ha cf.cmp _
        · simp only [Option.some.injEq] at hr; subst hr; exact h
      · simp at hr; subst hr; exact h
  | getState =>
    simp only [apiCS] at hr
    split at hr
    · cases hr
    · simp at hr; subst hr; exact h
  | waitExited _ => simp [apiCS] at hr

theorem cur_timerBody {s : St} (h : Cur s) (ha : AllRec s) (t r : Nat) : Cur (timerBody s t r) := by
  simp only [timerBody]
  apply cur_bcast
  split
  · rename_i x hx
    split
    · rename_i hc
      simp only [Bool.and_eq_true] at hc
      have hr : s.routine = some r := by simpa using hc.1.2
      have hc0 : s.ctx ≠ 0 := by simpa using hc.1.1.2
      have hlt := get_lt hx
      have hci : curInst { s with recs := s.recs.set r { x with retry := none } } = curInst s ∧
          curCancel { s with recs := s.recs.set r { x with retry := none } } = curCancel s := by
        simp [curInst, curCancel, curRec, hr, hlt, getElem_of_get hx hlt]
      have h' : Cur { s with recs := s.recs.set r { x with retry := none } } :=
        ⟨h.1.frame rfl rfl hci.1 hci.2, h.2.keep (cancMono_of_eq rfl rfl) rfl hci.1 rfl⟩
      have ha' := (csok_set s r x { x with retry := none } hx rfl (Or.inl rfl) (Or.inl rfl) (Or.inl ⟨rfl, rfl⟩)).2 ha
      exact cur_startRec h'.1 ha' h'.2 r s.ctx x.exitedCh true hr rfl hc0
    · exact h
  · exact h

/-- an instance moves (program counter, result, recorded flag; possibly its own `cancel()`) -/
theorem cur_setInst {s : St} (h : Cur s) (n : Nat) (x y : Inst) (hx : s.insts[n]? = some x)
    (hroot : y.root = x.root) (hc : x.cancelled = true → y.cancelled = true)
    (hst : y.st ≠ .closed → x.st ≠ .closed := by simp_all) : Cur (setInst s n y) := by
  have hm : CancMono s (setInst s n y) := by
    refine ⟨?_, fun _ h => h⟩
    intro m z hz
    by_cases hnm : n = m
    · subst hnm; rw [hx] at hz; cases hz
      exact ⟨y, by simp [setInst, get_lt hx], hroot, hc, hst⟩
    · exact ⟨z, by simp [setInst, List.getElem?_set, hnm, hz], rfl, id, id⟩
  have hci : curInst (setInst s n y) = curInst s ∧ curCancel (setInst s n y) = curCancel s := by
    simp [curInst, curCancel, curRec, setInst]
  refine ⟨h.1.keep hm (by simp [setInst]) (Or.inl hci.1) ?_, h.2.keep hm (by simp [setInst]) hci.1 rfl⟩
  intro m hm'
  rw [hci.1] at hm'
  rcases h.1.k1 m hm' with e | e
  · exact Or.inl (hci.2 ▸ e)
  · exact Or.inr (hm.at m e)

theorem cur_recordCS {s s' : St} (h : Cur s) (cf : Cfg) (n : Nat) (x : Inst) (dur : Bool)
    (hx : s.insts[n]? = some x) (hs : recordCS s cf n x dur = some s') : Cur s' := by
  have h1 := cur_setInst h n x { x with recorded := true } hx rfl id
  simp only [recordCS] at hs
  split at hs
  · cases hs
  · rename_i r hr
    split at hs
    · split at hs
      · cases hs
      · simp only [Option.some.injEq] at hs; subst hs
        apply cur_bcast
        have hrlt : x.rid < s.recs.length := get_lt hr
        -- the record keeps its current instance and cancel function
        have key : ∀ (S T : St) (y : Rec), Cur S → S.recs = s.recs → S.routine = s.routine → T.insts = S.insts →
            T.croots = S.croots → T.routine = S.routine → T.ctx = S.ctx → T.recs = S.recs.set x.rid y →
            y.rctx = r.rctx → y.cancelOf = r.cancelOf → Cur T := by
          intro S T y hS e1 e2 e3 e4 e5 e6 e7 e8 e9
          have hc : curInst T = curInst S ∧ curCancel T = curCancel S := by
            cases hrt : s.routine with
            | none => simp [curInst, curCancel, curRec, e5, e2, hrt]
            | some q =>
              by_cases hq : x.rid = q
              · subst hq
                simp [curInst, curCancel, curRec, e5, e2, hrt, e7, e1, get_set_self _ hrlt, hr, e8, e9]
              · simp [curInst, curCancel, curRec, e5, e2, hrt, e7, e1, List.getElem?_set, hq]
          exact ⟨hS.1.frame e3 e4 hc.1 hc.2, hS.2.keep (cancMono_of_eq e3 e4) (by rw [e3]) hc.1 e6⟩
        by_cases hret : cf.retry = true
        · simp only [hret, if_true]
          have h2 : Cur (killTimer (setInst s n { x with recorded := true }) r.retry) :=
            h1.frame (by simp) (by simp) (by simp) (by simp) (by simp)
          exact key _ _ _ h2 (by simp [setInst]) (by simp [setInst]) rfl rfl rfl rfl rfl rfl rfl
        · have hret' : cf.retry = false := by simpa using hret
          simp only [hret', Bool.false_eq_true, if_false]
          exact key _ _ _ h1 rfl rfl rfl rfl rfl rfl rfl rfl rfl
    · split at hs
      · cases hs
      · simp only [Option.some.injEq] at hs; subst hs; exact h1

theorem cur_envCancel {s : St} (h : Cur s) (c : Nat) (p : List Nat) :
    Cur { s with pcancel := p, croots := c :: s.croots } := by
  have hm : CancMono s { s with pcancel := p, croots := c :: s.croots } := by
    refine ⟨fun n x hx => ⟨x, hx, rfl, id, id⟩, ?_⟩
    intro d hd
    simp only [List.contains_cons, Bool.or_eq_true]
    exact Or.inr hd
  have hci : curInst { s with pcancel := p, croots := c :: s.croots } = curInst s ∧
      curCancel { s with pcancel := p, croots := c :: s.croots } = curCancel s := ⟨rfl, rfl⟩
  refine ⟨h.1.keep hm rfl (Or.inl hci.1) ?_, h.2.keep hm rfl hci.1 rfl⟩
  intro m hm'
  rcases h.1.k1 m hm' with e | e
  · exact Or.inl e
  · exact Or.inr (hm.at m e)

theorem cur_init : Cur {} := by
  refine ⟨⟨?_, ?_⟩, ?_⟩
  · intro n x hx; simp at hx
  · intro n hn; simp [curInst, curRec] at hn
  · intro n x hn; simp [curInst, curRec] at hn

/-- the C05 invariant is kept by every event -/
theorem step_cur (s s' : St) (e : Ev) (h : Cur s) (ha : AllRec s) (hs : step s e = some s') : Cur s' := by
  cases e with
  | cfg c =>
    simp only [step, stepI] at hs
    split at hs
    · simp at hs; subst hs; exact h.frame rfl rfl rfl rfl rfl
    · cases hs
  | inv a op =>
    simp only [step, stepI] at hs
    split at hs
    · simp at hs; subst hs; exact h.frame rfl rfl rfl rfl rfl
    · cases hs
  | cs a =>
    simp only [step, stepI] at hs
    split at hs
    · rename_i cf c hcf hc
      split at hs
      · split at hs
        · split at hs
          · rename_i rinr _ _
            simp at hs; subst hs
            have : Cur (waitSample s rinr).1 := by simp only [waitSample]; exact cur_normCtx h
            exact this.frame rfl rfl rfl rfl rfl
          · cases hs
        · split at hs
          · cases hs
          · split at hs
            · rename_i r hr
              simp at hs; subst hs
              exact (cur_apiCS h ha cf _ r hr).frame rfl rfl rfl rfl rfl
            · cases hs
      · cases hs
    · cases hs
  | ret a r =>
    simp only [step, stepI] at hs
    split at hs
    · split at hs
      · simp at hs; subst hs; exact h.frame rfl rfl rfl rfl rfl
      · split at hs
        · simp at hs; subst hs; exact h.frame rfl rfl rfl rfl rfl
        · cases hs
    · cases hs
  | wake a =>
    simp only [step, stepI] at hs
    split at hs
    · split at hs
      · split at hs
        · simp at hs; subst hs; exact h.frame rfl rfl rfl rfl rfl
        · cases hs
      · cases hs
    · cases hs
  | wctx a =>
    simp only [step, stepI] at hs
    split at hs
    · split at hs
      · split at hs
        · simp at hs; subst hs; exact h.frame rfl rfl rfl rfl rfl
        · cases hs
      · cases hs
    · cases hs
  | envCancel c =>
    simp only [step, stepI] at hs
    split at hs
    · simp at hs; subst hs; exact h.frame rfl rfl rfl rfl rfl
    · cases hs
  | envDo c =>
    simp only [step, stepI] at hs
    split at hs
    · simp at hs; subst hs; exact cur_envCancel h c _
    · cases hs
  | envCancelW a =>
    simp only [step, stepI] at hs
    split at hs
    · split at hs
      · simp at hs; subst hs; exact h.frame rfl rfl rfl rfl rfl
      all_goals cases hs
    · cases hs
  | envErr a e0 =>
    simp only [step, stepI] at hs
    split at hs
    · split at hs
      · simp at hs; subst hs; exact h.frame rfl rfl rfl rfl rfl
      all_goals cases hs
    · cases hs
  | giveUp n =>
    simp only [step, stepI] at hs
    split at hs
    · rename_i x hx
      split at hs
      · split at hs
        · simp at hs; subst hs; exact cur_setInst h n x _ hx rfl id
        · simp at hs; subst hs; exact cur_setInst h n x _ hx rfl id
      · cases hs
    · cases hs
  | drained n =>
    simp only [step, stepI] at hs
    split at hs
    · rename_i x hx
      split at hs
      · simp at hs; subst hs; exact cur_setInst h n x _ hx rfl id
      · cases hs
    · cases hs
  | cbin k n f arg root =>
    simp only [step, stepI] at hs
    split at hs
    · rename_i x hx
      split at hs
      · split at hs
        · simp at hs; subst hs
          exact (cur_setInst h n x { x with st := .running } hx rfl id).frame rfl rfl rfl rfl rfl
        · cases hs
      · cases hs
    · cases hs
  | cbout k o =>
    simp only [step, stepI] at hs
    split at hs
    · rename_i n hn
      split at hs
      · rename_i x hx
        split at hs
        · simp at hs; subst hs; exact cur_setInst h n x _ hx rfl id
        · cases hs
      · cases hs
    · cases hs
  | closeExit n =>
    simp only [step, stepI] at hs
    split at hs
    · rename_i x hx
      split at hs
      · simp at hs; subst hs; exact cur_setInst h n x _ hx rfl (fun _ => rfl)
      · cases hs
    · cases hs
  | record n dur =>
    simp only [step, stepI] at hs
    split at hs
    · rename_i cf x _ hx
      split at hs
      · exact cur_recordCS h cf n x dur hx hs
      · cases hs
    · cases hs
  | emit o =>
    simp only [step, stepI] at hs
    split at hs
    · split at hs
      · simp at hs; subst hs; exact h.frame rfl rfl rfl rfl rfl
      · cases hs
    · cases hs
  | fire t =>
    simp only [step, stepI] at hs
    split at hs
    · split at hs
      · simp at hs; subst hs; exact h.frame rfl rfl rfl rfl rfl
      · cases hs
    · cases hs
  | timerCS t =>
    simp only [step, stepI] at hs
    split at hs
    · rename_i tm htm
      split at hs
      · simp at hs; subst hs
        exact cur_timerBody (s := { s with timers := s.timers.set t { tm with st := .dead } })
          (h.frame rfl rfl rfl rfl rfl) (ha.of_eq rfl (InstsExt.of_eq rfl)) t tm.rid
      · cases hs
    · cases hs
  | probeCtx k b =>
    simp only [step, stepI] at hs
    split at hs
    · split at hs
      · simp at hs; subst hs; exact h
      · cases hs
    · cases hs
  | probeW a b =>
    simp only [step, stepI] at hs
    split at hs
    · split at hs
      · split at hs
        · simp at hs; subst hs; exact h
        · cases hs
      · cases hs
    · cases hs
  | quiesce p r l =>
    simp only [step] at hs
    split at hs
    · simp at hs; subst hs; exact h
    · cases hs

theorem cur_run (s s' : St) (es : List Ev) (h : Cur s) (ha : AllRec s) (hr : model.run s es = some s') :
    Cur s' := by
  induction es generalizing s with
  | nil => simp [OLTS.run] at hr; subst hr; exact h
  | cons e es ih =>
    simp only [OLTS.run] at hr
    cases hst : model.step s e with
    | none => simp [hst] at hr
    | some s1 =>
      simp [hst] at hr
      exact ih s1 (step_cur s s1 e h ha hst) (step_ok s s1 e ha hst).1 hr

end UtilModel.Routine
