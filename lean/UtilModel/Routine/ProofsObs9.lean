import UtilModel.Routine.ProofsObs8
/-!
# routine: the WaitExited clause of monitor C14 (`monC14w`)

`step_curStep`: the container's current instance is only ever replaced by a newly created one — an instance that
is not current never becomes current again. `WLink`: the monitor's bookkeeping (results of returned instances,
instances superseded for sure, snapshots) against the model.
-/
namespace UtilModel.Routine
open UtilModel

/-- the current instance after the step is the one before it or a new one -/
def CurStep (s s' : St) : Prop := ∀ n, curInst s' = some n → curInst s = some n ∨ s.insts.length ≤ n

theorem CurStep.of_eq {s s' : St} (h : curInst s' = curInst s) : CurStep s s' := fun n hn => Or.inl (h ▸ hn)
theorem CurStep.of_new {s s' : St} (h : CurNew s s') : CurStep s s' := fun n hn => Or.inr (h n hn)

theorem setContextCS_false (s : St) (c : Nat) (r : Bool) :
    (setContextCS s c r).2 = false → curInst (setContextCS s c r).1 = curInst s := by
  simp only [setContextCS]
  split
  · intro _; rfl
  · split
    · intro _; exact curInst_frame rfl rfl
    · split
      · intro _; exact curInst_frame rfl rfl
      · split
        · intro _; exact curInst_frame rfl rfl
        · split
          · intro _; exact curInst_frame rfl rfl
          · intro h; cases h

theorem curStep_setContextCS (s : St) (c : Nat) (r : Bool) : CurStep s (setContextCS s c r).1 := by
  rcases curNew_setContextCS s c r with h | h
  · exact CurStep.of_eq (setContextCS_false s c r h)
  · exact CurStep.of_new h

theorem restartCS_false (s : St) : (restartCS s).2 = false → curInst (restartCS s).1 = curInst s := by
  have hn : curInst (normCtx s) = curInst s := curInst_frame (by simp) (by simp)
  simp only [restartCS]
  split
  · intro _; exact hn
  · rename_i r hr
    split
    · intro _; exact hn
    · rename_i x hx
      split
      · intro _
        have hx' : (cancelOpt (normCtx s) x.cancelOf).recs[r]? = some x := by simpa using hx
        have h1 := curInst_set (cancelOpt (normCtx s) x.cancelOf) r x { x with cancelOf := none } hx' rfl
        rw [h1, ← hn]
        exact curInst_frame (by simp) (by simp)
      · intro h; cases h

theorem curStep_restartCS (s : St) : CurStep s (restartCS s).1 := by
  rcases curNew_restartCS s with h | h
  · exact CurStep.of_eq (restartCS_false s h)
  · exact CurStep.of_new h

theorem curStep_setStateCS (s : St) (cmp v : Nat) : CurStep s (setStateCS s cmp v).1 := by
  simp only [setStateCS]
  split
  · simp only [updateStateRoutine]
    have := curNew_setRoutineLocked { s with sval := v } (if (s.sfn != 0 && v != 0) = true then s.sfn else 0) v
    exact CurStep.of_new this
  · exact CurStep.of_eq rfl

theorem curStep_apiCS (s : St) (cf : Cfg) (op : Op) (r : St × Res × Option Nat) (h : apiCS s cf op = some r) :
    CurStep s r.1 := by
  cases op with
  | setContext c restart => simp [apiCS] at h; subst h; exact curStep_setContextCS s c restart
  | setRoutine f =>
    simp only [apiCS] at h
    split at h
    · cases h
    · simp at h; subst h; exact CurStep.of_new (curNew_setRoutineLocked s f 0)
  | restart => simp [apiCS] at h; subst h; exact curStep_restartCS s
  | setState v =>
    simp only [apiCS] at h
    split at h
    · cases h
    · simp at h; subst h; exact curStep_setStateCS s cf.cmp v
  | setStateRoutine f =>
    simp only [apiCS] at h
    split at h
    · cases h
    · simp at h; subst h
      simp only [updateStateRoutine]
      exact CurStep.of_new (curNew_setRoutineLocked { s with sfn := f } _ _)
  | swap k =>
    simp only [apiCS] at h
    split at h
    · cases h
    · split at h
      · split at h
        · simp only [Option.some.injEq] at h; subst h; exact curStep_setStateCS s cf.cmp _
        · simp only [Option.some.injEq] at h; subst h; exact CurStep.of_eq rfl
      · simp at h; subst h; exact CurStep.of_eq rfl
  | getState =>
    simp only [apiCS] at h
    split at h
    · cases h
    · simp at h; subst h; exact CurStep.of_eq rfl
  | waitExited _ => simp [apiCS] at h

theorem curStep_timerBody (s : St) (t r : Nat) : CurStep s (timerBody s t r) := by
  simp only [timerBody]
  split
  · rename_i x hx
    split
    · rename_i hcond
      simp only [Bool.and_eq_true, beq_iff_eq] at hcond
      have hrt : s.routine = some r := hcond.1.2
      have h0 := curInst_set s r x { x with retry := none } hx rfl
      intro n hn
      have hn' : curInst (startRec { s with recs := s.recs.set r { x with retry := none } } r s.ctx x.exitedCh true) = some n := hn
      rcases curInst_startRec { s with recs := s.recs.set r { x with retry := none } } r s.ctx x.exitedCh true hrt with e | e
      · rw [e, h0] at hn'; exact Or.inl hn'
      · rw [e] at hn'; cases hn'; exact Or.inr (Nat.le_refl _)
    · exact CurStep.of_eq rfl
  · exact CurStep.of_eq rfl

/-- **an instance that is not the container's current instance never becomes current again** -/
theorem step_curStep (s s' : St) (e : Ev) (hs : step s e = some s') : CurStep s s' := by
  have fr : ∀ T : St, T.routine = s.routine → T.recs = s.recs → CurStep s T :=
    fun T h1 h2 => CurStep.of_eq (curInst_frame h1 h2)
  cases e with
  | cs a =>
    simp only [step, stepI] at hs
    split at hs
    · rename_i cf c hcf hc
      split at hs
      · split at hs
        · split at hs
          · simp at hs; subst hs
            exact fr _ (by simp [setCall, waitSample]) (by simp [setCall, waitSample])
          · cases hs
        · split at hs
          · cases hs
          · split at hs
            · rename_i r hr
              simp at hs; subst hs
              intro n hn
              exact curStep_apiCS s cf _ r hr n (by rw [← hn]; exact (curInst_frame rfl rfl).symm)
            · cases hs
      · cases hs
    · cases hs
  | record n dur =>
    simp only [step, stepI] at hs
    split at hs
    · rename_i cf x _ hx
      split at hs
      · exact CurStep.of_eq (recordCS_curInst s s' cf n x dur hs)
      · cases hs
    · cases hs
  | timerCS t =>
    simp only [step, stepI] at hs
    split at hs
    · rename_i tm htm
      split at hs
      · simp at hs; subst hs
        intro n hn
        rcases curStep_timerBody { s with timers := s.timers.set t { tm with st := .dead } } t tm.rid n hn with h | h
        · exact Or.inl (by rw [← h]; exact (curInst_frame rfl rfl).symm)
        · exact Or.inr h
      · cases hs
    · cases hs
  | cfg c =>
    simp only [step, stepI] at hs
    split at hs
    · simp at hs; subst hs; exact fr _ rfl rfl
    · cases hs
  | inv a op =>
    simp only [step, stepI] at hs
    split at hs
    · simp at hs; subst hs; exact fr _ rfl rfl
    · cases hs
  | ret a r =>
    simp only [step, stepI] at hs
    split at hs
    · split at hs
      · simp at hs; subst hs; exact fr _ rfl rfl
      · split at hs
        · simp at hs; subst hs; exact fr _ rfl rfl
        · cases hs
    · cases hs
  | wake a =>
    simp only [step, stepI] at hs
    split at hs
    · split at hs
      · split at hs
        · simp at hs; subst hs; exact fr _ rfl rfl
        · cases hs
      · cases hs
    · cases hs
  | wctx a =>
    simp only [step, stepI] at hs
    split at hs
    · split at hs
      · split at hs
        · simp at hs; subst hs; exact fr _ rfl rfl
        · cases hs
      · cases hs
    · cases hs
  | envCancel c =>
    simp only [step, stepI] at hs
    split at hs
    · simp at hs; subst hs; exact fr _ rfl rfl
    · cases hs
  | envDo c =>
    simp only [step, stepI] at hs
    split at hs
    · simp at hs; subst hs; exact fr _ rfl rfl
    · cases hs
  | envCancelW a =>
    simp only [step, stepI] at hs
    split at hs
    · split at hs
      · simp at hs; subst hs; exact fr _ rfl rfl
      all_goals cases hs
    · cases hs
  | envErr a e0 =>
    simp only [step, stepI] at hs
    split at hs
    · split at hs
      · simp at hs; subst hs; exact fr _ rfl rfl
      all_goals cases hs
    · cases hs
  | giveUp n =>
    simp only [step, stepI] at hs
    split at hs
    · split at hs
      · split at hs
        · simp at hs; subst hs; exact fr _ rfl rfl
        · simp at hs; subst hs; exact fr _ rfl rfl
      · cases hs
    · cases hs
  | drained n =>
    simp only [step, stepI] at hs
    split at hs
    · split at hs
      · simp at hs; subst hs; exact fr _ rfl rfl
      · cases hs
    · cases hs
  | cbin k n f arg root =>
    simp only [step, stepI] at hs
    split at hs
    · split at hs
      · split at hs
        · simp at hs; subst hs; exact fr _ rfl rfl
        · cases hs
      · cases hs
    · cases hs
  | cbout k o =>
    simp only [step, stepI] at hs
    split at hs
    · split at hs
      · split at hs
        · simp at hs; subst hs; exact fr _ rfl rfl
        · cases hs
      · cases hs
    · cases hs
  | closeExit n =>
    simp only [step, stepI] at hs
    split at hs
    · split at hs
      · simp at hs; subst hs; exact fr _ rfl rfl
      · cases hs
    · cases hs
  | emit o =>
    simp only [step, stepI] at hs
    split at hs
    · split at hs
      · simp at hs; subst hs; exact fr _ rfl rfl
      · cases hs
    · cases hs
  | fire t =>
    simp only [step, stepI] at hs
    split at hs
    · split at hs
      · simp at hs; subst hs; exact fr _ rfl rfl
      · cases hs
    · cases hs
  | probeCtx k b =>
    simp only [step, stepI] at hs
    split at hs
    · split at hs
      · simp at hs; subst hs; exact fr _ rfl rfl
      · cases hs
    · cases hs
  | probeW a b =>
    simp only [step, stepI] at hs
    split at hs
    · split at hs
      · split at hs
        · simp at hs; subst hs; exact fr _ rfl rfl
        · cases hs
      · cases hs
    · cases hs
  | quiesce p r l =>
    simp only [step] at hs
    split at hs
    · simp at hs; subst hs; exact fr _ rfl rfl
    · cases hs

/-- an existing instance that is not current stays so -/
theorem noncur_keep {s s' : St} {e : Ev} (hs : step s e = some s') (n : Nat) (hlt : n < s.insts.length)
    (h : curInst s ≠ some n) : curInst s' ≠ some n := by
  intro hc
  rcases step_curStep s s' e hs n hc with g | g
  · exact h g
  · omega

/-! ## a record that has exited keeps its recorded error until it is started again -/

def EF (s s' : St) : Prop :=
  ∀ (q : Nat) (x' : Rec), s'.recs[q]? = some x' → x'.exited = true →
    ∃ x, s.recs[q]? = some x ∧ x.exited = true ∧ x.err = x'.err

theorem EF.refl (s : St) : EF s s := fun _ x' h he => ⟨x', h, he, rfl⟩
theorem EF.trans {a b c : St} (h1 : EF a b) (h2 : EF b c) : EF a c := by
  intro q x'' h he
  obtain ⟨x', g1, g2, g3⟩ := h2 q x'' h he
  obtain ⟨x, f1, f2, f3⟩ := h1 q x' g1 g2
  exact ⟨x, f1, f2, f3.trans g3⟩
theorem EF.of_eq {s s' : St} (h : s'.recs = s.recs) : EF s s' := fun _ x' hx he => ⟨x', by rw [← h]; exact hx, he, rfl⟩

theorem ef_set (s : St) (r : Nat) (x y : Rec) (hx : s.recs[r]? = some x)
    (h : y.exited = false ∨ (y.exited = x.exited ∧ y.err = x.err)) : EF s { s with recs := s.recs.set r y } := by
  intro q x' hx' he
  simp only [List.getElem?_set] at hx'
  by_cases hq : r = q
  · subst hq
    simp [get_lt hx] at hx'; subst hx'
    rcases h with e | ⟨e1, e2⟩
    · rw [e] at he; cases he
    · exact ⟨x, hx, by rw [← e1]; exact he, e2.symm⟩
  · simp [hq] at hx'; exact ⟨x', hx', he, rfl⟩

theorem ef_append (s : St) (y : Rec) (hy : y.exited = false) (rt : Option Nat) :
    EF s { s with recs := s.recs ++ [y], routine := rt } := by
  intro q x' hx' he
  by_cases hlt : q < s.recs.length
  · exact ⟨x', by simpa [List.getElem?_append_left hlt] using hx', he, rfl⟩
  · simp only [List.getElem?_append, hlt, if_false] at hx'
    rcases Nat.lt_or_ge (q - s.recs.length) 1 with g | g
    · have e0 : q - s.recs.length = 0 := by omega
      rw [e0] at hx'; simp at hx'; subst hx'; rw [hy] at he; cases he
    · have : [y][q - s.recs.length]? = none := List.getElem?_eq_none (by simpa using g)
      rw [this] at hx'; cases hx'

theorem ef_stopRec (s : St) (r : Nat) : EF s (stopRec s r) := by
  unfold stopRec
  split
  · rename_i x hx
    have h1 : EF s (killTimer (cancelOpt s x.cancelOf) x.retry) := EF.of_eq (by simp)
    have hx' : (killTimer (cancelOpt s x.cancelOf) x.retry).recs[r]? = some x := by simpa using hx
    exact h1.trans (ef_set _ r x x.stopped hx' (Or.inr ⟨rfl, rfl⟩))
  · exact EF.refl s

theorem ef_startRec (s : St) (r c : Nat) (w : Option Nat) (f : Bool) : EF s (startRec s r c w f) := by
  unfold startRec
  split
  · exact EF.refl s
  · rename_i x hx
    split
    · exact EF.refl s
    · refine (ef_stopRec s r).trans ?_
      have hx' : (stopRec s r).recs[r]? = some x.stopped := by rw [stopRec_recs_get]; simp [hx]
      have h2 : EF (stopRec s r) { (stopRec s r) with insts := (stopRec s r).insts ++
          [{ rid := r, root := c, waitOn := w, born := s.croots.contains c }] } := EF.of_eq rfl
      refine h2.trans ?_
      exact ef_set _ r x.stopped _ hx' (Or.inl rfl)

theorem ef_setContextCS (s : St) (c : Nat) (r : Bool) : EF s (setContextCS s c r).1 := by
  simp only [setContextCS]
  split
  · exact EF.refl s
  · split
    · exact EF.of_eq rfl
    · split
      · exact EF.of_eq rfl
      · split
        · exact EF.of_eq rfl
        · split
          · exact EF.of_eq rfl
          · rename_i rr _ _ _
            have h1 : EF s { s with ctx := c } := EF.of_eq rfl
            split
            · exact (h1.trans ((ef_stopRec _ _).trans (ef_startRec _ _ _ _ _))).trans (EF.of_eq rfl)
            · exact (h1.trans (ef_stopRec _ _)).trans (EF.of_eq rfl)

theorem ef_restartCS (s : St) : EF s (restartCS s).1 := by
  have hn : EF s (normCtx s) := EF.of_eq (by simp)
  simp only [restartCS]
  split
  · exact hn
  · rename_i r hr
    split
    · exact hn
    · rename_i x hx
      have hx' : (cancelOpt (normCtx s) x.cancelOf).recs[r]? = some x := by simpa using hx
      have h1 : EF s (cancelOpt (normCtx s) x.cancelOf) := EF.of_eq (by simp)
      have h2 := h1.trans (ef_set _ r x { x with cancelOf := none } hx' (Or.inr ⟨rfl, rfl⟩))
      split
      · exact h2
      · have h3 := h1.trans (ef_set _ r x { x with cancelOf := none, exitedCh := none } hx' (Or.inr ⟨rfl, rfl⟩))
        refine (EF.trans ?_ (ef_startRec _ _ _ _ _)).trans (EF.of_eq rfl)
        simp only [List.set_set]
        exact h3

theorem ef_detachPrev (s : St) : EF s (detachPrev s).1 := by
  cases hr : s.routine with
  | none => simp only [detachPrev, hr]; exact EF.of_eq rfl
  | some p =>
    cases hx : s.recs[p]? with
    | none => simp only [detachPrev, hr, hx]; exact EF.of_eq rfl
    | some pr =>
      simp only [detachPrev, hr, hx]
      have h1 : EF s (cancelOpt s pr.cancelOf) := EF.of_eq (by simp)
      have hx' : (cancelOpt s pr.cancelOf).recs[p]? = some pr := by simpa using hx
      exact (h1.trans (ef_set _ p pr { pr with cancelOf := none } hx' (Or.inr ⟨rfl, rfl⟩))).trans (EF.of_eq rfl)

theorem ef_setRoutineLocked (s : St) (f arg : Nat) : EF s (setRoutineLocked s f arg).1 := by
  have h0 : EF s (detachPrev (normCtx s)).1 := (EF.of_eq (s := s) (s' := normCtx s) (by simp)).trans (ef_detachPrev _)
  simp only [setRoutineLocked]
  split
  · split
    · refine h0.trans ?_
      exact ((ef_append _ { fn := f, arg := arg } rfl (some (detachPrev (normCtx s)).1.recs.length)).trans
        (ef_startRec _ _ _ _ _)).trans (EF.of_eq (s' := St.bcastNow _) rfl)
    · refine h0.trans ?_
      exact (ef_append _ { fn := f, arg := arg, exitedCh := (detachPrev (normCtx s)).2.1 } rfl
        (some (detachPrev (normCtx s)).1.recs.length)).trans (EF.of_eq (s' := St.bcastNow _) rfl)
  · split
    · exact h0.trans (EF.of_eq rfl)
    · exact h0.trans (EF.of_eq rfl)

theorem ef_setStateCS (s : St) (cmp v : Nat) : EF s (setStateCS s cmp v).1 := by
  simp only [setStateCS]
  split
  · simp only [updateStateRoutine]
    exact (EF.of_eq (s := s) (s' := { s with sval := v }) rfl).trans (ef_setRoutineLocked _ _ _)
  · exact EF.refl s

theorem ef_apiCS (s : St) (cf : Cfg) (op : Op) (r : St × Res × Option Nat) (h : apiCS s cf op = some r) :
    EF s r.1 := by
  cases op with
  | setContext c restart => simp [apiCS] at h; subst h; exact ef_setContextCS s c restart
  | setRoutine f =>
    simp only [apiCS] at h
    split at h
    · cases h
    · simp at h; subst h; exact ef_setRoutineLocked s f 0
  | restart => simp [apiCS] at h; subst h; exact ef_restartCS s
  | setState v =>
    simp only [apiCS] at h
    split at h
    · cases h
    · simp at h; subst h; exact ef_setStateCS s cf.cmp v
  | setStateRoutine f =>
    simp only [apiCS] at h
    split at h
    · cases h
    · simp at h; subst h
      simp only [updateStateRoutine]
      exact (EF.of_eq (s := s) (s' := { s with sfn := f }) rfl).trans (ef_setRoutineLocked _ _ _)
  | swap k =>
    simp only [apiCS] at h
    split at h
    · cases h
    · split at h
      · split at h
        · simp only [Option.some.injEq] at h; subst h; exact ef_setStateCS s cf.cmp _
        · simp only [Option.some.injEq] at h; subst h; exact EF.refl s
      · simp at h; subst h; exact EF.refl s
  | getState =>
    simp only [apiCS] at h
    split at h
    · cases h
    · simp at h; subst h; exact EF.refl s
  | waitExited _ => simp [apiCS] at h

theorem ef_timerBody (s : St) (t r : Nat) : EF s (timerBody s t r) := by
  simp only [timerBody]
  refine EF.trans ?_ (EF.of_eq (s' := St.bcastNow _) rfl)
  split
  · rename_i x hx
    split
    · exact (ef_set s r x { x with retry := none } hx (Or.inr ⟨rfl, rfl⟩)).trans (ef_startRec _ _ _ _ _)
    · exact EF.refl s
  · exact EF.refl s

theorem apiCS_sup (s : St) (cf : Cfg) (op : Op) (r : St × Res × Option Nat) (h : apiCS s cf op = some r)
    (hsup : r.2.1.sup = true) : CurNew s r.1 := by
  cases op with
  | setContext c restart =>
    simp [apiCS] at h; subst h
    rcases curNew_setContextCS s c restart with g | g
    · simp [Res.sup, g] at hsup
    · exact g
  | setRoutine f =>
    simp only [apiCS] at h
    split at h
    · cases h
    · simp at h; subst h; exact curNew_setRoutineLocked s f 0
  | restart =>
    simp [apiCS] at h; subst h
    rcases curNew_restartCS s with g | g
    · simp [Res.sup, g] at hsup
    · exact g
  | setState v =>
    simp only [apiCS] at h
    split at h
    · cases h
    · simp at h; subst h
      simp only [Res.sup, setStateCS] at hsup ⊢
      split
      · simp only [updateStateRoutine]
        exact curNew_setRoutineLocked { s with sval := v } _ _
      · rename_i hch; simp [hch] at hsup
  | setStateRoutine f =>
    simp only [apiCS] at h
    split at h
    · cases h
    · simp at h; subst h
      simp only [updateStateRoutine]
      exact curNew_setRoutineLocked { s with sfn := f } _ _
  | swap k =>
    simp only [apiCS] at h
    split at h
    · cases h
    · split at h
      · split at h
        · simp only [Option.some.injEq] at h; subst h
          simp only [Res.sup, setStateCS] at hsup ⊢
          split
          · simp only [updateStateRoutine]
            exact curNew_setRoutineLocked { s with sval := _ } _ _
          · rename_i hch; simp [hch] at hsup
        · simp only [Option.some.injEq] at h; subst h; simp [Res.sup] at hsup
      · simp at h; subst h; simp [Res.sup] at hsup
  | getState =>
    simp only [apiCS] at h
    split at h
    · cases h
    · simp at h; subst h; simp [Res.sup] at hsup
  | waitExited _ => simp [apiCS] at h

/-! ## error-channel messages are only added by `envErr` -/

@[simp] theorem cancelInst_werr (s : St) (n : Nat) : (cancelInst s n).werr = s.werr := by
  unfold cancelInst; split <;> rfl
@[simp] theorem cancelOpt_werr (s : St) (o : Option Nat) : (cancelOpt s o).werr = s.werr := by
  cases o <;> simp [cancelOpt]
@[simp] theorem killTimer_werr (s : St) (o : Option Nat) : (killTimer s o).werr = s.werr := by
  unfold killTimer; split
  · split
    · split <;> rfl
    · rfl
  · rfl
@[simp] theorem normCtx_werr (s : St) : (normCtx s).werr = s.werr := by unfold normCtx; split <;> rfl
@[simp] theorem detachPrev_werr (s : St) : (detachPrev s).1.werr = s.werr := by
  cases hr : s.routine with
  | none => simp [detachPrev, hr]
  | some r => cases hx : s.recs[r]? <;> simp [detachPrev, hr, hx]
@[simp] theorem stopRec_werr (s : St) (r : Nat) : (stopRec s r).werr = s.werr := by
  unfold stopRec; split <;> simp
@[simp] theorem startRec_werr (s : St) (r c : Nat) (w : Option Nat) (f : Bool) :
    (startRec s r c w f).werr = s.werr := by
  unfold startRec; split
  · rfl
  · split <;> simp
@[simp] theorem bcastNow_werr (s : St) : s.bcastNow.werr = s.werr := rfl

@[simp] theorem setContextCS_werr (s : St) (c : Nat) (r : Bool) : (setContextCS s c r).1.werr = s.werr := by
  simp only [setContextCS]
  split
  · rfl
  · split
    · rfl
    · split
      · rfl
      · split
        · rfl
        · split
          · rfl
          · split <;> simp

@[simp] theorem restartCS_werr (s : St) : (restartCS s).1.werr = s.werr := by
  simp only [restartCS]
  split
  · simp
  · split
    · simp
    · split <;> simp

@[simp] theorem setRoutineLocked_werr (s : St) (f arg : Nat) : (setRoutineLocked s f arg).1.werr = s.werr := by
  simp only [setRoutineLocked]
  split
  · split <;> simp
  · split <;> simp

@[simp] theorem setStateCS_werr (s : St) (cmp v : Nat) : (setStateCS s cmp v).1.werr = s.werr := by
  simp only [setStateCS]; split <;> simp [updateStateRoutine]

theorem apiCS_werr (s : St) (cf : Cfg) (op : Op) (r : St × Res × Option Nat) (h : apiCS s cf op = some r) :
    r.1.werr = s.werr := by
  cases op with
  | setContext c restart => simp [apiCS] at h; subst h; simp
  | setRoutine f =>
    simp only [apiCS] at h
    split at h
    · cases h
    · simp at h; subst h; simp
  | restart => simp [apiCS] at h; subst h; simp
  | setState v =>
    simp only [apiCS] at h
    split at h
    · cases h
    · simp at h; subst h; simp
  | setStateRoutine f =>
    simp only [apiCS] at h
    split at h
    · cases h
    · simp at h; subst h; simp [updateStateRoutine]
  | swap k =>
    simp only [apiCS] at h
    split at h
    · cases h
    · split at h
      · split at h
        · simp only [Option.some.injEq] at h; subst h; simp
        · simp only [Option.some.injEq] at h; subst h; rfl
      · simp at h; subst h; rfl
  | getState =>
    simp only [apiCS] at h
    split at h
    · cases h
    · simp at h; subst h; rfl
  | waitExited _ => simp [apiCS] at h

@[simp] theorem timerBody_werr (s : St) (t r : Nat) : (timerBody s t r).werr = s.werr := by
  simp only [timerBody, bcastNow_werr]
  split
  · split <;> simp
  · rfl

theorem recordCS_werr (s s' : St) (cf : Cfg) (n : Nat) (x : Inst) (dur : Bool)
    (h : recordCS s cf n x dur = some s') : s'.werr = s.werr := by
  simp only [recordCS] at h
  split at h
  · cases h
  · split at h
    · split at h
      · cases h
      · simp only [Option.some.injEq] at h; subst h
        simp only [bcastNow_werr]
        split <;> simp [setInst]
    · split at h
      · cases h
      · simp only [Option.some.injEq] at h; subst h; simp [setInst]


theorem waitSample_current (s : St) (rinr : Bool) (e : Option Nat)
    (h : (waitSample s rinr).2 = .done (.wx e)) :
    (∃ r y, (normCtx s).routine = some r ∧ (normCtx s).recs[r]? = some y ∧ (normCtx s).ctx ≠ 0 ∧
        (y.exited = true ∨ y.success = true) ∧ e = y.err) ∨
    (rinr = true ∧ e = none) := by
  simp only [waitSample] at h
  cases hrt : (normCtx s).routine with
  | none =>
    simp only [hrt] at h
    cases rinr <;> simp at h
    exact Or.inr ⟨rfl, h.symm⟩
  | some r =>
    cases hy : (normCtx s).recs[r]? with
    | none =>
      simp only [hrt, hy] at h
      cases rinr <;> simp at h
      exact Or.inr ⟨rfl, h.symm⟩
    | some y =>
      simp only [hrt, hy] at h
      by_cases hc : ((normCtx s).ctx != 0) = true
      · simp only [hc, if_true] at h
        by_cases hex : (y.exited || y.success) = true
        · simp only [hex, if_true] at h
          left
          refine ⟨r, y, rfl, hy, by simpa using hc, by simpa using hex, ?_⟩
          simpa using h.symm
        · simp [hex] at h
      · simp only [hc] at h
        cases rinr <;> simp at h
        exact Or.inr ⟨rfl, h.symm⟩

theorem apiCS_not_wx (s : St) (cf : Cfg) (op : Op) (r : St × Res × Option Nat) (h : apiCS s cf op = some r)
    (e : Option Nat) : r.2.1 ≠ .wx e := by
  cases op with
  | setContext c restart => simp [apiCS] at h; subst h; simp
  | setRoutine f =>
    simp only [apiCS] at h
    split at h
    · cases h
    · simp at h; subst h; simp
  | restart => simp [apiCS] at h; subst h; simp
  | setState v =>
    simp only [apiCS] at h
    split at h
    · cases h
    · simp at h; subst h; simp
  | setStateRoutine f =>
    simp only [apiCS] at h
    split at h
    · cases h
    · simp at h; subst h; simp
  | swap k =>
    simp only [apiCS] at h
    split at h
    · cases h
    · split at h
      · split at h
        · simp only [Option.some.injEq] at h; subst h; simp
        · simp only [Option.some.injEq] at h; subst h; simp
      · simp at h; subst h; simp
  | getState =>
    simp only [apiCS] at h
    split at h
    · cases h
    · simp at h; subst h; simp
  | waitExited _ => simp [apiCS] at h

/-- the container's routine pointer is kept, cleared, or set to a newly created record -/
def RtStep (s s' : St) : Prop :=
  s'.routine = s.routine ∨ s'.routine = none ∨ s'.routine = some s.recs.length

theorem apiCS_routine (s : St) (cf : Cfg) (op : Op) (r : St × Res × Option Nat) (h : apiCS s cf op = some r) :
    RtStep s r.1 := by
  cases op with
  | setContext c restart => simp [apiCS] at h; subst h; exact Or.inl (faeq_setContextCS s c restart).rt
  | setRoutine f =>
    simp only [apiCS] at h
    split at h
    · cases h
    · simp at h; subst h; exact Or.inr (setRoutineLocked_routine s f 0)
  | restart => simp [apiCS] at h; subst h; exact Or.inl (faeq_restartCS s).rt
  | setState v =>
    simp only [apiCS] at h
    split at h
    · cases h
    · simp at h; subst h
      simp only [setStateCS]
      split
      · simp only [updateStateRoutine]; exact Or.inr (setRoutineLocked_routine { s with sval := v } _ _)
      · exact Or.inl rfl
  | setStateRoutine f =>
    simp only [apiCS] at h
    split at h
    · cases h
    · simp at h; subst h
      simp only [updateStateRoutine]; exact Or.inr (setRoutineLocked_routine { s with sfn := f } _ _)
  | swap k =>
    simp only [apiCS] at h
    split at h
    · cases h
    · split at h
      · split at h
        · simp only [Option.some.injEq] at h; subst h
          simp only [setStateCS]
          split
          · simp only [updateStateRoutine]; exact Or.inr (setRoutineLocked_routine { s with sval := _ } _ _)
          · exact Or.inl rfl
        · simp only [Option.some.injEq] at h; subst h; exact Or.inl rfl
      · simp at h; subst h; exact Or.inl rfl
  | getState =>
    simp only [apiCS] at h
    split at h
    · cases h
    · simp at h; subst h; exact Or.inl rfl
  | waitExited _ => simp [apiCS] at h

/-! ## the link for the WaitExited clause -/

def WOk (ms : C14wSt) (a : Nat) (e : Option Nat) : Prop :=
  e = some 0 ∨ (e = none ∧ (ms.rinr.find? (·.1 == a)).map (·.2) = some true) ∨
  (∃ k, (k, e) ∈ ms.outs ∧ k ∉ lookupSnap ms.doomedAt a) ∨ ∃ e', e = some e' ∧ (a, e') ∈ ms.errsent

structure WLink (s : St) (ms : C14wSt) : Prop where
  /-- the result of every entered instance that has returned was logged -/
  ot : ∀ (k n : Nat) (x : Inst), s.ent[k]? = some n → s.insts[n]? = some x → (x.st = .returned ∨ x.st = .closed) →
        (k, x.out) ∈ ms.outs
  /-- an instance that returned without having entered returned context.Canceled -/
  ne : ∀ (n : Nat) (x : Inst), s.insts[n]? = some x → (x.st = .returned ∨ x.st = .closed) →
        (∃ k : Nat, s.ent[k]? = some n) ∨ x.out = some 0
  /-- an instance superseded for sure is not the container's current instance -/
  dm : ∀ k ∈ ms.doomed, ∀ n, s.ent[k]? = some n → curInst s ≠ some n
  /-- the error of the container's record, once it has exited, is the result of an instance that was not superseded
  for sure (or of one that never entered) -/
  ow : ∀ (r : Nat) (x : Rec), s.routine = some r → s.recs[r]? = some x → x.exited = true → x.err = some 0 ∨
        ∃ (k n : Nat) (y : Inst), s.ent[k]? = some n ∧ s.insts[n]? = some y ∧ y.st = .closed ∧ y.out = x.err ∧
          k ∉ ms.doomed
  /-- a superseding critical section has happened: what was executing at the invocation is not current -/
  sc : ∀ (b : Nat) (c : Call) (r : Res), s.calls[b]? = some c → c.st = .done r → r.sup = true →
        ∀ k ∈ lookupSnap ms.snaps b, ∀ n, s.ent[k]? = some n → curInst s ≠ some n
  wr : ∀ (a : Nat) (c : Call) (e : Option Nat), s.calls[a]? = some c → c.st = .done (.wx e) → WOk ms a e
  we : ∀ a e, (a, e) ∈ s.werr → (a, e) ∈ ms.errsent
  rl : ∀ (a : Nat) (c : Call) (b : Bool), s.calls[a]? = some c → c.op = .waitExited b →
        (ms.rinr.find? (·.1 == a)).map (·.2) = some b
  ds : ∀ a k, k ∈ lookupSnap ms.doomedAt a → k ∈ ms.doomed
  db : ∀ k ∈ ms.doomed, k < s.ent.length
  sb : ∀ b k, k ∈ lookupSnap ms.snaps b → k < s.ent.length

theorem wlink_init : WLink {} {} := by
  refine ⟨?_, ?_, ?_, ?_, ?_, ?_, ?_, ?_, ?_, ?_, ?_⟩
  rotate_left 9
  · intro k h; cases h
  · intro b k h; simp [lookupSnap] at h
  · intro k n x h; simp at h
  · intro n x h; simp at h
  · intro k h; cases h
  · intro r x h; cases h
  · intro b c r h; simp at h
  · intro a c e h; simp at h
  · intro a e h; simp at h
  · intro a c b h; simp at h
  · intro a k h; simp [lookupSnap] at h

theorem lookupSnap_cons_ne {l : List (Nat × List Nat)} {a b : Nat} {v : List Nat} (h : a ≠ b) :
    lookupSnap ((a, v) :: l) b = lookupSnap l b := by
  simp [lookupSnap, List.find?_cons, h]

theorem lookupSnap_cons_self {l : List (Nat × List Nat)} {a : Nat} {v : List Nat} :
    lookupSnap ((a, v) :: l) a = v := by
  simp [lookupSnap, List.find?_cons]

/-- what the events that do not move a call (nor start / end an execution) need to keep the link -/
structure WFrame0 (s s' : St) : Prop where
  ent : s'.ent = s.ent
  /-- an instance that has returned keeps its result and stays returned or exited -/
  fw : ∀ (n : Nat) (x : Inst), s.insts[n]? = some x → (x.st = .returned ∨ x.st = .closed) →
        ∃ x', s'.insts[n]? = some x' ∧ x'.out = x.out ∧ (x.st = .closed → x'.st = .closed) ∧
          (x'.st = .returned ∨ x'.st = .closed)
  bw : ∀ (n : Nat) (x' : Inst), s'.insts[n]? = some x' → (x'.st = .returned ∨ x'.st = .closed) →
        (∃ x, s.insts[n]? = some x ∧ x.out = x'.out ∧ (x.st = .returned ∨ x.st = .closed)) ∨
        ((∀ k : Nat, s.ent[k]? ≠ some n) ∧ x'.out = some 0)
  rt : RtStep s s'
  we : s'.werr = s.werr
  nc : ∀ n, n < s.insts.length → curInst s ≠ some n → curInst s' ≠ some n

structure WFrame (s s' : St) : Prop extends WFrame0 s s' where
  ef : EF s s'

theorem WLink.keepR {s s' : St} {ms : C14wSt} {msA : C04St} (h : WLink s ms) (hA : LinkA s msA) (hf : WFrame0 s s')
    (how : ∀ (r : Nat) (x : Rec), s'.routine = some r → s'.recs[r]? = some x → x.exited = true → x.err = some 0 ∨
      ∃ (k n : Nat) (y : Inst), s'.ent[k]? = some n ∧ s'.insts[n]? = some y ∧ y.st = .closed ∧ y.out = x.err ∧
        k ∉ ms.doomed)
    (a0 : Nat) (hx : CallsExcept s s' a0)
    (k1 : ∀ c' r, s'.calls[a0]? = some c' → c'.st = .done r → r.sup = true →
      ∀ k ∈ lookupSnap ms.snaps a0, ∀ n, s'.ent[k]? = some n → curInst s' ≠ some n)
    (k2 : ∀ c' e, s'.calls[a0]? = some c' → c'.st = .done (.wx e) → WOk ms a0 e)
    (k3 : ∀ c' b, s'.calls[a0]? = some c' → c'.op = .waitExited b → (ms.rinr.find? (·.1 == a0)).map (·.2) = some b) :
    WLink s' ms := by
  have hlt : ∀ (k n : Nat), s.ent[k]? = some n → n < s.insts.length := by
    intro k n hn; obtain ⟨x, hx0, _⟩ := hA.l3 k n hn; exact get_lt hx0
  refine ⟨?_, ?_, ?_, ?_, ?_, ?_, ?_, ?_, h.ds, by rw [hf.ent]; exact h.db, by rw [hf.ent]; exact h.sb⟩
  · intro k n x' hn hx' hst
    rw [hf.ent] at hn
    rcases hf.bw n x' hx' hst with ⟨x, hx0, ho, hst0⟩ | ⟨hno, _⟩
    · rw [← ho]; exact h.ot k n x hn hx0 hst0
    · exact absurd hn (hno k)
  · intro n x' hx' hst
    rcases hf.bw n x' hx' hst with ⟨x, hx0, ho, hst0⟩ | ⟨_, ho⟩
    · rcases h.ne n x hx0 hst0 with ⟨k, hk⟩ | e
      · exact Or.inl ⟨k, by rw [hf.ent]; exact hk⟩
      · exact Or.inr (by rw [← ho]; exact e)
    · exact Or.inr ho
  · intro k hk n hn
    rw [hf.ent] at hn
    exact hf.nc n (hlt k n hn) (h.dm k hk n hn)
  · exact how
  · intro b c' r hc' hst hsup k hk n hn
    by_cases hb : b = a0
    · subst hb; exact k1 c' r hc' hst hsup k hk n hn
    · obtain ⟨c, hc, hrel⟩ := hx.bw b c' hb hc'
      rw [hf.ent] at hn
      exact hf.nc n (hlt k n hn) (h.sc b c r hc ((hrel.2.1 r).1 hst) hsup k hk n hn)
  · intro a c' e hc' hst
    by_cases hb : a = a0
    · subst hb; exact k2 c' e hc' hst
    · obtain ⟨c, hc, hrel⟩ := hx.bw a c' hb hc'
      exact h.wr a c e hc ((hrel.2.1 _).1 hst)
  · intro a e hm; rw [hf.we] at hm; exact h.we a e hm
  · intro a c' b hc' hop
    by_cases hb : a = a0
    · subst hb; exact k3 c' b hc' hop
    · obtain ⟨c, hc, hrel⟩ := hx.bw a c' hb hc'
      exact h.rl a c b hc (by rw [← hrel.1]; exact hop)

theorem WLink.keep {s s' : St} {ms : C14wSt} {msA : C04St} (h : WLink s ms) (hA : LinkA s msA) (hf : WFrame s s')
    (a0 : Nat) (hx : CallsExcept s s' a0)
    (k1 : ∀ c' r, s'.calls[a0]? = some c' → c'.st = .done r → r.sup = true →
      ∀ k ∈ lookupSnap ms.snaps a0, ∀ n, s'.ent[k]? = some n → curInst s' ≠ some n)
    (k2 : ∀ c' e, s'.calls[a0]? = some c' → c'.st = .done (.wx e) → WOk ms a0 e)
    (k3 : ∀ c' b, s'.calls[a0]? = some c' → c'.op = .waitExited b → (ms.rinr.find? (·.1 == a0)).map (·.2) = some b) :
    WLink s' ms := by
  refine h.keepR hA hf.toWFrame0 ?_ a0 hx k1 k2 k3
  intro r x' hr hx' he
  obtain ⟨x, hx0, he0, herr⟩ := hf.ef r x' hx' he
  have hr0 : s.routine = some r := by
    rcases hf.rt with e | e | e
    · rw [← e]; exact hr
    · rw [e] at hr; cases hr
    · rw [e] at hr; cases hr; have := get_lt hx0; omega
  rcases h.ow r x hr0 hx0 he0 with e | ⟨k, n, y, g1, g2, g3, g4, g5⟩
  · exact Or.inl (by rw [← herr]; exact e)
  · obtain ⟨y', q1, q2, q3, _⟩ := hf.fw n y g2 (Or.inr g3)
    exact Or.inr ⟨k, n, y', by rw [hf.ent]; exact g1, q1, q3 g3, by rw [q2, g4, herr], g5⟩

theorem step_rt (s s' : St) (e : Ev) (hs : step s e = some s') : RtStep s s' := by
  rcases step_faeq s s' e hs with ⟨h, _⟩ | ⟨_, c, _, h⟩ | ⟨a, c, cf, r, _, _, _, _, hr, h, _⟩
  · exact Or.inl h.rt
  · subst h; exact Or.inl rfl
  · rcases apiCS_routine s cf _ r hr with g | g | g
    · exact Or.inl (h.rt.trans g)
    · exact Or.inr (Or.inl (h.rt.trans g))
    · exact Or.inr (Or.inr (h.rt.trans g))

/-- critical sections: instances keep state and result -/
theorem wframe_of_ext {s s' : St} {e : Ev} (hs : step s e = some s') (he : InstsExt s s')
    (hnew : ∀ n x', s'.insts[n]? = some x' → s.insts.length ≤ n → x'.st = .waiting)
    (hent : s'.ent = s.ent) (hef : EF s s') (hwe : s'.werr = s.werr) : WFrame s s' := by
  refine ⟨⟨hent, ?_, ?_, step_rt s s' e hs, hwe, fun n hlt h => noncur_keep hs n hlt h⟩, hef⟩
  · intro n x hx hst
    obtain ⟨x', hx', hle⟩ := he n x hx
    refine ⟨x', hx', hle.2.2.2.2.1, fun h => by rw [hle.2.2.2.1]; exact h, by rw [hle.2.2.2.1]; exact hst⟩
  · intro n x' hx' hst
    by_cases hlt : n < s.insts.length
    · obtain ⟨x'', hx'', hle⟩ := he n (s.insts[n]) (List.getElem?_eq_getElem hlt)
      rw [hx'] at hx''; cases hx''
      exact Or.inl ⟨_, List.getElem?_eq_getElem hlt, hle.2.2.2.2.1.symm, by rw [← hle.2.2.2.1]; exact hst⟩
    · have := hnew n x' hx' (by omega)
      rcases hst with h | h <;> rw [this] at h <;> cases h

/-- events that leave instances, records, entries and error-channel messages alone -/
theorem wframe_same {s s' : St} {e : Ev} (hs : step s e = some s') (h1 : s'.insts = s.insts) (h2 : s'.recs = s.recs)
    (h3 : s'.ent = s.ent) (h4 : s'.werr = s.werr) : WFrame s s' := by
  refine ⟨⟨h3, ?_, ?_, step_rt s s' e hs, h4, fun n hlt h => noncur_keep hs n hlt h⟩, EF.of_eq h2⟩
  · intro n x hx hst; exact ⟨x, by rw [h1]; exact hx, rfl, id, hst⟩
  · intro n x' hx' hst; rw [h1] at hx'; exact Or.inl ⟨x', hx', rfl, hst⟩

/-- an event that rewrites one instance -/
theorem wframe_setInst {s : St} {e : Ev} {m : Nat} {x y : Inst} (hs : step s e = some (setInst s m y))
    (hx : s.insts[m]? = some x)
    (h1 : (x.st = .returned ∨ x.st = .closed) → y.out = x.out ∧ (x.st = .closed → y.st = .closed) ∧
      (y.st = .returned ∨ y.st = .closed))
    (h2 : (y.st = .returned ∨ y.st = .closed) → (y.out = x.out ∧ (x.st = .returned ∨ x.st = .closed)) ∨
      ((∀ k : Nat, s.ent[k]? ≠ some m) ∧ y.out = some 0)) : WFrame s (setInst s m y) := by
  have hlt := get_lt hx
  refine ⟨⟨rfl, ?_, ?_, step_rt s _ e hs, rfl, fun n hl h => noncur_keep hs n hl h⟩, EF.of_eq rfl⟩
  · intro n z hz hst
    by_cases hmn : m = n
    · subst hmn; rw [hx] at hz; cases hz
      obtain ⟨g1, g2, g3⟩ := h1 hst
      exact ⟨y, by simp [setInst, hlt], g1, g2, g3⟩
    · exact ⟨z, by simp [setInst, List.getElem?_set, hmn, hz], rfl, id, hst⟩
  · intro n z' hz' hst
    by_cases hmn : m = n
    · subst hmn
      have : z' = y := by simpa [setInst, hlt] using hz'.symm
      subst this
      rcases h2 hst with ⟨g1, g2⟩ | g
      · exact Or.inl ⟨x, hx, g1.symm, g2⟩
      · exact Or.inr g
    · have : s.insts[n]? = some z' := by simpa [setInst, List.getElem?_set, hmn] using hz'
      exact Or.inl ⟨z', this, rfl, hst⟩

theorem shape_new_waiting {s s' : St} (hs : Shape s s') (n : Nat) (x' : Inst) (hx' : s'.insts[n]? = some x')
    (hge : s.insts.length ≤ n) : x'.st = .waiting := by
  cases hs with
  | same h1 _ =>
    have : s'.insts.length = s.insts.length := by simpa using congrArg List.length h1
    have := get_lt hx'; omega
  | spawn h1 _ =>
    have h2 : (s'.insts.map pI)[n]? = some (pI x') := by simp [hx']
    rw [h1] at h2
    have hlen : (s.insts.map pI).length ≤ n := by simpa using hge
    rw [List.getElem?_append_right hlen] at h2
    rcases Nat.lt_or_ge (n - (s.insts.map pI).length) 1 with g | g
    · have : n - (s.insts.map pI).length = 0 := by omega
      rw [this] at h2
      simp only [List.getElem?_cons_zero, Option.some.injEq] at h2
      have : pst x'.st = .waiting := by
        have := congrArg Chain.Inst.st h2
        simpa [pI, newPI] using this.symm
      cases hst : x'.st <;> simp [hst, pst] at this
      rfl
    · have : [newPI (lastOf s)][n - (s.insts.map pI).length]? = none := List.getElem?_eq_none (by simpa using g)
      rw [this] at h2; cases h2

theorem recordCS_recs (s s' : St) (cf : Cfg) (n : Nat) (x : Inst) (dur : Bool)
    (h : recordCS s cf n x dur = some s') :
    s'.recs = s.recs ∨ ∃ r, s.recs[x.rid]? = some r ∧ r.rctx = some n ∧
      ∃ y : Rec, s'.recs = s.recs.set x.rid y ∧ y.err = x.out ∧ y.exited = true := by
  simp only [recordCS] at h
  split at h
  · cases h
  · rename_i r hr
    split at h
    · rename_i hrc
      split at h
      · cases h
      · simp only [Option.some.injEq] at h; subst h
        right
        by_cases hret : cf.retry = true
        · simp only [hret, if_true, St.bcastNow, killTimer_recs, setInst]
          exact ⟨r, hr, hrc, _, rfl, rfl, rfl⟩
        · have hret' : cf.retry = false := by simpa using hret
          simp only [hret', Bool.false_eq_true, if_false, St.bcastNow, setInst]
          exact ⟨r, hr, hrc, _, rfl, rfl, rfl⟩
    · split at h
      · cases h
      · simp only [Option.some.injEq] at h; subst h; left; simp [setInst]

theorem wframe0_of_ext {s s' : St} {e : Ev} (hs : step s e = some s') (he : InstsExt s s')
    (hlen : s'.insts.length = s.insts.length) (hent : s'.ent = s.ent) (hwe : s'.werr = s.werr) : WFrame0 s s' := by
  refine ⟨hent, ?_, ?_, step_rt s s' e hs, hwe, fun n hlt h => noncur_keep hs n hlt h⟩
  · intro n x hx hst
    obtain ⟨x', hx', hle⟩ := he n x hx
    refine ⟨x', hx', hle.2.2.2.2.1, fun h => by rw [hle.2.2.2.1]; exact h, by rw [hle.2.2.2.1]; exact hst⟩
  · intro n x' hx' hst
    have hlt : n < s.insts.length := by rw [← hlen]; exact get_lt hx'
    obtain ⟨x'', hx'', hle⟩ := he n (s.insts[n]) (List.getElem?_eq_getElem hlt)
    rw [hx'] at hx''; cases hx''
    exact Or.inl ⟨_, List.getElem?_eq_getElem hlt, hle.2.2.2.2.1.symm, by rw [← hle.2.2.2.1]; exact hst⟩

/-- the monitor's Boolean test follows from `WOk` -/
theorem wok_check {ms : C14wSt} {a : Nat} {e : Option Nat} (h : WOk ms a e) :
    monC14w.step ms (.ret a (.wx e)) = some ms := by
  simp only [monC14w]
  rcases h with h | ⟨h1, h2⟩ | ⟨k, hk1, hk2⟩ | ⟨e', h1, h2⟩
  · subst h; rfl
  · subst h1; simp [h2]
  · have hfresh : (ms.outs.any fun p => p.2 == e && !(lookupSnap ms.doomedAt a).contains p.1) = true := by
      simp only [List.any_eq_true]
      exact ⟨(k, e), hk1, by simp [hk2]⟩
    cases e with
    | none => simp only [hfresh, Bool.true_or, if_true]
    | some v =>
      cases v with
      | zero => rfl
      | succ w => simp only [hfresh, Bool.true_or, if_true]
  · subst h1
    cases e' with
    | zero => rfl
    | succ w =>
      have : ms.errsent.contains (a, w + 1) = true := by simpa using h2
      simp only [this, Bool.or_true, if_true]

/-- one step of the model against the WaitExited monitor -/
theorem wl_step (s s' : St) (e : Ev) (ms : C14wSt) (msA : C04St) (hl : WLink s ms) (hA : LinkA s msA)
    (hr : ms.running = msA.running) (hg : Good s) (hs : step s e = some s') :
    match Ev.obs e with
    | none => WLink s' ms
    | some o => ∃ ms', monC14w.step ms o = some ms' ∧ WLink s' ms' := by
  have ha := hg.recs
  have hlt : ∀ (k n : Nat), s.ent[k]? = some n → n < s.insts.length := by
    intro k n hn; obtain ⟨x, hx0, _⟩ := hA.l3 k n hn; exact get_lt hx0
  -- events that move no call: the frame is enough
  have hkeep : e.callEv = false → WFrame s s' → WLink s' ms := by
    intro hce hf
    have hw := step_wrSame s s' e hs hce
    have hnone : s'.calls[s.calls.length]? = none := by rw [← hw.len]; simp
    exact hl.keep hA hf s.calls.length (callsExcept_of_wrSame hw _)
      (by intro c' r h; rw [hnone] at h; cases h) (by intro c' e h; rw [hnone] at h; cases h)
      (by intro c' b h; rw [hnone] at h; cases h)
  have hs0 := hs
  cases e with
  | cfg c =>
    simp only [step, stepI] at hs
    split at hs
    · simp at hs; subst hs
      exact ⟨ms, rfl, hkeep rfl (wframe_same hs0 rfl rfl rfl rfl)⟩
    · cases hs
  | wake a =>
    simp only [step, stepI] at hs
    split at hs
    · split at hs
      · split at hs
        · simp at hs; subst hs; exact hkeep rfl (wframe_same hs0 rfl rfl rfl rfl)
        · cases hs
      · cases hs
    · cases hs
  | wctx a =>
    simp only [step, stepI] at hs
    split at hs
    · split at hs
      · split at hs
        · simp at hs; subst hs; exact hkeep rfl (wframe_same hs0 rfl rfl rfl rfl)
        · cases hs
      · cases hs
    · cases hs
  | envCancel c =>
    simp only [step, stepI] at hs
    split at hs
    · simp at hs; subst hs; exact ⟨ms, rfl, hkeep rfl (wframe_same hs0 rfl rfl rfl rfl)⟩
    · cases hs
  | envDo c =>
    simp only [step, stepI] at hs
    split at hs
    · simp at hs; subst hs; exact hkeep rfl (wframe_same hs0 rfl rfl rfl rfl)
    · cases hs
  | envCancelW a =>
    simp only [step, stepI] at hs
    split at hs
    · split at hs
      · simp at hs; subst hs; exact ⟨ms, rfl, hkeep rfl (wframe_same hs0 rfl rfl rfl rfl)⟩
      all_goals cases hs
    · cases hs
  | envErr a e0 =>
    simp only [step, stepI] at hs
    split at hs
    · split at hs
      · simp at hs; subst hs
        have hw := step_wrSame s _ _ hs0 rfl
        refine ⟨{ ms with errsent := (a, e0) :: ms.errsent }, rfl, ?_⟩
        have hnone : s.calls[s.calls.length]? = none := by simp
        have h0 : WLink s ms := hl
        exact ⟨h0.ot, h0.ne, h0.dm, h0.ow, h0.sc,
          (fun a' c e h1 h2 => by
            rcases h0.wr a' c e h1 h2 with g | g | g | ⟨e', g1, g2⟩
            · exact Or.inl g
            · exact Or.inr (Or.inl g)
            · exact Or.inr (Or.inr (Or.inl g))
            · exact Or.inr (Or.inr (Or.inr ⟨e', g1, List.mem_cons_of_mem _ g2⟩))),
          (by intro a' e' hm
              simp only [List.mem_cons] at hm ⊢
              rcases hm with h | h
              · exact Or.inl h
              · exact Or.inr (h0.we a' e' h)), h0.rl, h0.ds, h0.db, h0.sb⟩
      all_goals cases hs
    · cases hs
  | giveUp m =>
    simp only [step, stepI] at hs
    split at hs
    · rename_i x hx
      split at hs
      · rename_i hgd
        have hno : ∀ k : Nat, s.ent[k]? ≠ some m := by
          intro k hk
          obtain ⟨y, hy, hy1, _⟩ := hA.l3 k m hk
          rw [hx] at hy; cases hy; exact hy1 hgd.1
        split at hs
        · simp at hs; subst hs
          exact hkeep rfl (wframe_setInst hs0 hx (by intro h; rcases h with h | h <;> rw [hgd.1] at h <;> cases h)
            (by intro h; rcases h with h | h <;> cases h))
        · simp at hs; subst hs
          exact hkeep rfl (wframe_setInst hs0 hx (by intro h; rcases h with h | h <;> rw [hgd.1] at h <;> cases h)
            (by intro _; exact Or.inr ⟨hno, rfl⟩))
      · cases hs
    · cases hs
  | drained m =>
    simp only [step, stepI] at hs
    split at hs
    · rename_i x hx
      split at hs
      · rename_i hgd
        have hno : ∀ k : Nat, s.ent[k]? ≠ some m := by
          intro k hk
          obtain ⟨y, hy, _, hy2⟩ := hA.l3 k m hk
          rw [hx] at hy; cases hy; exact hy2 hgd.1
        simp at hs; subst hs
        exact hkeep rfl (wframe_setInst hs0 hx (by intro h; rcases h with h | h <;> rw [hgd.1] at h <;> cases h)
          (by intro _; exact Or.inr ⟨hno, rfl⟩))
      · cases hs
    · cases hs
  | closeExit m =>
    simp only [step, stepI] at hs
    split at hs
    · rename_i x hx
      split at hs
      · rename_i hgd
        simp at hs; subst hs
        exact hkeep rfl (wframe_setInst hs0 hx (by intro _; exact ⟨rfl, fun _ => rfl, Or.inr rfl⟩)
          (by intro _; exact Or.inl ⟨rfl, Or.inl hgd⟩))
      · cases hs
    · cases hs
  | emit o =>
    have hline : o.isLine = true := by
      simp only [step, stepI] at hs
      split at hs
      · split at hs
        · rename_i h0; exact h0.2
        · cases hs
      · cases hs
    simp only [step, stepI] at hs
    split at hs
    · split at hs
      · simp at hs; subst hs
        have := hkeep rfl (wframe_same hs0 rfl rfl rfl rfl)
        cases o <;> simp [Obs.isLine] at hline
        all_goals exact ⟨ms, rfl, this⟩
      · cases hs
    · cases hs
  | fire t =>
    simp only [step, stepI] at hs
    split at hs
    · split at hs
      · simp at hs; subst hs; exact hkeep rfl (wframe_same hs0 rfl rfl rfl rfl)
      · cases hs
    · cases hs
  | timerCS t =>
    simp only [step, stepI] at hs
    split at hs
    · rename_i tm htm
      split at hs
      · simp at hs; subst hs
        have hb : CSOK s { s with timers := s.timers.set t { tm with st := .dead } } := CSOK.of_eq rfl rfl
        have hsh := (timerBody_shape { s with timers := s.timers.set t { tm with st := .dead } } t tm.rid).of_base
          (s := s) rfl rfl
        exact hkeep rfl (wframe_of_ext hs0 (hb.trans (csok_timerBody _ t tm.rid)).1 (shape_new_waiting hsh)
          (by simp) ((EF.of_eq (s := s) (s' := { s with timers := s.timers.set t { tm with st := .dead } }) rfl).trans
            (ef_timerBody _ t tm.rid)) (by simp))
      · cases hs
    · cases hs
  | probeCtx k b =>
    simp only [step, stepI] at hs
    split at hs
    · split at hs
      · simp at hs; subst hs; exact ⟨ms, rfl, hkeep rfl (wframe_same hs0 rfl rfl rfl rfl)⟩
      · cases hs
    · cases hs
  | probeW a b =>
    simp only [step, stepI] at hs
    split at hs
    · split at hs
      · split at hs
        · simp at hs; subst hs; exact ⟨ms, rfl, hkeep rfl (wframe_same hs0 rfl rfl rfl rfl)⟩
        · cases hs
      · cases hs
    · cases hs
  | quiesce p r l =>
    simp only [step] at hs
    split at hs
    · simp at hs; subst hs; exact ⟨ms, rfl, hkeep rfl (wframe_same hs0 rfl rfl rfl rfl)⟩
    · cases hs
  | cs a =>
    have hshape : ∃ (S : St) (cf : Cfg) (c c'' : Call), s.cfg = some cf ∧ WrSame s S ∧ s.calls[a]? = some c ∧
        c.st = .invoked ∧ s' = setCall S a c'' ∧ c''.op = c.op ∧
        ((∃ b, c.op = .waitExited b ∧ S = (waitSample s b).1 ∧ c''.st = (waitSample s b).2) ∨
         (∃ r, apiCS s cf c.op = some r ∧ S = r.1 ∧ c''.st = .done r.2.1)) := by
      simp only [step, stepI] at hs
      split at hs
      · rename_i cf c hcf hc0
        split at hs
        · rename_i hinv
          split at hs
          · rename_i rinr hop
            split at hs
            · simp at hs
              exact ⟨(waitSample s rinr).1, cf, c, _, hcf, WrSame.of_eq (by simp [waitSample]), hc0, hinv, hs.symm, rfl,
                Or.inl ⟨rinr, hop, rfl, rfl⟩⟩
            · cases hs
          · split at hs
            · cases hs
            · split at hs
              · rename_i r hr
                simp at hs
                exact ⟨r.1, cf, c, _, hcf, wrSame_apiCS s cf _ r hr, hc0, hinv, hs.symm, rfl, Or.inr ⟨r, hr, rfl, rfl⟩⟩
              · cases hs
        · cases hs
      · cases hs
    obtain ⟨S, cf, c, c'', hcf, hw, hc0, hinv, hs', hop, hkind⟩ := hshape
    have hx : CallsExcept s s' a := by rw [hs']; exact callsExcept_setCall hw a c''
    have hlt' : a < S.calls.length := by rw [hw.len]; exact get_lt hc0
    have hget : s'.calls[a]? = some c'' := by rw [hs']; exact setCall_get a c'' hlt'
    have k3 : ∀ c' b, s'.calls[a]? = some c' → c'.op = .waitExited b →
        (ms.rinr.find? (·.1 == a)).map (·.2) = some b := by
      intro c' b hc' hop'
      rw [hget] at hc'; cases hc'
      exact hl.rl a c b hc0 (by rw [← hop]; exact hop')
    rcases hkind with ⟨b, hopw, hS, hst⟩ | ⟨r, hr, hS, hst⟩
    · subst hS
      have hf : WFrame s s' := by
        rw [hs'] at hs0 ⊢
        exact wframe_same hs0 (by simp [setCall, waitSample]) (by simp [setCall, waitSample])
          (by simp [setCall, waitSample]) (by simp [setCall, waitSample])
      refine hl.keep hA hf a hx ?_ ?_ k3
      · intro c' r0 hc' hd hsup
        rw [hget] at hc'; cases hc'
        rw [hst] at hd
        obtain ⟨e, he⟩ := waitSample_done s b r0 hd
        subst he; simp [Res.sup] at hsup
      · intro c' e hc' hd
        rw [hget] at hc'; cases hc'
        rw [hst] at hd
        rcases waitSample_current s b e hd with ⟨q, y, h1, h2, _, h4, h5⟩ | ⟨h1, h2⟩
        · have h1' : s.routine = some q := by simpa using h1
          have h2' : s.recs[q]? = some y := by simpa using h2
          have hex : y.exited = true := by
            rcases h4 with g | g
            · exact g
            · exact (ha q y h2').ks g
          rcases hl.ow q y h1' h2' hex with g | ⟨k, n, z, g1, g2, g3, g4, g5⟩
          · exact Or.inl (by rw [h5]; exact g)
          · refine Or.inr (Or.inr (Or.inl ⟨k, ?_, fun hk => g5 (hl.ds a k hk)⟩))
            have := hl.ot k n z g1 g2 (Or.inr g3)
            rw [g4, ← h5] at this; exact this
        · subst h2
          exact Or.inr (Or.inl ⟨rfl, by rw [hl.rl a c b hc0 hopw, h1]⟩)
    · subst hS
      have hent : s'.ent = s.ent := by rw [hs']; simp [setCall, apiCS_ent s cf _ r hr]
      have hf : WFrame s s' := by
        rw [hs'] at hs0 ⊢
        refine wframe_of_ext hs0 ?_ ?_ (by simp [setCall, apiCS_ent s cf _ r hr]) ?_
          (by simp [setCall, apiCS_werr s cf _ r hr])
        · intro n x hx0
          obtain ⟨y, hy, hle⟩ := (csok_apiCS s cf _ r hr).1 n x hx0
          exact ⟨y, by simpa [setCall] using hy, hle⟩
        · intro n x' hx' hge
          exact shape_new_waiting (apiCS_shape s cf _ r hr) n x' (by simpa [setCall] using hx') hge
        · exact (ef_apiCS s cf _ r hr).trans (EF.of_eq (by simp [setCall]))
      refine hl.keep hA hf a hx ?_ ?_ k3
      · intro c' r0 hc' hd hsup k hk n hn
        rw [hget] at hc'; cases hc'
        rw [hst] at hd
        simp only [CallSt.done.injEq] at hd
        subst hd
        have hnew := apiCS_sup s cf _ r hr hsup
        rw [hent] at hn
        intro hcur
        have hcur' : curInst r.1 = some n := by
          rw [← hcur, hs']; exact (curInst_frame rfl rfl).symm
        have := hnew n hcur'
        have := hlt k n hn
        omega
      · intro c' e hc' hd
        rw [hget] at hc'; cases hc'
        rw [hst] at hd
        simp only [CallSt.done.injEq] at hd
        exact absurd hd (apiCS_not_wx s cf _ r hr e)
  | inv a op =>
    simp only [step, stepI] at hs
    split at hs
    · rename_i hcfg
      simp at hs; subst hs
      have haeq : a = s.calls.length := hcfg.2
      subst haeq
      have hget : ({ s with calls := s.calls ++ [({ op := op } : Call)] } : St).calls[s.calls.length]? =
          some ({ op := op } : Call) := by simp
      have hold : ∀ (b : Nat) (cb : Call), ({ s with calls := s.calls ++ [({ op := op } : Call)] } : St).calls[b]? = some cb →
          b ≠ s.calls.length → s.calls[b]? = some cb := by
        intro b cb h hne
        have hlt0 : b < s.calls.length := by
          have := get_lt h
          simp at this; omega
        simp only at h; rw [List.getElem?_append_left hlt0] at h; exact h
      have hrunk : ∀ k ∈ ms.running, k < s.ent.length := by
        intro k hk
        rw [hr] at hk
        obtain ⟨n, x, h1, _⟩ := (hA.l1 k).1 hk
        exact get_lt h1
      -- the part that does not depend on the kind of call
      have hcore : ∀ ms' : C14wSt, ms'.outs = ms.outs → ms'.doomed = ms.doomed → ms'.errsent = ms.errsent →
          ms'.snaps = (s.calls.length, ms.running) :: ms.snaps →
          (∀ a', a' ≠ s.calls.length → lookupSnap ms'.doomedAt a' = lookupSnap ms.doomedAt a' ∧
            ms'.rinr.find? (·.1 == a') = ms.rinr.find? (·.1 == a')) →
          (∀ k, k ∈ lookupSnap ms'.doomedAt s.calls.length → k ∈ ms.doomed) →
          (∀ b, op = .waitExited b → (ms'.rinr.find? (·.1 == s.calls.length)).map (·.2) = some b) →
          WLink { s with calls := s.calls ++ [({ op := op } : Call)] } ms' := by
        intro ms' e1 e2 e3 e4 e5 e6 e7
        refine ⟨?_, hl.ne, ?_, ?_, ?_, ?_, ?_, ?_, ?_, ?_, ?_⟩
        · intro k n x h1 h2 h3; rw [e1]; exact hl.ot k n x h1 h2 h3
        · intro k hk; rw [e2] at hk; exact hl.dm k hk
        · intro q x h1 h2 h3
          rcases hl.ow q x h1 h2 h3 with g | ⟨k, n, y, g1, g2, g3, g4, g5⟩
          · exact Or.inl g
          · exact Or.inr ⟨k, n, y, g1, g2, g3, g4, by rw [e2]; exact g5⟩
        · intro b cb r0 hcb hd hsup k hk
          by_cases hb : b = s.calls.length
          · subst hb; rw [hget] at hcb; cases hcb; cases hd
          · rw [e4, lookupSnap_cons_ne (Ne.symm hb)] at hk
            exact hl.sc b cb r0 (hold b cb hcb hb) hd hsup k hk
        · intro a' cb e hcb hd
          by_cases hb : a' = s.calls.length
          · subst hb; rw [hget] at hcb; cases hcb; cases hd
          · obtain ⟨q1, q2⟩ := e5 a' hb
            rcases hl.wr a' cb e (hold a' cb hcb hb) hd with g | ⟨g1, g2⟩ | ⟨k, g1, g2⟩ | ⟨e', g1, g2⟩
            · exact Or.inl g
            · exact Or.inr (Or.inl ⟨g1, by rw [q2]; exact g2⟩)
            · exact Or.inr (Or.inr (Or.inl ⟨k, by rw [e1]; exact g1, by rw [q1]; exact g2⟩))
            · exact Or.inr (Or.inr (Or.inr ⟨e', g1, by rw [e3]; exact g2⟩))
        · intro a' e' hm; rw [e3]; exact hl.we a' e' hm
        · intro a' cb b hcb hopb
          by_cases hb : a' = s.calls.length
          · subst hb; rw [hget] at hcb; cases hcb; exact e7 b hopb
          · rw [(e5 a' hb).2]; exact hl.rl a' cb b (hold a' cb hcb hb) hopb
        · intro a' k hk
          rw [e2]
          by_cases hb : a' = s.calls.length
          · subst hb; exact e6 k hk
          · rw [(e5 a' hb).1] at hk; exact hl.ds a' k hk
        · intro k hk; rw [e2] at hk; exact hl.db k hk
        · intro b k hk
          rw [e4] at hk
          by_cases hb : s.calls.length = b
          · subst hb; rw [lookupSnap_cons_self] at hk; exact hrunk k hk
          · rw [lookupSnap_cons_ne hb] at hk; exact hl.sb b k hk
      cases op with
      | waitExited b =>
        refine ⟨{ ms with snaps := (s.calls.length, ms.running) :: ms.snaps, doomedAt := (s.calls.length, ms.doomed) :: ms.doomedAt, rinr := (s.calls.length, b) :: ms.rinr }, rfl, ?_⟩
        refine hcore _ rfl rfl rfl rfl ?_ ?_ ?_
        · intro a' hne
          exact ⟨lookupSnap_cons_ne (Ne.symm hne), by simp [List.find?_cons, Ne.symm hne]⟩
        · intro k hk; rw [lookupSnap_cons_self] at hk; exact hk
        · intro b' hb'; cases hb'; simp [List.find?_cons]
      | setContext c0 b0 =>
        exact ⟨{ ms with snaps := (s.calls.length, ms.running) :: ms.snaps }, rfl,
          hcore _ rfl rfl rfl rfl (fun _ _ => ⟨rfl, rfl⟩) (fun k hk => hl.ds _ k hk) (fun b h => by cases h)⟩
      | setRoutine f0 =>
        exact ⟨{ ms with snaps := (s.calls.length, ms.running) :: ms.snaps }, rfl,
          hcore _ rfl rfl rfl rfl (fun _ _ => ⟨rfl, rfl⟩) (fun k hk => hl.ds _ k hk) (fun b h => by cases h)⟩
      | restart =>
        exact ⟨{ ms with snaps := (s.calls.length, ms.running) :: ms.snaps }, rfl,
          hcore _ rfl rfl rfl rfl (fun _ _ => ⟨rfl, rfl⟩) (fun k hk => hl.ds _ k hk) (fun b h => by cases h)⟩
      | setState v0 =>
        exact ⟨{ ms with snaps := (s.calls.length, ms.running) :: ms.snaps }, rfl,
          hcore _ rfl rfl rfl rfl (fun _ _ => ⟨rfl, rfl⟩) (fun k hk => hl.ds _ k hk) (fun b h => by cases h)⟩
      | setStateRoutine f0 =>
        exact ⟨{ ms with snaps := (s.calls.length, ms.running) :: ms.snaps }, rfl,
          hcore _ rfl rfl rfl rfl (fun _ _ => ⟨rfl, rfl⟩) (fun k hk => hl.ds _ k hk) (fun b h => by cases h)⟩
      | swap k0 =>
        exact ⟨{ ms with snaps := (s.calls.length, ms.running) :: ms.snaps }, rfl,
          hcore _ rfl rfl rfl rfl (fun _ _ => ⟨rfl, rfl⟩) (fun k hk => hl.ds _ k hk) (fun b h => by cases h)⟩
      | getState =>
        exact ⟨{ ms with snaps := (s.calls.length, ms.running) :: ms.snaps }, rfl,
          hcore _ rfl rfl rfl rfl (fun _ _ => ⟨rfl, rfl⟩) (fun k hk => hl.ds _ k hk) (fun b h => by cases h)⟩
    · cases hs
  | cbin k m f arg root =>
    simp only [step, stepI] at hs
    split at hs
    · rename_i x hx
      split at hs
      · split at hs
        · rename_i r0 hr0 hgd
          simp at hs; subst hs
          obtain ⟨hw, _, _, hk, _, _, _⟩ := hgd
          subst hk
          have hentold : ∀ (k1 n : Nat), s.ent[k1]? = some n → (s.ent ++ [m])[k1]? = some n := by
            intro k1 n h; rw [List.getElem?_append_left (get_lt h)]; exact h
          have hentnew : ∀ (k1 n : Nat), (s.ent ++ [m])[k1]? = some n → k1 < s.ent.length → s.ent[k1]? = some n := by
            intro k1 n h hl1; rw [List.getElem?_append_left hl1] at h; exact h
          have hinst : ∀ (n : Nat) (z : Inst), (setInst s m { x with st := .running }).insts[n]? = some z →
              (z.st = .returned ∨ z.st = .closed) → s.insts[n]? = some z := by
            intro n z hz hst
            by_cases hmn : m = n
            · subst hmn
              have : z = { x with st := .running } := by simpa [setInst, get_lt hx] using hz.symm
              subst this; rcases hst with h | h <;> cases h
            · simpa [setInst, List.getElem?_set, hmn] using hz
          have hcf : ∀ T : St, T.routine = s.routine → T.recs = s.recs → curInst T = curInst s :=
            fun T h1 h2 => curInst_frame h1 h2
          refine ⟨{ ms with running := ms.running ++ [s.ent.length] }, rfl, ?_⟩
          refine ⟨?_, ?_, ?_, ?_, ?_, hl.wr, hl.we, hl.rl, hl.ds, ?_, ?_⟩
          · intro k1 n z h1 h2 h3
            have hz := hinst n z h2 h3
            by_cases hl1 : k1 < s.ent.length
            · exact hl.ot k1 n z (hentnew k1 n h1 hl1) hz h3
            · have hk1 : k1 = s.ent.length := by
                have := get_lt h1
                simp at this; omega
              subst hk1
              simp at h1; subst h1
              rw [hx] at hz; cases hz
              rcases h3 with h | h <;> rw [hw] at h <;> cases h
          · intro n z h2 h3
            rcases hl.ne n z (hinst n z h2 h3) h3 with ⟨k1, hk1⟩ | e
            · exact Or.inl ⟨k1, hentold k1 n hk1⟩
            · exact Or.inr e
          · intro k1 hk1 n hn
            have hb1 := hl.db k1 hk1
            intro hcur
            exact hl.dm k1 hk1 n (hentnew k1 n hn hb1) (by rw [← hcur]; exact (curInst_frame rfl rfl).symm)
          · intro q y h1 h2 h3
            rcases hl.ow q y h1 h2 h3 with g | ⟨k1, n, z, g1, g2, g3, g4, g5⟩
            · exact Or.inl g
            · refine Or.inr ⟨k1, n, z, hentold k1 n g1, ?_, g3, g4, g5⟩
              have hmn : m ≠ n := by
                intro e0; subst e0; rw [hx] at g2; cases g2; rw [hw] at g3; cases g3
              simp [setInst, List.getElem?_set, hmn, g2]
          · intro b cb r1 hcb hd hsup k1 hk1 n hn
            have hb1 := hl.sb b k1 hk1
            intro hcur
            exact hl.sc b cb r1 hcb hd hsup k1 hk1 n (hentnew k1 n hn hb1) (by rw [← hcur]; exact (curInst_frame rfl rfl).symm)
          · intro k1 hk1; have := hl.db k1 hk1; simp; omega
          · intro b k1 hk1; have := hl.sb b k1 hk1; simp; omega
        · cases hs
      · cases hs
    · cases hs
  | cbout k o =>
    simp only [step, stepI] at hs
    split at hs
    · rename_i m hm
      split at hs
      · rename_i x hx
        split at hs
        · rename_i hrun
          simp at hs; subst hs
          have hcf : curInst (setInst s m { x with st := .returned, out := o }) = curInst s := curInst_frame rfl rfl
          have hinst : ∀ (n : Nat) (z : Inst), (setInst s m { x with st := .returned, out := o }).insts[n]? = some z →
              (n = m ∧ z = { x with st := .returned, out := o }) ∨ (n ≠ m ∧ s.insts[n]? = some z) := by
            intro n z hz
            by_cases hmn : m = n
            · subst hmn
              exact Or.inl ⟨rfl, by simpa [setInst, get_lt hx] using hz.symm⟩
            · exact Or.inr ⟨Ne.symm hmn, by simpa [setInst, List.getElem?_set, hmn] using hz⟩
          refine ⟨{ ms with running := ms.running.filter (· != k), outs := (k, o) :: ms.outs }, rfl, ?_⟩
          refine ⟨?_, ?_, ?_, ?_, ?_, ?_, hl.we, hl.rl, hl.ds, hl.db, hl.sb⟩
          · intro k1 n z h1 h2 h3
            rcases hinst n z h2 with ⟨e1, e2⟩ | ⟨_, e2⟩
            · subst e1; subst e2
              have := hA.l4 k1 k n h1 hm
              subst this
              exact List.mem_cons_self
            · exact List.mem_cons_of_mem _ (hl.ot k1 n z h1 e2 h3)
          · intro n z h2 h3
            rcases hinst n z h2 with ⟨e1, _⟩ | ⟨_, e2⟩
            · subst e1; exact Or.inl ⟨k, hm⟩
            · exact hl.ne n z e2 h3
          · intro k1 hk1 n hn; rw [hcf]; exact hl.dm k1 hk1 n hn
          · intro q y h1 h2 h3
            rcases hl.ow q y h1 h2 h3 with g | ⟨k1, n, z, g1, g2, g3, g4, g5⟩
            · exact Or.inl g
            · refine Or.inr ⟨k1, n, z, g1, ?_, g3, g4, g5⟩
              have hmn : m ≠ n := by
                intro e0; subst e0; rw [hx] at g2; cases g2; rw [hrun] at g3; cases g3
              simp [setInst, List.getElem?_set, hmn, g2]
          · intro b cb r1 hcb hd hsup k1 hk1 n hn; rw [hcf]; exact hl.sc b cb r1 hcb hd hsup k1 hk1 n hn
          · intro a' cb e hcb hd
            rcases hl.wr a' cb e hcb hd with g | g | ⟨k1, g1, g2⟩ | g
            · exact Or.inl g
            · exact Or.inr (Or.inl g)
            · exact Or.inr (Or.inr (Or.inl ⟨k1, List.mem_cons_of_mem _ g1, g2⟩))
            · exact Or.inr (Or.inr (Or.inr g))
        · cases hs
      · cases hs
    · cases hs
  | ret a r =>
    have hshape : ∃ c : Call, s.calls[a]? = some c ∧ (c.st = .done r ∨ (c.st = .wcancel ∧ wxOK s a r = true)) ∧
        s' = setCall s a { c with st := .finished } := by
      simp only [step, stepI] at hs
      split at hs
      · rename_i c hc0
        split at hs
        · rename_i h; simp at hs; exact ⟨c, hc0, Or.inl h, hs.symm⟩
        · split at hs
          · rename_i h; simp at hs; exact ⟨c, hc0, Or.inr h, hs.symm⟩
          · cases hs
      · cases hs
    obtain ⟨c, hc0, hst, hs'⟩ := hshape
    subst hs'
    have hx := callsExcept_setCall (WrSame.refl s) a { c with st := .finished }
    have hget := setCall_get (S := s) a { c with st := .finished } (get_lt hc0)
    have hl' : WLink (setCall s a { c with st := .finished }) ms := by
      refine hl.keep hA (wframe_same hs0 rfl rfl rfl rfl) a hx ?_ ?_ ?_
      · intro c' r0 h hd; rw [hget] at h; cases h; cases hd
      · intro c' e h hd; rw [hget] at h; cases h; cases hd
      · intro c' b h hop; rw [hget] at h; cases h; exact hl.rl a c b hc0 hop
    have hwx : ∀ e, r = .wx e → ∃ ms', monC14w.step ms (.ret a r) = some ms' ∧
        WLink (setCall s a { c with st := .finished }) ms' := by
      intro e he; subst he
      refine ⟨ms, wok_check ?_, hl'⟩
      rcases hst with h | ⟨_, h⟩
      · exact hl.wr a c e hc0 h
      · cases e with
        | none => simp [wxOK] at h
        | some e' =>
          simp only [wxOK, Bool.or_eq_true, Bool.and_eq_true, beq_iff_eq] at h
          rcases h with ⟨h1, _⟩ | h
          · subst h1; exact Or.inl rfl
          · exact Or.inr (Or.inr (Or.inr ⟨e', rfl, hl.we a e' (by simpa using h)⟩))
    have hnw : (∀ e, r ≠ .wx e) → WLink (setCall s a { c with st := .finished })
        { ms with doomed := if r.sup then ((lookupSnap ms.snaps a).filter fun k => ms.running.contains k) ++ ms.doomed
                            else ms.doomed } := by
      intro hne
      have hdone : c.st = .done r := by
        rcases hst with h | ⟨_, h⟩
        · exact h
        · obtain ⟨e, he⟩ := wxOK_wx h; exact absurd he (hne e)
      cases hsup : r.sup with
      | false => simpa using hl'
      | true =>
        simp only [if_true]
        have hstill : ∀ k, k ∈ ((lookupSnap ms.snaps a).filter fun k => ms.running.contains k) →
            k ∈ lookupSnap ms.snaps a ∧ k ∈ msA.running := by
          intro k hk
          simp only [List.mem_filter, List.contains_iff_mem] at hk
          exact ⟨hk.1, by rw [← hr]; exact hk.2⟩
        refine ⟨hl'.ot, hl'.ne, ?_, ?_, hl'.sc, hl'.wr, hl'.we, hl'.rl, ?_, ?_, hl'.sb⟩
        · intro k hk n hn
          simp only [List.mem_append] at hk
          rcases hk with hk | hk
          · intro hcur
            exact hl.sc a c r hc0 hdone hsup k (hstill k hk).1 n hn (by rw [← hcur]; exact (curInst_frame rfl rfl).symm)
          · exact hl'.dm k hk n hn
        · intro q y h1 h2 h3
          rcases hl'.ow q y h1 h2 h3 with g | ⟨k, n, z, g1, g2, g3, g4, g5⟩
          · exact Or.inl g
          · refine Or.inr ⟨k, n, z, g1, g2, g3, g4, ?_⟩
            intro hk
            simp only [List.mem_append] at hk
            rcases hk with hk | hk
            · obtain ⟨n', x', q1, q2, q3⟩ := (hA.l1 k).1 (hstill k hk).2
              rw [show (setCall s a { c with st := .finished }).ent = s.ent from rfl] at g1
              rw [q1] at g1; cases g1
              rw [show (setCall s a { c with st := .finished }).insts = s.insts from rfl, q2] at g2
              cases g2; rw [q3] at g3; cases g3
            · exact g5 hk
        · intro a' k hk; exact List.mem_append_right _ (hl'.ds a' k hk)
        · intro k hk
          simp only [List.mem_append] at hk
          rcases hk with hk | hk
          · exact hl'.sb a k (hstill k hk).1
          · exact hl'.db k hk
    cases r with
    | wx e => exact hwx e rfl
    | bool b => exact ⟨_, rfl, hnw (by intro e h; cases h)⟩
    | setR x1 x2 => exact ⟨_, rfl, hnw (by intro e h; cases h)⟩
    | setSR x1 x2 x3 => exact ⟨_, rfl, hnw (by intro e h; cases h)⟩
    | setS x1 x2 x3 x4 => exact ⟨_, rfl, hnw (by intro e h; cases h)⟩
    | swapR x1 x2 x3 x4 x5 => exact ⟨_, rfl, hnw (by intro e h; cases h)⟩
    | state v => exact ⟨_, rfl, hnw (by intro e h; cases h)⟩
  | record n dur =>
    simp only [step, stepI] at hs
    split at hs
    · rename_i cf x hcf hx
      split at hs
      · rename_i hgd
        have hok := recordCS_ok s s' cf n x dur hx hgd.1 hs
        have hins := recordCS_insts s s' cf n x dur hs
        have hf0 : WFrame0 s s' := wframe0_of_ext hs0 hok.1.1 (by rw [hins]; simp)
          (recordCS_ent s s' cf n x dur hs) (recordCS_werr s s' cf n x dur hs)
        have hw := wrSame_recordCS s s' cf n x dur hs
        have hnone : s'.calls[s.calls.length]? = none := by rw [← hw.len]; simp
        have hrt : s'.routine = s.routine := (faeq_recordCS s s' cf n x dur hs).rt
        refine hl.keepR hA hf0 ?_ s.calls.length (callsExcept_of_wrSame hw _)
          (by intro c' r h; rw [hnone] at h; cases h) (by intro c' e h; rw [hnone] at h; cases h)
          (by intro c' b h; rw [hnone] at h; cases h)
        intro q y' hq hy' hex
        rw [hrt] at hq
        have hold : ∀ y, s.recs[q]? = some y → y.exited = true → y.err = y'.err → y'.err = some 0 ∨
            ∃ (k m : Nat) (z : Inst), s'.ent[k]? = some m ∧ s'.insts[m]? = some z ∧ z.st = .closed ∧ z.out = y'.err ∧
              k ∉ ms.doomed := by
          intro y hy he herr
          rcases hl.ow q y hq hy he with g | ⟨k, m, z, g1, g2, g3, g4, g5⟩
          · exact Or.inl (by rw [← herr]; exact g)
          · obtain ⟨z', q1, q2, q3, _⟩ := hf0.fw m z g2 (Or.inr g3)
            exact Or.inr ⟨k, m, z', by rw [hf0.ent]; exact g1, q1, q3 g3, by rw [q2, g4, herr], g5⟩
        rcases recordCS_recs s s' cf n x dur hs with hsame | ⟨r, hr0, hrc, y, hset, herr, _⟩
        · rw [hsame] at hy'; exact hold y' hy' hex rfl
        · by_cases hqr : x.rid = q
          · subst hqr
            have : y' = y := by
              rw [hset] at hy'; simpa [get_lt hr0] using hy'.symm
            subst this
            rcases hl.ne n x hx (Or.inr hgd.1) with ⟨k, hk⟩ | e
            · have hcur : curInst s = some n := by rw [(curInst_of hq hr0).1]; exact hrc
              refine Or.inr ⟨k, n, { x with recorded := true }, by rw [hf0.ent]; exact hk,
                by rw [hins]; simp [get_lt hx], hgd.1, herr.symm, ?_⟩
              intro hkd; exact hl.dm k hkd n hk hcur
            · exact Or.inl (by rw [herr]; exact e)
          · have hy0 : s.recs[q]? = some y' := by
              rw [hset] at hy'; simpa [List.getElem?_set, hqr] using hy'
            exact hold y' hy0 hex rfl
      · cases hs
    · cases hs

theorem ite_some_w {α : Type} {c : Bool} {x y : α} (h : (if c = true then some x else none) = some y) :
    c = true ∧ x = y := by
  cases c with
  | true => simpa using h
  | false => simp at h

theorem monC14w_running (ms ms' : C14wSt) (o : Obs) (h : monC14w.step ms o = some ms') :
    ms'.running = (match o with
      | .cbin k _ _ _ => ms.running ++ [k]
      | .cbout k _ => ms.running.filter (· != k)
      | _ => ms.running) := by
  cases o with
  | ret a r =>
    cases r with
    | wx e =>
      simp only [monC14w] at h
      cases e with
      | none =>
        obtain ⟨_, h2⟩ := ite_some_w h; subst h2; rfl
      | some v =>
        cases v with
        | zero => simp only [Option.some.injEq] at h; subst h; rfl
        | succ w => obtain ⟨_, h2⟩ := ite_some_w h; subst h2; rfl
    | _ => simp only [monC14w, Option.some.injEq] at h; subst h; rfl
  | inv a op =>
    cases op <;> (simp only [monC14w, Option.some.injEq] at h; subst h; rfl)
  | _ => simp only [monC14w, Option.some.injEq] at h; subst h; rfl

theorem wl_run (s0 s : St) (es : List Ev) (hg : Good s0) (ms0 : C14wSt) (hl : WLink s0 ms0)
    (msA : C04St) (hA : LinkA s0 msA) (hr0 : ms0.running = msA.running) (hr : model.run s0 es = some s) :
    ∃ ms, monC14w.run ms0 (es.filterMap model.obs) = some ms ∧ WLink s ms := by
  induction es generalizing s0 ms0 msA with
  | nil => simp [OLTS.run] at hr; subst hr; exact ⟨ms0, rfl, hl⟩
  | cons e es ih =>
    simp only [OLTS.run] at hr
    cases hst : model.step s0 e with
    | none => simp [hst] at hr
    | some s1 =>
      simp [hst] at hr
      have hk := step_ok s0 s1 e hg.recs hst
      have hg1 : Good s1 := ⟨hk.1, hk.2.inv hg.chain⟩
      have hA1 := link_step s0 s1 e msA hA hg.recs hst hg1
      have hstep := wl_step s0 s1 e ms0 msA hl hA hr0 hg hst
      cases hob : Ev.obs e with
      | none =>
        rw [hob] at hA1 hstep
        obtain ⟨ms, h1, h2⟩ := ih s1 hg1 ms0 hstep msA hA1 hr0 hr
        refine ⟨ms, ?_, h2⟩
        have : model.obs e = none := hob
        simpa [List.filterMap_cons, this] using h1
      | some o =>
        rw [hob] at hA1 hstep
        obtain ⟨msA', hmA, hA'⟩ := hA1
        obtain ⟨ms1, hm1, hl1⟩ := hstep
        have hr1 : ms1.running = msA'.running := by
          have h1 := monC14w_running ms0 ms1 o hm1
          cases o with
          | cbin k f arg root =>
            simp only [monC04a] at hmA
            split at hmA
            · rename_i hemp
              simp only [Option.some.injEq] at hmA; subst hmA
              have : msA.running = [] := by simpa using hemp
              rw [h1, hr0, this]; rfl
            · cases hmA
          | cbout k e0 =>
            simp only [monC04a, Option.some.injEq] at hmA; subst hmA
            rw [h1, hr0]
          | _ =>
            simp only [monC04a, Option.some.injEq] at hmA; subst hmA
            rw [h1]; exact hr0
        obtain ⟨ms, h1, h2⟩ := ih s1 hg1 ms1 hl1 msA' hA' hr1 hr
        refine ⟨ms, ?_, h2⟩
        have : model.obs e = some o := hob
        simp [List.filterMap_cons, this, ObsMonitor.run, hm1, h1]

end UtilModel.Routine
