import UtilModel.Routine.Proofs
import UtilModel.Routine.ProofsC05
import UtilModel.Routine.ProofsC14
import UtilModel.Routine.ProofsK4
import UtilModel.Routine.ProofsObs
import UtilModel.Routine.ProofsObs2
import UtilModel.Routine.ProofsObs3
import UtilModel.Routine.ProofsObs4
import UtilModel.Routine.ProofsObs5
import UtilModel.Routine.ProofsObs6
import UtilModel.Routine.ProofsObs7
import UtilModel.Routine.ProofsObs8
import UtilModel.Routine.ProofsObs9
import UtilModel.Routine.ProofsObs10
import UtilModel.Routine.ProofsObs11
import UtilModel.Routine.ProofsAsm
import UtilModel.Routine.ProofsRT
import UtilModel.Routine.Monitors
import UtilModel.Routine.Backoff
/-!
# routine: property theorems (C04, C05, C14)

Statements only; the invariants are in `Proofs.lean`. All theorems quantify over every event list of the model
(`model.run model.init es = some s`): every number of API calls, callers, instances, every interleaving of
critical sections, instance steps, timer firings and environment actions.
-/
namespace UtilModel.Routine
open UtilModel

/-! ## C04 — at most one instance executes -/

/-- **C04, first sentence** (`one_running`): in every reachable state at most one instance is between entry
(`cbin`) and return (`cbout`) of the managed function — for every event list: any number of supersessions inside
an exit latency, clearing and setting the routine again (the container keeps the cleared routine's exit channel,
fix 3b21148), set/clear-context, restarts, retries, any number of callers, any interleaving. -/
theorem one_running (es : List Ev) (s : St) (hr : model.run model.init es = some s)
    (i j : Nat) (x y : Inst) (hx : s.insts[i]? = some x) (hy : s.insts[j]? = some y)
    (rx : x.st = .running) (ry : y.st = .running) : i = j := by
  have hg := good_run model.init s es good_init hr
  exact Chain.one_running (proj s) hg.chain i j (pI x) (pI y) (proj_get s i x hx) (proj_get s j y hy)
    (by simp [pI, pst, rx]) (by simp [pI, pst, ry])

/-- the statement of the property as a closed proposition -/
def C04_full : Prop :=
  ∀ (es : List Ev) (s : St), model.run model.init es = some s →
    ∀ (i j : Nat) (x y : Inst), s.insts[i]? = some x → s.insts[j]? = some y →
      x.st = .running → y.st = .running → i = j

theorem C04_full_holds : C04_full := fun es s hr i j x y hx hy rx ry => one_running es s hr i j x y hx hy rx ry

/-- **C04, observable form of the first clause** (`C04a_obs`): the overlap monitor — "no entry of the managed
function while another instance has entered and not returned" — accepts the observable trace of every run of the
model. The same clause is part of `monC04`, which the driver evaluates on histories recorded from the real code. -/
theorem C04a_obs (es : List Ev) (s : St) (hr : model.run model.init es = some s) :
    monC04a.accepts (es.filterMap model.obs) = true := by
  obtain ⟨ms, h, _⟩ := link_run model.init s {} es good_init linkA_init hr
  have : monC04a.run monC04a.init (es.filterMap model.obs) = some ms := h
  simp [ObsMonitor.accepts, this]

/-- **C04, observable form, both clauses** (`C04_obs`): the property monitor `monC04` — no two instances execute
together, and a wait channel returned by SetRoutine/SetState/SetStateRoutine/SwapValue is seen closed only after
every instance that was executing when the call was invoked has logged its return — accepts the observable trace of
every run of the model. The same monitor is evaluated by the driver on histories recorded from the real code. -/
theorem C04_obs (es : List Ev) (s : St) (hr : model.run model.init es = some s) :
    monC04.accepts (es.filterMap model.obs) = true := by
  obtain ⟨ms, h, _⟩ := linkB_run model.init s {} es good_init linkB_init hr
  have : monC04.run monC04.init (es.filterMap model.obs) = some ms := h
  simp [ObsMonitor.accepts, this]

/-- the chain invariant itself (eight clauses of `Core/Chain`) holds in every reachable state -/
theorem chain_inv (es : List Ev) (s : St) (hr : model.run model.init es = some s) : Chain.Inv (proj s) :=
  (good_run model.init s es good_init hr).chain

/-- the critical section of call `a`, run in state `s`, returns the exit channel of instance `p` as the
`waitReturn` channel of SetRoutine / SetState / SetStateRoutine / SwapValue -/
def csReturnsCh (s : St) (a p : Nat) : Prop :=
  ∃ cf c r, s.cfg = some cf ∧ s.calls[a]? = some c ∧ apiCS s cf c.op = some r ∧ r.2.2 = some p

/-- **C04, second sentence** (`waitReturn_after_all`): if the critical section of call `a` ran in state `s1` and
handed out the exit channel of instance `p` as its wait channel, then in every later state in which that channel
is closed, every instance that existed when the call was made has exited (is past `close(exitedCh)`, hence has
returned). -/
theorem waitReturn_after_all (es1 es2 : List Ev) (a : Nat) (s1 s2 s3 : St) (p : Nat)
    (h1 : model.run model.init es1 = some s1) (h2 : model.step s1 (.cs a) = some s2)
    (h3 : model.run s2 es2 = some s3)
    (hwr : csReturnsCh s1 a p) (hcl : instClosed s3 p = true) :
    ∀ j, j < s1.insts.length → instClosed s3 j = true := by
  have g1 := good_run model.init s1 es1 good_init h1
  have hk := step_ok s1 s2 (.cs a) g1.recs h2
  have g2 : Good s2 := ⟨hk.1, hk.2.inv g1.chain⟩
  have g3 := good_run s2 s3 es2 g2 h3
  obtain ⟨cf, c, r, _, _, hr, hp⟩ := hwr
  have hlast : lastOf s1 = some p := apiCS_wr s1 cf c.op r hr p hp
  intro j hj
  rcases Nat.lt_or_ge p j with hpj | hpj
  · -- above `last`: already exited when the call was made
    have : Chain.isClosed (proj s1) j = true :=
      g1.chain.topSome p (by simp [proj, hlast]) j hpj (by simpa [proj] using hj)
    rw [isClosed_proj] at this
    have c2 := steps_closed_mono hk.2 j (by rw [isClosed_proj]; exact this)
    rw [isClosed_proj] at c2
    exact closed_run s2 s3 es2 g2.recs h3 j c2
  · rcases Nat.lt_or_ge j p with hlt | hge
    · have := g3.chain.down p (by rw [isClosed_proj]; exact hcl) j hlt
      rw [isClosed_proj] at this; exact this
    · have : j = p := by omega
      subst this; exact hcl

/-- a non-trivial run: the routine is cleared and set again inside the exit latency of instance 0 (the former D16
pattern): instance 1 cannot enter before instance 0 has exited -/
example :
    (model.run model.init
      [.cfg {}, .inv 0 (.setContext 1 false), .cs 0, .inv 1 (.setRoutine 1), .cs 1, .cbin 0 0 1 0 1,
       .inv 2 (.setRoutine 0), .cs 2, .inv 3 (.setRoutine 2), .cs 3]).bind
      (fun s => model.step s (.cbin 1 1 2 0 1)) = none := by
  decide

/-! ## C05 — superseded instances are cancelled; the survivor is current -/

/-- **C05, first sentence** (`superseded_cancelled`): in every reachable state — in particular right after the
critical section of any SetRoutine / SetState / RestartRoutine / SetContext / ClearContext, whatever other calls
run concurrently — every instance that is not the current instance of the container's current record has a
cancelled context. -/
theorem superseded_cancelled (es : List Ev) (s : St) (hr : model.run model.init es = some s)
    (n : Nat) (x : Inst) (hx : s.insts[n]? = some x) (hne : curInst s ≠ some n) :
    s.isCancelled x = true :=
  (cur_run model.init s es cur_init good_init.recs hr).1.sc n x hx hne

/-- **C05, first sentence, observable form** (`C05a_obs`): the monitor clause "once SetRoutine / SetState /
SetStateRoutine / SwapValue (changed) / RestartRoutine (true) / SetContext (true) — or ClearContext, whatever it
reports — has returned, no instance that was executing when the call was invoked is seen with a live context"
accepts the observable trace of every run of the model, with any number of concurrent callers. The clause is part of
`monC05`, which the driver evaluates on histories recorded from the real code. -/
theorem C05a_obs (es : List Ev) (s : St) (hr : model.run model.init es = some s) :
    monC05a.accepts (es.filterMap model.obs) = true := by
  obtain ⟨ms, h, _⟩ := doom_run model.init s {} es good_init.recs cur_init i1_init doomLink_init hr
  have : monC05a.run monC05a.init (es.filterMap model.obs) = some ms := h
  simp [ObsMonitor.accepts, this]

/-- **C05, uniqueness at quiescence, observable form** (`C05b_obs`): at every quiescence line the list of executing
instances with a live context has at most one element — for every run of the model. -/
theorem C05b_obs (es : List Ev) (s : St) (hr : model.run model.init es = some s) :
    monC05b.accepts (es.filterMap model.obs) = true := by
  have := c05b_run model.init s es good_init cur_init {} linkA_init hr
  simp [ObsMonitor.accepts, show monC05b.init = () from rfl, this]

/-- **C05, context lineage, observable form** (`C05c_obs`): the monitor clause "an instance seen with a live context
derives from a context that is possibly the container's current one" — a context given to a SetContext call that is
in flight, or that has returned and is not known to be overwritten by a SetContext call invoked after its return
(the monitor's `Reg` bookkeeping: the candidates for "latest" under every linearization of the concurrent calls) —
accepts the observable trace of every run of the model, with any number of concurrent callers. Rests on the
last-writer lemma (`ProofsReg.lean`, `RegOK.*`) and on `step_ctx` (only SetContext writes the container's context).
The clause is part of `monC05`. -/
theorem C05c_obs (es : List Ev) (s : St) (hr : model.run model.init es = some s) :
    monC05c.accepts (es.filterMap model.obs) = true := by
  obtain ⟨ms, h, _⟩ := ctx_run model.init s {} es good_init.recs cur_init i1_init ctxLink_init hr
  have : monC05c.run monC05c.init (es.filterMap model.obs) = some ms := h
  simp [ObsMonitor.accepts, this]

/-- **C05, lineage clauses, observable form** (`C05l_obs`): the monitor clauses "an instance seen with a live context
stems from a possibly-current context, a possibly-current routine function and — for a StateRoutineContainer — a
possibly-current, non-empty stored state" and "at a quiescence line at most one executing instance has a live
context, and it stems from a possibly-current context that the environment has not cancelled, a possibly-current
function and a non-empty state" accept the observable trace of every run of the model, with any number
of concurrent callers. "Possibly current" is the monitor's `Reg` bookkeeping for each of the three registers: the
value was given to a call that is in flight, or to a call that has returned and is not known to be overwritten by
a call invoked after its return (SetState / SwapValue count only if they report a change). Rests on the last-writer
lemma (`ProofsReg.lean`), `step_ctx` / `step_faeq` (who writes the three registers), `live_current` (a live
instance is the current instance of the current record, under the container's context) and `K4` (in state mode the
current record is the closure over the stored state and function); at a quiescence point every announced
cancellation of a root context has been performed (`quiescent_pcancel`). These are the second probe clause and the
quiescence clause of `monC05`, except for the comparison with the last GetState result. -/
theorem C05l_obs (es : List Ev) (s : St) (hr : model.run model.init es = some s) :
    monC05l.accepts (es.filterMap model.obs) = true := by
  obtain ⟨ms, h, _⟩ := lin_run model.init s {} es good_init cur_init i1_init k4_init linLink_init {} linkA_init hr
  have : monC05l.run monC05l.init (es.filterMap model.obs) = some ms := h
  simp [ObsMonitor.accepts, this]

/-- **C05, stored state at quiescence, observable form** (`C05g_obs`): for a StateRoutineContainer, the single
executing instance with a live context at a quiescence line was given the state that GetState returned — provided
that GetState call overlapped no SetState / SwapValue call and none has been invoked since (otherwise the monitor
holds no value to compare with). Holds for every run of the model. Rests on `step_sval` (only the critical sections
of SetState / SwapValue write the stored state) and `K4`. -/
theorem C05g_obs (es : List Ev) (s : St) (hr : model.run model.init es = some s) :
    monC05g.accepts (es.filterMap model.obs) = true := by
  obtain ⟨ms, h, _⟩ := glink_run model.init s {} es good_init.recs cur_init i1_init k4_init glink_init hr
  have : monC05g.run monC05g.init (es.filterMap model.obs) = some ms := h
  simp [ObsMonitor.accepts, this]

/-- **C05, observable form** (`C05_obs`): monitor C05 — the monitor the driver evaluates on every history recorded
from the real code — accepts the observable trace of **every** run of the model, with any number of concurrent
callers: superseded instances are never seen live once the superseding call has returned (`C05a_obs`); an
instance seen live stems from a possibly-current context, routine and stored state, and at quiescence at most one
executing instance is live, from an uncancelled possibly-current context (`C05l_obs`), carrying the state an
undisturbed GetState returned (`C05g_obs`); `monC05_of_clauses`: the monitor is the conjunction of these clause
monitors. Together with `accepts_sound` (a history the checker accepts is a trace of the model) this gives: a
history that the correspondence check accepts and monitor C05 rejects cannot exist — a C05 alarm always comes with
a correspondence failure or is a genuine deviation of the implementation from the model. -/
theorem C05_obs (es : List Ev) (s : St) (hr : model.run model.init es = some s) :
    monC05.accepts (es.filterMap model.obs) = true :=
  monC05_of_clauses _ (C05a_obs es s hr) (C05l_obs es s hr) (C05g_obs es s hr)

/-- an instance that has exited has a cancelled context -/
theorem exited_cancelled (es : List Ev) (s : St) (hr : model.run model.init es = some s)
    (n : Nat) (x : Inst) (hx : s.insts[n]? = some x) (hcl : x.st = .closed) : x.cancelled = true :=
  i1_run model.init s es i1_init good_init.recs hr n x hx hcl

/-- **C05, second sentence** (`quiescent_survivor`): in every reachable state (hence in every quiescent one) an
instance that has not exited (waiting, or executing the function, or returning) with a live context is the current instance of the container's current record — so there is at most one
(`survivor_unique`) — the container has a context, which is the one the instance derives from, and a routine, and
the instance was started for that record. -/
theorem quiescent_survivor (es : List Ev) (s : St) (hr : model.run model.init es = some s)
    (n : Nat) (x : Inst) (hx : s.insts[n]? = some x) (hnc : x.st ≠ .closed) (hlive : s.isCancelled x = false) :
    curInst s = some n ∧ x.root = s.ctx ∧ s.ctx ≠ 0 ∧
    ∃ r y, s.routine = some r ∧ s.recs[r]? = some y ∧ y.rctx = some n ∧ x.rid = r := by
  have hc := cur_run model.init s es cur_init good_init.recs hr
  have ha := allRec_run model.init s es good_init.recs hr
  have hcur : curInst s = some n := by
    cases h : decide (curInst s = some n) with
    | true => simpa using h
    | false =>
      have : curInst s ≠ some n := by simpa using h
      have := hc.1.sc n x hx this
      rw [this] at hlive; cases hlive
  have hk := hc.2 n x hcur hx hnc hlive
  refine ⟨hcur, hk.1, hk.2, ?_⟩
  cases hrt : s.routine with
  | none => simp [curInst, curRec, hrt] at hcur
  | some r =>
    cases hy : s.recs[r]? with
    | none => simp [curInst, curRec, hrt, hy] at hcur
    | some y =>
      have hrc : y.rctx = some n := by simpa [curInst, curRec, hrt, hy] using hcur
      obtain ⟨z, hz, hzr⟩ := (ha r y hy).k5 n hrc
      rw [hx] at hz; cases hz
      exact ⟨r, y, rfl, hy, hrc, hzr⟩

theorem survivor_unique (es : List Ev) (s : St) (hr : model.run model.init es = some s)
    (n m : Nat) (x y : Inst) (hx : s.insts[n]? = some x) (hy : s.insts[m]? = some y)
    (h1 : s.isCancelled x = false) (h2 : s.isCancelled y = false) : n = m := by
  -- (every instance with a live context — exited or not — is the current one: `superseded_cancelled`)
  have hc := cur_run model.init s es cur_init good_init.recs hr
  have a : curInst s = some n := by
    cases h : decide (curInst s = some n) with
    | true => simpa using h
    | false =>
      have : curInst s ≠ some n := by simpa using h
      have := hc.1.sc n x hx this
      rw [this] at h1; cases h1
  have b : curInst s = some m := by
    cases h : decide (curInst s = some m) with
    | true => simpa using h
    | false =>
      have : curInst s ≠ some m := by simpa using h
      have := hc.1.sc m y hy this
      rw [this] at h2; cases h2
  rw [a] at b; exact Option.some.inj b

/-- **C05, state variant** (`survivor_state`): for a StateRoutineContainer, an instance with a live context was
built from the most recently stored state and state function (its record is the closure over them), and both are
non-empty. -/
theorem survivor_state (es : List Ev) (s : St) (hr : model.run model.init es = some s)
    (cf : Cfg) (hcf : s.cfg = some cf) (hst : cf.state = true)
    (n : Nat) (x : Inst) (hx : s.insts[n]? = some x) (hnc : x.st ≠ .closed) (hlive : s.isCancelled x = false) :
    ∃ y, s.recs[x.rid]? = some y ∧ s.routine = some x.rid ∧ y.arg = s.sval ∧ y.fn = s.sfn ∧
      s.sval ≠ 0 ∧ s.sfn ≠ 0 := by
  obtain ⟨_, _, _, r, y, h1, h2, _, h4⟩ := quiescent_survivor es s hr n x hx hnc hlive
  have hk := (k4_run model.init s es k4_init hr).lnk cf hcf hst r y h1 h2
  subst h4
  exact ⟨y, h2, h1, hk.2.1, hk.1, hk.2.2.1, hk.2.2.2⟩

/-! ## C14 — exit status, restart rules, backoff -/

/-- which events can create a new instance while the same record stays current (core of both restart rules) -/
theorem rerun_only_by (s s' : St) (e : Ev) (r : Nat) (y : Rec)
    (hs : model.step s e = some s') (hr : s.routine = some r) (hy : s.recs[r]? = some y)
    (hnew : s.insts.length < s'.insts.length) (hr' : s'.routine = some r) :
    (∃ t, e = .timerCS t) ∨
    (∃ a c, e = .cs a ∧ s.calls[a]? = some c ∧
      (c.op = .restart ∨
       (∃ ctx rst, c.op = .setContext ctx rst ∧ y.success = false ∧ (rst = true ∨ y.err = none)))) :=
  rerun_cause s s' e r y hs hr hy hnew hr'

/-- **C14 `error_rerun_only_by`**: a record whose last run returned an error gets a new instance only in the
critical section of RestartRoutine, of SetContext with restart = true, or of the retry timer (setting a new
routine / state makes another record current). For every state, every event. -/
theorem error_rerun_only_by (s s' : St) (e : Ev) (r : Nat) (y : Rec)
    (hs : model.step s e = some s') (hr : s.routine = some r) (hy : s.recs[r]? = some y)
    (herr : y.err ≠ none)
    (hnew : s.insts.length < s'.insts.length) (hr' : s'.routine = some r) :
    (∃ t, e = .timerCS t) ∨
    (∃ a c, e = .cs a ∧ s.calls[a]? = some c ∧ (c.op = .restart ∨ ∃ ctx, c.op = .setContext ctx true)) := by
  rcases rerun_cause s s' e r y hs hr hy hnew hr' with h | ⟨a, c, h1, h2, h3⟩
  · exact Or.inl h
  · right
    refine ⟨a, c, h1, h2, ?_⟩
    rcases h3 with h3 | ⟨ctx, rst, h4, _, h6⟩
    · exact Or.inl h3
    · rcases h6 with h6 | h6
      · subst h6; exact Or.inr ⟨ctx, h4⟩
      · exact absurd h6 herr

/-- a retry timer's critical section creates an instance only if it is still the record's pending retry timer
(`r.deferRetry == retryTimer`, fix 6779104) -/
theorem timer_needs_link (s s' : St) (t : Nat) (hs : model.step s (.timerCS t) = some s')
    (hnew : s.insts.length < s'.insts.length) :
    ∃ tm x, s.timers[t]? = some tm ∧ s.recs[tm.rid]? = some x ∧ x.retry = some t := by
  simp only [model, step, stepI] at hs
  split at hs
  · rename_i tm htm
    split at hs
    · simp at hs; subst hs
      simp only [timerBody, bcastNow_insts] at hnew
      split at hnew
      · rename_i x hx
        split at hnew
        · rename_i hc
          simp only [Bool.and_eq_true] at hc
          exact ⟨tm, x, htm, hx, by simpa using hc.1.1.1⟩
        · simp at hnew
      · simp at hnew
    · cases hs
  · cases hs

/-- **C14 `success_not_rerun`**: a record whose last run returned nil gets a new instance only in the critical
section of RestartRoutine — never by SetContext (with or without restart), never by a retry timer (a timer that
fired before it was stopped finds it is no longer the pending one), never by instance steps, exits or callbacks.
For every reachable state and every event. -/
theorem success_not_rerun (es : List Ev) (s s' : St) (e : Ev) (r : Nat) (y : Rec)
    (hrun : model.run model.init es = some s)
    (hs : model.step s e = some s') (hr : s.routine = some r) (hy : s.recs[r]? = some y)
    (hsucc : y.success = true)
    (hnew : s.insts.length < s'.insts.length) (hr' : s'.routine = some r) :
    ∃ a c, e = .cs a ∧ s.calls[a]? = some c ∧ c.op = .restart := by
  have hq := allQ_run model.init s es allQ_init hrun
  rcases rerun_cause s s' e r y hs hr hy hnew hr' with ⟨t, ht⟩ | ⟨a, c, h1, h2, h3⟩
  · subst ht
    obtain ⟨tm, x, htm, hx, hlink⟩ := timer_needs_link s s' t hs hnew
    -- the timer's record is the current one, which has succeeded: it holds no retry timer
    have hrid : tm.rid = r := by
      simp only [model, step, stepI, htm] at hs
      split at hs
      · simp at hs; subst hs
        simp only [timerBody, bcastNow_insts, hx] at hnew
        split at hnew
        · rename_i hc
          simp only [Bool.and_eq_true] at hc
          have : s.routine = some tm.rid := by simpa using hc.1.2
          rw [hr] at this; exact (Option.some.inj this).symm
        · simp at hnew
      · cases hs
    subst hrid
    rw [hy] at hx; cases hx
    have := (hq tm.rid y hy).q1 hsucc
    rw [this] at hlink; cases hlink
  · refine ⟨a, c, h1, h2, ?_⟩
    rcases h3 with h3 | ⟨_, _, _, h5, _⟩
    · exact h3
    · rw [hsucc] at h5; cases h5

/-- **C14 `retry_armed` / backoff**: the final critical section of an instance that is current for its record
and for the container, with a backoff configured: a success calls `Reset()`; an error calls `NextBackOff()`, and
unless that says Stop a retry timer for this record is armed and linked to the record. -/
theorem retry_armed (s s' : St) (cf : Cfg) (n : Nat) (x : Inst) (r : Rec) (dur : Bool)
    (hs : model.step s (.record n dur) = some s') (hcf : s.cfg = some cf) (hx : s.insts[n]? = some x)
    (hr : s.recs[x.rid]? = some r) (hrc : r.rctx = some n) (hcur : s.routine = some x.rid)
    (hret : cf.retry = true) :
    (x.out = none → s'.lockq.head? = some (.bo .reset)) ∧
    (x.out ≠ none → s'.lockq.head? = some (.bo (if dur then .dur else .stop))) ∧
    (dur = true → ∃ t tm, (s'.recs[x.rid]?).bind (·.retry) = some t ∧ s'.timers[t]? = some tm ∧
        tm.st = .armed ∧ tm.rid = x.rid) := by
  simp only [model, step, stepI, hcf, hx] at hs
  split at hs
  · simp only [recordCS, hr, hrc, if_true, hcur, hret] at hs
    split at hs
    · cases hs
    · simp only [Option.some.injEq] at hs; subst hs
      have hrlt := get_lt hr
      refine ⟨?_, ?_, ?_⟩
      · intro ho; simp [boLines, hret, ho, St.bcastNow]
      · intro ho
        have : x.out.isNone = false := by cases h : x.out with
          | none => exact absurd h ho
          | some _ => rfl
        simp [boLines, hret, this, St.bcastNow]
      · intro hd
        subst hd
        refine ⟨(killTimer (setInst s n { x with recorded := true }) r.retry).timers.length,
          { rid := x.rid, st := .armed }, ?_, ?_, rfl, rfl⟩
        · simp [St.bcastNow, setInst, hrlt]
        · simp [St.bcastNow]
  · cases hs

/-- a retry of record `r` is pending: its timer is armed, or has fired and waits for the container lock -/
def retryPending (s : St) (r : Nat) : Bool :=
  match (s.recs[r]?).bind (·.retry) with
  | some t => (match s.timers[t]? with
               | some tm => tm.st != .dead
               | none => false)
  | none => false

/-- **C14 retry clause** (`retry_kept`): a pending retry of the current record survives a
`SetContext(ctx, restart = false)` that leaves the container with a context (fix e3f7210: the pending retry is
kept and will run with the new context). For every reachable state. -/
theorem retry_kept (es : List Ev) (s s' : St) (a : Nat) (c : Call) (ctx r : Nat)
    (hrun : model.run model.init es = some s)
    (hs : model.step s (.cs a) = some s') (hc : s.calls[a]? = some c) (hop : c.op = .setContext ctx false)
    (hctx : ctx ≠ 0) (hr : s.routine = some r) (hp : retryPending s r = true) : retryPending s' r = true := by
  have hq := allQ_run model.init s es allQ_init hrun
  simp only [model, step, stepI, hc] at hs
  split at hs
  · rename_i cf c' hcf hcc
    have hcc' : c' = c := by simpa using hcc.symm
    subst hcc'
    split at hs
    · simp only [hop] at hs
      split at hs
      · cases hs
      · simp only [apiCS, Option.some.injEq] at hs
        subst hs
        -- records and timers are untouched on every path that a pending retry can take
        cases hy : s.recs[r]? with
        | none => simp [retryPending, hy] at hp
        | some y =>
          have hret : y.retry ≠ none := by
            intro e; simp [retryPending, hy, e] at hp
          have herr : y.err ≠ none := (hq r y hy).q2 hret
          have : (setContextCS s ctx false).1.recs = s.recs ∧ (setContextCS s ctx false).1.timers = s.timers := by
            simp only [setContextCS, hr, hy]
            split
            · exact ⟨rfl, rfl⟩
            · split
              · exact ⟨rfl, rfl⟩
              · split
                · exact ⟨rfl, rfl⟩
                · rename_i hno
                  exfalso; apply hno
                  have h1 : y.err.isSome = true := by cases h : y.err with
                    | none => exact absurd h herr
                    | some _ => rfl
                  have h2 : y.retry.isSome = true := by cases h : y.retry with
                    | none => exact absurd h hret
                    | some _ => rfl
                  simp [h1, h2, hctx]
          simp only [retryPending, setCall, this.1, this.2] at hp ⊢
          exact hp
    · cases hs
  · cases hs

/-- **C14 `exit_cb_once`**: the final critical section of an instance that is current for its record reports the
exit to every exit callback exactly once, in order, with the instance's result (after the backoff call, if any);
`record_once`: it runs at most once per instance. -/
theorem exit_cb_once (s s' : St) (cf : Cfg) (n : Nat) (x : Inst) (r : Rec) (dur : Bool)
    (hs : model.step s (.record n dur) = some s') (hcf : s.cfg = some cf) (hx : s.insts[n]? = some x)
    (hr : s.recs[x.rid]? = some r) (hrc : r.rctx = some n) :
    s'.lockq = boLines cf x.out.isNone (s.routine == some x.rid) dur ++
      (List.range cf.ncb).map (fun j => Obs.exitcb j x.out) := by
  simp only [model, step, stepI, hcf, hx] at hs
  split at hs
  · simp only [recordCS, hr, hrc, if_true] at hs
    split at hs
    · cases hs
    · simp only [Option.some.injEq] at hs; subst hs
      simp [St.bcastNow, cbLines]
  · cases hs

theorem record_once (s s' : St) (n : Nat) (dur : Bool) (hs : model.step s (.record n dur) = some s') :
    (∃ x, s.insts[n]? = some x ∧ x.recorded = false) ∧ (∃ x', s'.insts[n]? = some x' ∧ x'.recorded = true) := by
  simp only [model, step, stepI] at hs
  split at hs
  · rename_i cf x hcf hx
    split at hs
    · rename_i hg
      refine ⟨⟨x, hx, hg.2.1⟩, ?_⟩
      have hlt := get_lt hx
      simp only [recordCS] at hs
      split at hs
      · cases hs
      · split at hs
        · split at hs
          · cases hs
          · simp only [Option.some.injEq] at hs; subst hs
            refine ⟨{ x with recorded := true }, ?_, rfl⟩
            simp only [bcastNow_insts]
            split <;> simp [setInst, hlt]
        · split at hs
          · cases hs
          · simp only [Option.some.injEq] at hs; subst hs
            exact ⟨{ x with recorded := true }, by simp [setInst, hlt], rfl⟩
    · cases hs
  · cases hs

/-- **C14 `waitExited_current`** (sample section): `WaitExited` returns only what its sample section reads from the
container's *current* record while a context is set: the recorded error of a record that has exited (nil for a
success) — or nil when asked to return if nothing is running. A record replaced by SetRoutine/SetState is never
consulted; `start()` clears `exited`, so neither is a superseded instance of the same record. -/
theorem waitExited_current (s : St) (rinr : Bool) (e : Option Nat)
    (h : (waitSample s rinr).2 = .done (.wx e)) :
    (∃ r y, (normCtx s).routine = some r ∧ (normCtx s).recs[r]? = some y ∧ (normCtx s).ctx ≠ 0 ∧
        (y.exited = true ∨ y.success = true) ∧ e = y.err) ∨
    (rinr = true ∧ e = none) := by
  simp only [waitSample] at h
  cases hrt : (normCtx s).routine with
  | none =>
    simp only [hrt] at h
    cases rinr <;> simp at h
    exact Or.inr ⟨rfl, h.symm⟩
  | some r =>
    cases hy : (normCtx s).recs[r]? with
    | none =>
      simp only [hrt, hy] at h
      cases rinr <;> simp at h
      exact Or.inr ⟨rfl, h.symm⟩
    | some y =>
      simp only [hrt, hy] at h
      by_cases hc : ((normCtx s).ctx != 0) = true
      · simp only [hc, if_true] at h
        by_cases hex : (y.exited || y.success) = true
        · simp only [hex, if_true] at h
          left
          refine ⟨r, y, rfl, hy, by simpa using hc, by simpa using hex, ?_⟩
          simpa using h.symm
        · simp [hex] at h
      · simp only [hc] at h
        cases rinr <;> simp at h
        exact Or.inr ⟨rfl, h.symm⟩

/-- **C14 "run again … by nothing else", observable form of the healthy-instance clause** (`C14ha_obs`): the monitor
clause "an executing instance that was seen with a live context is not seen cancelled unless a mutating API call
(SetContext, ClearContext, SetRoutine, RestartRoutine, SetState, SetStateRoutine, SwapValue) was in flight when it
entered or has been invoked since, or its root context was cancelled by the environment" accepts the observable
trace of every run of the model: no retry timer (stale or not), recorded error, exit of an older instance,
WaitExited or GetState stops a healthy instance. The clause is the first clause of `monC14h`, which the driver
evaluates on histories recorded from the real code. -/
theorem C14ha_obs (es : List Ev) (s : St) (hr : model.run model.init es = some s) :
    monC14ha.accepts (es.filterMap model.obs) = true := by
  obtain ⟨ms, h, _⟩ := hl_run model.init s es good_init {} hlink_init {} linkA_init hr
  have : monC14ha.run monC14ha.init (es.filterMap model.obs) = some ms := h
  simp [ObsMonitor.accepts, this]

/-- **C14, "moved to a new context", observable form** (`C14hb_obs`): the first two clauses of monitor C14h accept
the trace of every run of the model. Second clause: when SetContext(ctx ≠ nil, restart = false) — overlapped by no
other mutating call and by no cancellation of a context by the environment — returns true while the healthy
instance that was executing at its invocation still executes, the routine runs again under the new context once
that instance has returned: no quiescence line with nothing executing can follow before an instance enters,
another mutating call is invoked or the environment cancels a context. Rests on `setContextCS_spawn` (such a
critical section starts a successor that waits for the executing instance), `step_stable` (nothing but the critical
section of a mutating call touches a live waiter or the current instance) and the hand-over chain. -/
theorem C14hb_obs (es : List Ev) (s : St) (hr : model.run model.init es = some s) :
    monC14hb.accepts (es.filterMap model.obs) = true := by
  obtain ⟨ms, h, _⟩ := xl_run model.init s es good_init cur_init {} xlink_init {} linkA_init hr
  have : monC14hb.run monC14hb.init (es.filterMap model.obs) = some ms := h
  simp [ObsMonitor.accepts, this]

/-- **C14h, observable form** (`C14h_obs`): monitor C14h — exactly as the driver evaluates it — accepts the trace of
every run of the model: the healthy-instance and "moved to a new context" clauses (`C14hb_obs`) and the
replaced-record clause, which is the function part of C05's lineage clause (`monC14hf_of_C05l` applied to
`C05l_obs`); `monC14h_of_clauses`: the monitor is the conjunction of these clause monitors. -/
theorem C14h_obs (es : List Ev) (s : St) (hr : model.run model.init es = some s) :
    monC14h.accepts (es.filterMap model.obs) = true :=
  monC14h_of_clauses _ (C14hb_obs es s hr) (monC14hf_of_C05l _ (C05l_obs es s hr))

/-- **C14, WaitExited results, observable form** (`C14w_obs`): the WaitExited clause of monitor C14 accepts the trace
of every run of the model: WaitExited returns context.Canceled (own context cancelled, error channel closed, or an
instance that never entered), nil when asked to return if nothing is running, an error sent on its error channel,
or the result of an instance that returned and had not been superseded for sure when WaitExited was called. Rests on
`step_curStep` (an instance that is not the container's current instance never becomes current again), `EF` (an
exited record keeps its error until it is started again) and `apiCS_sup` (after a superseding critical section no
earlier instance is current). -/
theorem C14w_obs (es : List Ev) (s : St) (hr : model.run model.init es = some s) :
    monC14w.accepts (es.filterMap model.obs) = true := by
  obtain ⟨ms, h, _⟩ := wl_run model.init s es good_init {} wlink_init {} linkA_init rfl hr
  have : monC14w.run monC14w.init (es.filterMap model.obs) = some ms := h
  simp [ObsMonitor.accepts, this]

/-- **C14, exit-callback groups, observable form** (`C14cb_obs`): the exit-callback clause of monitor C14 accepts
the trace of every run of the model: the exit callbacks are called in groups 0, 1, …, ncb-1, all with the same
error; a group is complete at every quiescence line; and the error of a group is the result of an instance that
returned and has not been reported yet (a multiset: every result is reported at most once) or context.Canceled
(an instance cancelled before it entered). -/
theorem C14cb_obs (es : List Ev) (s : St) (hr : model.run model.init es = some s) :
    monC14cb.accepts (es.filterMap model.obs) = true := by
  obtain ⟨ms, h, _⟩ := cb_run model.init s {} es cblink_init hr
  have : monC14cb.run monC14cb.init (es.filterMap model.obs) = some ms := h
  simp [ObsMonitor.accepts, this]

/-- **C14, run causes, observable form** (`C14rc_obs`): the run-cause clause monitor accepts the trace of every run
of the model: once the container's current instance — one that entered while no mutating call was in flight, was
seen with a live context and returned before any mutating call was invoked — has reported a success, no instance
enters before RestartRoutine or a call that sets a new routine / state is invoked; once it has reported an error
without arming a retry, none enters before such a call or SetContext(restart = true) is invoked. (In the model the
obligation means `Dead`: the container's record has exited with that result, holds no retry timer, every instance
has exited; SetContext then stops the record and starts nothing, `setContextCS_dead`.) -/
theorem C14rc_obs (es : List Ev) (s : St) (hr : model.run model.init es = some s) :
    monC14rc.accepts (es.filterMap model.obs) = true := by
  obtain ⟨ms, h, _⟩ := rc_run model.init s {} es rclink_init good_init cur_init allQ_init hr
  have : monC14rc.run monC14rc.init (es.filterMap model.obs) = some ms := h
  simp [ObsMonitor.accepts, this]

/-- state form of the same fact: the critical section of a retry timer never cancels an instance that has not
exited (it restarts the routine only when the record has exited, and the instance it cancels is that one) -/
theorem timer_keeps_running (es : List Ev) (s : St) (hr : model.run model.init es = some s)
    (t r n : Nat) (x : Inst) (hx : s.insts[n]? = some x) (hc : x.st ≠ .closed) :
    (timerBody s t r).insts[n]? = some x :=
  timerBody_keep s (good_run model.init s es good_init hr).recs t r n x hx hc

end UtilModel.Routine
