import UtilModel.Routine.Proofs
import UtilModel.Routine.Monitors
/-!
# routine: property theorems (C04, C05, C14)

Statements only; the invariants are in `Proofs.lean`. All theorems quantify over every event list of the model
(`model.run model.init es = some s`): every number of API calls, callers, instances, every interleaving of
critical sections, instance steps, timer firings and environment actions.
-/
namespace UtilModel.Routine
open UtilModel

/-! ## C04 — at most one instance executes -/

/-- **C04, full statement**: in every reachable state at most one instance is between entry (`cbin`) and
return (`cbout`) of the managed function. *False for the code as it is* (open finding D16), see
`C04_full_false`. -/
def C04_full : Prop :=
  ∀ (es : List Ev) (s : St), model.run model.init es = some s →
    ∀ (i j : Nat) (x y : Inst), s.insts[i]? = some x → s.insts[j]? = some y →
      x.st = .running → y.st = .running → i = j

/-- D16 witness: `SetContext(1)`, `SetRoutine(f1)`, instance 0 enters, `SetRoutine(nil)`, `SetRoutine(f2)`:
instance 1 enters beside instance 0. -/
def d16Trace : List Ev :=
  [.cfg {}, .inv 0 (.setContext 1 false), .cs 0, .ret 0 (.bool false),
   .inv 1 (.setRoutine 1), .cs 1, .ret 1 (.setR false false), .cbin 0 0 1 0 1,
   .inv 2 (.setRoutine 0), .cs 2, .ret 2 (.setR true true),
   .inv 3 (.setRoutine 2), .cs 3, .cbin 1 1 2 0 1]

theorem d16Trace_runs :
    (model.run model.init d16Trace).map (fun s => s.insts.map (·.st)) = some [.running, .running] := by
  decide

/-- the model (like the code) violates the full statement -/
theorem C04_full_false : ¬ C04_full := by
  intro h
  cases hr : model.run model.init d16Trace with
  | none => have := d16Trace_runs; rw [hr] at this; cases this
  | some s =>
    have hm := d16Trace_runs
    rw [hr] at hm
    simp only [Option.map_some, Option.some.injEq] at hm
    have h0 : ∃ x, s.insts[0]? = some x ∧ x.st = .running := by
      have := congrArg (·[0]?) hm
      simp only [List.getElem?_map] at this
      cases hx : s.insts[0]? with
      | none => simp [hx] at this
      | some x => exact ⟨x, rfl, by simpa [hx] using this⟩
    have h1 : ∃ y, s.insts[1]? = some y ∧ y.st = .running := by
      have := congrArg (·[1]?) hm
      simp only [List.getElem?_map] at this
      cases hx : s.insts[1]? with
      | none => simp [hx] at this
      | some x => exact ⟨x, rfl, by simpa [hx] using this⟩
    obtain ⟨x, hx, hxr⟩ := h0
    obtain ⟨y, hy, hyr⟩ := h1
    have := h d16Trace s hr 0 1 x y hx hy hxr hyr
    cases this

/-- **C04 outside D16** (`one_running_partial`): along every run that never clears the routine while the
previous record still holds an exit channel (`SafeRun`, i.e. no `clearsLive` event), at most one instance is
executing the managed function — for any number of supersessions inside an exit latency, set/clear-context,
restarts, retries, any interleaving. Missing for the full statement: exactly the D16 pattern. -/
theorem one_running_partial (es : List Ev) (s : St) (hr : model.run model.init es = some s)
    (hsafe : SafeRun model.init es) (i j : Nat) (x y : Inst)
    (hx : s.insts[i]? = some x) (hy : s.insts[j]? = some y)
    (rx : x.st = .running) (ry : y.st = .running) : i = j := by
  have hg := good_run model.init s es good_init hsafe hr
  exact Chain.one_running (proj s) hg.chain i j (pI x) (pI y) (proj_get s i x hx) (proj_get s j y hy)
    (by simp [pI, pst, rx]) (by simp [pI, pst, ry])

/-- the chain invariant itself (eight clauses of `Core/Chain`) holds in every state of a safe run -/
theorem chain_inv_partial (es : List Ev) (s : St) (hr : model.run model.init es = some s)
    (hsafe : SafeRun model.init es) : Chain.Inv (proj s) :=
  (good_run model.init s es good_init hsafe hr).chain

/-- the critical section of call `a`, run in state `s`, returns the exit channel of instance `p` as the
`waitReturn` channel of SetRoutine / SetState / SetStateRoutine / SwapValue -/
def csReturnsCh (s : St) (a p : Nat) : Prop :=
  ∃ cf c r, s.cfg = some cf ∧ s.calls[a]? = some c ∧ apiCS s cf c.op = some r ∧ r.2.2 = some p

/-- **C04, second sentence** (`waitReturn_after_all`, outside D16): if the critical section of call `a` ran in
state `s1` and handed out the exit channel of instance `p` as its wait channel, then in every later state in
which that channel is closed, every instance that existed when the call was made has exited (is past
`close(exitedCh)`, hence has returned). -/
theorem waitReturn_after_all (es1 es2 : List Ev) (a : Nat) (s1 s2 s3 : St) (p : Nat)
    (h1 : model.run model.init es1 = some s1) (h2 : model.step s1 (.cs a) = some s2)
    (h3 : model.run s2 es2 = some s3)
    (hsafe : SafeRun model.init (es1 ++ ([.cs a] ++ es2)))
    (hwr : csReturnsCh s1 a p) (hcl : instClosed s3 p = true) :
    ∀ j, j < s1.insts.length → instClosed s3 j = true := by
  obtain ⟨hsafe1, hsafe2⟩ := safeRun_append model.init s1 es1 _ hsafe h1
  have hsafe2' : SafeRun s1 (Ev.cs a :: es2) := hsafe2
  have g1 := good_run model.init s1 es1 good_init hsafe1 h1
  have hk := step_ok s1 s2 (.cs a) g1.recs h2
  have g2 : Good s2 := ⟨hk.1, (hk.2 hsafe2'.1).inv g1.chain⟩
  have hsafe3 : SafeRun s2 es2 := hsafe2'.2 s2 h2
  have g3 := good_run s2 s3 es2 g2 hsafe3 h3
  obtain ⟨cf, c, r, _, _, hr, hp⟩ := hwr
  have hlast : lastOf s1 = some p := apiCS_wr s1 cf c.op r hr p hp
  intro j hj
  rcases Nat.lt_or_ge p j with hpj | hpj
  · -- above `last`: already exited when the call was made
    have : Chain.isClosed (proj s1) j = true :=
      g1.chain.topSome p (by simp [proj, hlast]) j hpj (by simpa [proj] using hj)
    rw [isClosed_proj] at this
    have c2 := steps_closed_mono (hk.2 hsafe2'.1) j (by rw [isClosed_proj]; exact this)
    rw [isClosed_proj] at c2
    exact closed_run s2 s3 es2 g2.recs hsafe3 h3 j c2
  · rcases Nat.lt_or_ge j p with hlt | hge
    · have := g3.chain.down p (by rw [isClosed_proj]; exact hcl) j hlt
      rw [isClosed_proj] at this; exact this
    · have : j = p := by omega
      subst this; exact hcl

end UtilModel.Routine
