import UtilModel.Core.LTSHash
import UtilModel.Core.LTSComplete
import UtilModel.Routine.Props
/-!
# routine — end-to-end transfer and completeness of the candidate lists

`*_accepted`: a history that the driver accepts (observational trace inclusion, decided by `acceptsH` for the
`routine` model and by `accepts` for the `backoff` model) satisfies the property monitor — the composition of
`acceptsH_sound` / `accepts_sound` with the `*_obs` theorems. This is the statement applied to every recorded
implementation history.

`complete_routine`, `complete_backoff`: every enabled internal event of a state is in the candidate list the
checker tries and every enabled observable event is in `evsOf`, so (`reject_sound_*`) a history is rejected only if
— up to the exploration bounds, which the driver reports as INCONCLUSIVE — no run of the model projects to it.
The candidate list of the routine model is the full list of internal events (the former reductions — lazy
`giveUp`, one of several interchangeable final sections — were removed rather than justified).
-/
namespace UtilModel.Routine
open UtilModel

/-! ## accepted histories satisfy the monitors -/

theorem C04a_accepted (cap fuel : Nat) (h : List Obs) (ha : model.acceptsH cap fuel h = true) :
    monC04a.accepts h = true :=
  acceptedH_satisfies model (fun h => monC04a.accepts h = true) C04a_obs cap fuel h ha

theorem C04_accepted (cap fuel : Nat) (h : List Obs) (ha : model.acceptsH cap fuel h = true) :
    monC04.accepts h = true :=
  acceptedH_satisfies model (fun h => monC04.accepts h = true) C04_obs cap fuel h ha

theorem C05a_accepted (cap fuel : Nat) (h : List Obs) (ha : model.acceptsH cap fuel h = true) :
    monC05a.accepts h = true :=
  acceptedH_satisfies model (fun h => monC05a.accepts h = true) C05a_obs cap fuel h ha

theorem C05b_accepted (cap fuel : Nat) (h : List Obs) (ha : model.acceptsH cap fuel h = true) :
    monC05b.accepts h = true :=
  acceptedH_satisfies model (fun h => monC05b.accepts h = true) C05b_obs cap fuel h ha

theorem C05l_accepted (cap fuel : Nat) (h : List Obs) (ha : model.acceptsH cap fuel h = true) :
    monC05l.accepts h = true :=
  acceptedH_satisfies model (fun h => monC05l.accepts h = true) C05l_obs cap fuel h ha

theorem C05g_accepted (cap fuel : Nat) (h : List Obs) (ha : model.acceptsH cap fuel h = true) :
    monC05g.accepts h = true :=
  acceptedH_satisfies model (fun h => monC05g.accepts h = true) C05g_obs cap fuel h ha

/-- **C05 end to end**: a history accepted by the correspondence check satisfies monitor C05 — so a C05 alarm on
such a history cannot occur -/
theorem C05_accepted (cap fuel : Nat) (h : List Obs) (ha : model.acceptsH cap fuel h = true) :
    monC05.accepts h = true :=
  acceptedH_satisfies model (fun h => monC05.accepts h = true) C05_obs cap fuel h ha

theorem C14ha_accepted (cap fuel : Nat) (h : List Obs) (ha : model.acceptsH cap fuel h = true) :
    monC14ha.accepts h = true :=
  acceptedH_satisfies model (fun h => monC14ha.accepts h = true) C14ha_obs cap fuel h ha

theorem C14hb_accepted (cap fuel : Nat) (h : List Obs) (ha : model.acceptsH cap fuel h = true) :
    monC14hb.accepts h = true :=
  acceptedH_satisfies model (fun h => monC14hb.accepts h = true) C14hb_obs cap fuel h ha

/-- **C14h end to end**: a history accepted by the correspondence check satisfies monitor C14h -/
theorem C14h_accepted (cap fuel : Nat) (h : List Obs) (ha : model.acceptsH cap fuel h = true) :
    monC14h.accepts h = true :=
  acceptedH_satisfies model (fun h => monC14h.accepts h = true) C14h_obs cap fuel h ha

theorem C14w_accepted (cap fuel : Nat) (h : List Obs) (ha : model.acceptsH cap fuel h = true) :
    monC14w.accepts h = true :=
  acceptedH_satisfies model (fun h => monC14w.accepts h = true) C14w_obs cap fuel h ha

theorem C14cb_accepted (cap fuel : Nat) (h : List Obs) (ha : model.acceptsH cap fuel h = true) :
    monC14cb.accepts h = true :=
  acceptedH_satisfies model (fun h => monC14cb.accepts h = true) C14cb_obs cap fuel h ha

theorem C14rc_accepted (cap fuel : Nat) (h : List Obs) (ha : model.acceptsH cap fuel h = true) :
    monC14rc.accepts h = true :=
  acceptedH_satisfies model (fun h => monC14rc.accepts h = true) C14rc_obs cap fuel h ha

theorem C14bo_accepted (cap fuel : Nat) (h : List Backoff.Obs) (ha : Backoff.model.accepts cap fuel h = true) :
    Backoff.monC14bo.accepts h = true :=
  accepted_satisfies Backoff.model (fun h => Backoff.monC14bo.accepts h = true) Backoff.C14bo_obs cap fuel h ha

/-! ## completeness of the candidate lists -/

theorem mem_flatMap_range {n i : Nat} (h : i < n) (f : Nat → List Ev) (e : Ev) (he : e ∈ f i) :
    e ∈ (List.range n).flatMap f := by
  simp only [List.mem_flatMap, List.mem_range]
  exact ⟨i, h, he⟩

theorem cands_call (s : St) (a : Nat) (c : Call) (hc : s.calls[a]? = some c) (e : Ev)
    (he : e ∈ [Ev.cs a, .wctx a, .wake a]) : e ∈ cands s := by
  simp only [cands, List.mem_append]
  exact Or.inl (Or.inl (Or.inl (mem_flatMap_range (get_lt hc) _ e he)))

theorem cands_inst (s : St) (n : Nat) (x : Inst) (hx : s.insts[n]? = some x) (e : Ev)
    (he : e ∈ [Ev.giveUp n, .drained n, .closeExit n, .record n false, .record n true]) : e ∈ cands s := by
  simp only [cands, List.mem_append]
  exact Or.inl (Or.inl (Or.inr (mem_flatMap_range (get_lt hx) _ e he)))

theorem cands_timer (s : St) (t : Nat) (tm : Timer) (ht : s.timers[t]? = some tm) (e : Ev)
    (he : e ∈ [Ev.fire t, .timerCS t]) : e ∈ cands s := by
  simp only [cands, List.mem_append]
  exact Or.inl (Or.inr (mem_flatMap_range (get_lt ht) _ e he))

/-- every enabled internal event is a candidate -/
theorem cands_complete (s s' : St) (e : Ev) (hs : step s e = some s') (ho : Ev.obs e = none) : e ∈ cands s := by
  cases e with
  | cs a =>
    simp only [step, stepI] at hs
    split at hs
    · rename_i cf c hcf hc
      exact cands_call s a c hc _ (by simp)
    · cases hs
  | wake a =>
    simp only [step, stepI] at hs
    split at hs
    · rename_i c hc
      exact cands_call s a c hc _ (by simp)
    · cases hs
  | wctx a =>
    simp only [step, stepI] at hs
    split at hs
    · rename_i c hc
      exact cands_call s a c hc _ (by simp)
    · cases hs
  | envDo c =>
    simp only [step, stepI] at hs
    split at hs
    · rename_i hpc
      simp only [cands, List.mem_append, List.mem_map]
      exact Or.inr ⟨c, by simpa using hpc, rfl⟩
    · cases hs
  | giveUp n =>
    simp only [step, stepI] at hs
    split at hs
    · rename_i x hx
      exact cands_inst s n x hx _ (by simp)
    · cases hs
  | drained n =>
    simp only [step, stepI] at hs
    split at hs
    · rename_i x hx
      exact cands_inst s n x hx _ (by simp)
    · cases hs
  | closeExit n =>
    simp only [step, stepI] at hs
    split at hs
    · rename_i x hx
      exact cands_inst s n x hx _ (by simp)
    · cases hs
  | record n dur =>
    simp only [step, stepI] at hs
    split at hs
    · rename_i cf x _ hx
      exact cands_inst s n x hx _ (by cases dur <;> simp)
    · cases hs
  | fire t =>
    simp only [step, stepI] at hs
    split at hs
    · rename_i tm htm
      exact cands_timer s t tm htm _ (by simp)
    · cases hs
  | timerCS t =>
    simp only [step, stepI] at hs
    split at hs
    · rename_i tm htm
      exact cands_timer s t tm htm _ (by simp)
    · cases hs
  | cfg c => simp [Ev.obs] at ho
  | inv a op => simp [Ev.obs] at ho
  | ret a r => simp [Ev.obs] at ho
  | envCancel c => simp [Ev.obs] at ho
  | envCancelW a => simp [Ev.obs] at ho
  | envErr a e0 => simp [Ev.obs] at ho
  | cbin k n f arg root => simp [Ev.obs] at ho
  | cbout k o => simp [Ev.obs] at ho
  | emit o => simp [Ev.obs] at ho
  | probeCtx k b => simp [Ev.obs] at ho
  | probeW a b => simp [Ev.obs] at ho
  | quiesce p r l => simp [Ev.obs] at ho

/-- every enabled observable event is among the events tried for its observable -/
theorem evs_complete (s s' : St) (e : Ev) (o : Obs) (hs : step s e = some s') (ho : Ev.obs e = some o) :
    e ∈ evsOf s o := by
  cases e with
  | cbin k n f arg root =>
    simp only [Ev.obs, Option.some.injEq] at ho; subst ho
    simp only [step, stepI] at hs
    split at hs
    · rename_i x hx
      simp only [evsOf, List.mem_map, List.mem_range]
      exact ⟨n, get_lt hx, rfl⟩
    · cases hs
  | emit o' =>
    simp only [Ev.obs, Option.some.injEq] at ho; subst ho
    have hline : o'.isLine = true := by
      simp only [step, stepI] at hs
      split at hs
      · split at hs
        · rename_i h0; exact h0.2
        · cases hs
      · cases hs
    cases o' <;> simp [Obs.isLine] at hline <;> simp [evsOf]
  | cfg c => simp only [Ev.obs, Option.some.injEq] at ho; subst ho; simp [evsOf]
  | inv a op => simp only [Ev.obs, Option.some.injEq] at ho; subst ho; simp [evsOf]
  | ret a r => simp only [Ev.obs, Option.some.injEq] at ho; subst ho; simp [evsOf]
  | envCancel c => simp only [Ev.obs, Option.some.injEq] at ho; subst ho; simp [evsOf]
  | envCancelW a => simp only [Ev.obs, Option.some.injEq] at ho; subst ho; simp [evsOf]
  | envErr a e0 => simp only [Ev.obs, Option.some.injEq] at ho; subst ho; simp [evsOf]
  | cbout k o' => simp only [Ev.obs, Option.some.injEq] at ho; subst ho; simp [evsOf]
  | probeCtx k b => simp only [Ev.obs, Option.some.injEq] at ho; subst ho; simp [evsOf]
  | probeW a b => simp only [Ev.obs, Option.some.injEq] at ho; subst ho; simp [evsOf]
  | quiesce p r l => simp only [Ev.obs, Option.some.injEq] at ho; subst ho; simp [evsOf]
  | cs a => simp [Ev.obs] at ho
  | wake a => simp [Ev.obs] at ho
  | wctx a => simp [Ev.obs] at ho
  | envDo c => simp [Ev.obs] at ho
  | giveUp n => simp [Ev.obs] at ho
  | drained n => simp [Ev.obs] at ho
  | closeExit n => simp [Ev.obs] at ho
  | record n dur => simp [Ev.obs] at ho
  | fire t => simp [Ev.obs] at ho
  | timerCS t => simp [Ev.obs] at ho

/-- **the candidate lists of the routine model are complete** -/
theorem complete_routine : model.Complete :=
  ⟨fun s e s' hs ho => cands_complete s s' e hs ho, fun s e s' o hs ho => evs_complete s s' e o hs ho⟩

/-- **A REJECT of the routine correspondence is about the model**: when the driver's run fails at an observable
without having hit the exploration bounds, no run of the routine model projects to the recorded history. -/
theorem reject_sound_routine (cap fuel : Nat) (h : List Obs) (i : Nat)
    (hfail : (model.accRunH cap fuel [model.init] h 0 false 1).failedAt = some i)
    (htr : (model.accRunH cap fuel [model.init] h 0 false 1).truncated = false) :
    ¬ ∃ es s, model.run model.init es = some s ∧ es.filterMap model.obs = h :=
  rejectH_sound model complete_routine cap fuel h i hfail htr

/-- the backoff model has no internal events and tries exactly the observable itself -/
theorem complete_backoff : Backoff.model.Complete :=
  ⟨fun _ e _ _ ho => by simp [Backoff.model] at ho,
   fun _ e _ o _ ho => by simp only [Backoff.model, Option.some.injEq] at ho; subst ho; simp [Backoff.model]⟩

/-- **A REJECT of the backoff correspondence is about the model** (list-indexed checker, `mkEntry`) -/
theorem reject_sound_backoff (cap fuel : Nat) (h : List Backoff.Obs) (i : Nat)
    (hfail : (Backoff.model.accRun cap fuel [Backoff.model.init] h 0 false 1).failedAt = some i)
    (htr : (Backoff.model.accRun cap fuel [Backoff.model.init] h 0 false 1).truncated = false) :
    ¬ ∃ es s, Backoff.model.run Backoff.model.init es = some s ∧ es.filterMap Backoff.model.obs = h :=
  reject_sound Backoff.model complete_backoff cap fuel h i hfail htr

end UtilModel.Routine
