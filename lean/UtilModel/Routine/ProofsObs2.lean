import UtilModel.Routine.ProofsObs
/-!
# routine: observable form of the second clause of C04

`WrSame`: critical sections never change the wait channel a call has returned (`Call.wr`), nor the number of calls.
`LinkB` extends `LinkA` with the monitor's snapshots: an instance that was executing when a call was invoked is, once
the call has returned exit channel `p`, either at most `p` in the chain or already exited.
-/
namespace UtilModel.Routine
open UtilModel

/-- the calls' returned wait channels are unchanged -/
structure WrOnly (s s' : St) : Prop where
  len : s'.calls.length = s.calls.length
  wr : ∀ i : Nat, (s'.calls[i]?).map (·.wr) = (s.calls[i]?).map (·.wr)

/-- … and so are their operations and whether their critical section has run (`done r`): what a critical
section does to the call table is at most waking parked `WaitExited` calls -/
structure WrSame (s s' : St) : Prop extends WrOnly s s' where
  dn : ∀ (i : Nat) (c' : Call), s'.calls[i]? = some c' → ∃ c : Call, s.calls[i]? = some c ∧ c.op = c'.op ∧
        (∀ r, c'.st = .done r ↔ c.st = .done r)
  /-- … nor whether they have returned -/
  fin : ∀ (i : Nat) (c' : Call), s'.calls[i]? = some c' → ∃ c : Call, s.calls[i]? = some c ∧
        (c'.st = .finished ↔ c.st = .finished)
  /-- … and a call that has not had its critical section still has not -/
  iv : ∀ (i : Nat) (c' : Call), s'.calls[i]? = some c' → ∃ c : Call, s.calls[i]? = some c ∧
        (c.st = .invoked → c'.st = .invoked)

theorem WrSame.toOnly {s s' : St} (h : WrSame s s') : WrOnly s s' := ⟨h.len, h.wr⟩
theorem WrOnly.of_eq {s s' : St} (h : s'.calls = s.calls) : WrOnly s s' := ⟨by rw [h], fun _ => by rw [h]⟩

theorem WrSame.refl (s : St) : WrSame s s :=
  ⟨⟨rfl, fun _ => rfl⟩, fun _ c h => ⟨c, h, rfl, fun _ => Iff.rfl⟩, fun _ c h => ⟨c, h, Iff.rfl⟩, fun _ c h => ⟨c, h, id⟩⟩
theorem WrSame.of_eq {s s' : St} (h : s'.calls = s.calls) : WrSame s s' :=
  ⟨⟨by rw [h], fun _ => by rw [h]⟩, fun i c hc => ⟨c, by rw [← h]; exact hc, rfl, fun _ => Iff.rfl⟩,
   fun i c hc => ⟨c, by rw [← h]; exact hc, Iff.rfl⟩, fun i c hc => ⟨c, by rw [← h]; exact hc, id⟩⟩
theorem WrSame.trans {a b c : St} (h1 : WrSame a b) (h2 : WrSame b c) : WrSame a c := by
  refine ⟨⟨h2.len.trans h1.len, fun i => (h2.wr i).trans (h1.wr i)⟩, ?_, ?_, ?_⟩
  rotate_left 2
  · intro i c' hc'
    obtain ⟨c1, g1, g2⟩ := h2.iv i c' hc'
    obtain ⟨c0, f1, f2⟩ := h1.iv i c1 g1
    exact ⟨c0, f1, fun h => g2 (f2 h)⟩
  · intro i c' hc'
    obtain ⟨c1, g1, g2, g3⟩ := h2.dn i c' hc'
    obtain ⟨c0, f1, f2, f3⟩ := h1.dn i c1 g1
    exact ⟨c0, f1, f2.trans g2, fun r => (g3 r).trans (f3 r)⟩
  · intro i c' hc'
    obtain ⟨c1, g1, g2⟩ := h2.fin i c' hc'
    obtain ⟨c0, f1, f2⟩ := h1.fin i c1 g1
    exact ⟨c0, f1, g2.trans f2⟩

theorem wrSame_bcast (s : St) : WrSame s s.bcastNow := by
  refine ⟨⟨by simp [St.bcastNow], ?_⟩, ?_, ?_, ?_⟩
  rotate_left 3
  · intro i c' hc'
    simp only [St.bcastNow, List.getElem?_map] at hc'
    cases h : s.calls[i]? with
    | none => rw [h] at hc'; cases hc'
    | some c =>
      rw [h] at hc'
      simp only [Option.map_some, Option.some.injEq] at hc'
      subst hc'
      refine ⟨c, rfl, ?_⟩
      intro hst; simp [Call.wakeUp, hst]
  rotate_left 2
  · intro i c' hc'
    simp only [St.bcastNow, List.getElem?_map] at hc'
    cases h : s.calls[i]? with
    | none => rw [h] at hc'; cases hc'
    | some c =>
      rw [h] at hc'
      simp only [Option.map_some, Option.some.injEq] at hc'
      subst hc'
      refine ⟨c, rfl, ?_⟩
      simp only [Call.wakeUp]; cases hst : c.st <;> simp [hst]
  · intro i
    simp only [St.bcastNow, List.getElem?_map]
    cases h : s.calls[i]? with
    | none => rfl
    | some c =>
      simp only [Option.map_some, Call.wakeUp]
      cases c.st <;> rfl
  · intro i c' hc'
    simp only [St.bcastNow, List.getElem?_map] at hc'
    cases h : s.calls[i]? with
    | none => rw [h] at hc'; cases hc'
    | some c =>
      rw [h] at hc'
      simp only [Option.map_some, Option.some.injEq] at hc'
      subst hc'
      refine ⟨c, rfl, ?_, ?_⟩
      · simp only [Call.wakeUp]; cases c.st <;> rfl
      · intro r; simp only [Call.wakeUp]; cases hst : c.st <;> simp [hst]

@[simp] theorem cancelInst_calls (s : St) (n : Nat) : (cancelInst s n).calls = s.calls := by
  unfold cancelInst; split <;> rfl
@[simp] theorem cancelOpt_calls (s : St) (o : Option Nat) : (cancelOpt s o).calls = s.calls := by
  cases o <;> simp [cancelOpt]
@[simp] theorem killTimer_calls (s : St) (o : Option Nat) : (killTimer s o).calls = s.calls := by
  unfold killTimer; split
  · split
    · split <;> rfl
    · rfl
  · rfl
@[simp] theorem stopRec_calls (s : St) (r : Nat) : (stopRec s r).calls = s.calls := by
  unfold stopRec; split <;> simp
@[simp] theorem startRec_calls (s : St) (r c : Nat) (w : Option Nat) (f : Bool) :
    (startRec s r c w f).calls = s.calls := by
  unfold startRec; split
  · rfl
  · split <;> simp
@[simp] theorem normCtx_calls (s : St) : (normCtx s).calls = s.calls := by unfold normCtx; split <;> rfl
@[simp] theorem detachPrev_calls (s : St) : (detachPrev s).1.calls = s.calls := by
  cases hr : s.routine with
  | none => simp [detachPrev, hr]
  | some r => cases hx : s.recs[r]? <;> simp [detachPrev, hr, hx]

theorem wrSame_bcast_of {s S : St} (h : S.calls = s.calls) : WrSame s S.bcastNow :=
  (WrSame.of_eq h).trans (wrSame_bcast S)

theorem wrSame_setContextCS (s : St) (c : Nat) (r : Bool) : WrSame s (setContextCS s c r).1 := by
  simp only [setContextCS]
  split
  · exact WrSame.refl s
  · split
    · exact WrSame.of_eq rfl
    · split
      · exact WrSame.of_eq rfl
      · split
        · exact WrSame.of_eq rfl
        · split
          · exact WrSame.of_eq rfl
          · split
            · exact wrSame_bcast_of (by simp)
            · exact wrSame_bcast_of (by simp)

theorem wrSame_restartCS (s : St) : WrSame s (restartCS s).1 := by
  simp only [restartCS]
  split
  · exact WrSame.of_eq (by simp)
  · split
    · exact WrSame.of_eq (by simp)
    · split
      · exact WrSame.of_eq (by simp)
      · exact wrSame_bcast_of (by simp)

theorem wrSame_setRoutineLocked (s : St) (f arg : Nat) : WrSame s (setRoutineLocked s f arg).1 := by
  simp only [setRoutineLocked]
  split
  · split
    · exact wrSame_bcast_of (by simp)
    · exact wrSame_bcast_of (by simp)
  · split
    · exact wrSame_bcast_of (by simp)
    · exact WrSame.of_eq (by simp)

theorem wrSame_setStateCS (s : St) (cmp v : Nat) : WrSame s (setStateCS s cmp v).1 := by
  simp only [setStateCS]
  split
  · simp only [updateStateRoutine]
    exact (WrSame.of_eq (s := s) (s' := { s with sval := v }) rfl).trans (wrSame_setRoutineLocked _ _ _)
  · exact WrSame.refl s

theorem wrSame_apiCS (s : St) (cf : Cfg) (op : Op) (r : St × Res × Option Nat) (h : apiCS s cf op = some r) :
    WrSame s r.1 := by
  cases op with
  | setContext c restart => simp [apiCS] at h; subst h; exact wrSame_setContextCS s c restart
  | setRoutine f =>
    simp only [apiCS] at h
    split at h
    · cases h
    · simp at h; subst h; exact wrSame_setRoutineLocked s f 0
  | restart => simp [apiCS] at h; subst h; exact wrSame_restartCS s
  | setState v =>
    simp only [apiCS] at h
    split at h
    · cases h
    · simp at h; subst h; exact wrSame_setStateCS s cf.cmp v
  | setStateRoutine f =>
    simp only [apiCS] at h
    split at h
    · cases h
    · simp at h; subst h
      simp only [updateStateRoutine]
      exact (WrSame.of_eq (s := s) (s' := { s with sfn := f }) rfl).trans (wrSame_setRoutineLocked _ _ _)
  | swap k =>
    simp only [apiCS] at h
    split at h
    · cases h
    · split at h
      · split at h
        · simp only [Option.some.injEq] at h; subst h; exact wrSame_setStateCS s cf.cmp _
        · simp only [Option.some.injEq] at h; subst h; exact WrSame.refl s
      · simp at h; subst h; exact WrSame.refl s
  | getState =>
    simp only [apiCS] at h
    split at h
    · cases h
    · simp at h; subst h; exact WrSame.refl s
  | waitExited _ => simp [apiCS] at h

theorem wrSame_timerBody (s : St) (t r : Nat) : WrSame s (timerBody s t r) := by
  simp only [timerBody]
  split
  · split
    · exact wrSame_bcast_of (by simp)
    · exact wrSame_bcast s
  · exact wrSame_bcast s

theorem wrSame_recordCS (s s' : St) (cf : Cfg) (n : Nat) (x : Inst) (dur : Bool)
    (h : recordCS s cf n x dur = some s') : WrSame s s' := by
  simp only [recordCS] at h
  split at h
  · cases h
  · split at h
    · split at h
      · cases h
      · simp only [Option.some.injEq] at h; subst h
        apply wrSame_bcast_of
        split <;> simp [setInst]
    · split at h
      · cases h
      · simp only [Option.some.injEq] at h; subst h; exact WrSame.of_eq rfl

/-! ## the snapshot relation -/

/-- the monitor's snapshots against the model: `snaps` maps a call to the entry numbers of the instances that were
executing when it was invoked -/
structure SnapLink (s : St) (snaps : List (Nat × List Nat)) : Prop where
  s5 : ∀ (a : Nat) (c : Call) (p : Nat), s.calls[a]? = some c → c.wr = some p →
        ∀ k ∈ lookupSnap snaps a, ∀ n : Nat, s.ent[k]? = some n → n ≤ p ∨ instClosed s n = true
  s6 : ∀ q ∈ snaps, q.1 < s.calls.length
  s7 : ∀ q ∈ snaps, ∀ k ∈ q.2, k < s.ent.length

theorem lookupSnap_mem {l : List (Nat × List Nat)} {a : Nat} {k : Nat} (h : k ∈ lookupSnap l a) :
    ∃ q ∈ l, q.1 = a ∧ k ∈ q.2 := by
  unfold lookupSnap at h
  cases hf : l.find? (·.1 == a) with
  | none => simp [hf] at h
  | some q =>
    simp only [hf] at h
    have h1 := List.mem_of_find?_eq_some hf
    have h2 := List.find?_some hf
    exact ⟨q, h1, by simpa using h2, h⟩

theorem lookupSnap_nil_of_ge {l : List (Nat × List Nat)} {a : Nat} (h : ∀ q ∈ l, q.1 < a) : lookupSnap l a = [] := by
  unfold lookupSnap
  cases hf : l.find? (·.1 == a) with
  | none => rfl
  | some q =>
    have h1 := List.mem_of_find?_eq_some hf
    have h2 : q.1 = a := by simpa using List.find?_some hf
    have := h q h1; omega

/-- frame: the entry table is unchanged, returned wait channels are unchanged, closed stays closed -/
theorem SnapLink.keep {s s' : St} {snaps : List (Nat × List Nat)} (h : SnapLink s snaps)
    (he : s'.ent = s.ent) (hw : WrOnly s s')
    (hcl : ∀ n, instClosed s n = true → instClosed s' n = true) : SnapLink s' snaps := by
  refine ⟨?_, ?_, ?_⟩
  · intro a c' p hc' hp k hk n hn
    have := hw.wr a
    rw [hc'] at this
    cases hc : s.calls[a]? with
    | none => rw [hc] at this; cases this
    | some c =>
      rw [hc] at this
      simp only [Option.map_some, Option.some.injEq] at this
      rw [he] at hn
      rcases h.s5 a c p hc (by rw [← this]; exact hp) k hk n hn with g | g
      · exact Or.inl g
      · exact Or.inr (hcl n g)
  · intro q hq; rw [hw.len]; exact h.s6 q hq
  · intro q hq k hk; rw [he]; exact h.s7 q hq k hk

theorem closed_of_ext {s s' : St} (h : InstsExt s s') (n : Nat) (hc : instClosed s n = true) :
    instClosed s' n = true := by
  unfold instClosed at hc ⊢
  cases hx : s.insts[n]? with
  | none => simp [hx] at hc
  | some x =>
    obtain ⟨y, hy, hle⟩ := h n x hx
    simp only [hx] at hc
    simp only [hy, hle.2.2.2.1]; exact hc

theorem closed_setInst (s : St) (m : Nat) (x y : Inst) (hx : s.insts[m]? = some x)
    (hst : x.st = .closed → y.st = .closed) (n : Nat) (hc : instClosed s n = true) :
    instClosed (setInst s m y) n = true := by
  unfold instClosed at hc ⊢
  by_cases hmn : m = n
  · subst hmn
    simp only [hx] at hc
    simp only [setInst, get_set_self' _ (get_lt hx)]
    have : x.st = .closed := by simpa using hc
    simp [hst this]
  · simp only [setInst, List.getElem?_set, hmn, if_false]; exact hc

theorem wrSame_setCall (S : St) (a : Nat) (c c' : Call) (hc : S.calls[a]? = some c) (hw : c'.wr = c.wr) :
    WrOnly S (setCall S a c') := by
  refine ⟨by simp [setCall], ?_⟩
  intro i
  simp only [setCall, List.getElem?_set]
  by_cases h : a = i
  · subst h; simp [get_lt hc, hw, getElem_of_get hc (get_lt hc)]
  · simp [h]

theorem SnapLink.frame {s s' : St} {snaps : List (Nat × List Nat)} (h : SnapLink s snaps)
    (he : s'.ent = s.ent) (hc : s'.calls = s.calls) (hi : s'.insts = s.insts) : SnapLink s' snaps :=
  h.keep he (WrSame.of_eq hc).toOnly (fun n hn => by unfold instClosed at hn ⊢; rw [hi]; exact hn)

/-- the critical section of a set-call: its returned channel is `last`; everything above `last` has exited -/
theorem snap_cs_api (s : St) (snaps : List (Nat × List Nat)) (h : SnapLink s snaps) (hg : Good s)
    (hl3 : ∀ (k n : Nat), s.ent[k]? = some n → n < s.insts.length)
    (cf : Cfg) (a : Nat) (c : Call) (hc : s.calls[a]? = some c) (r : St × Res × Option Nat)
    (hr : apiCS s cf c.op = some r) :
    SnapLink (setCall r.1 a { c with st := .done r.2.1, wr := r.2.2 }) snaps := by
  have hw := wrSame_apiCS s cf c.op r hr
  have hent := apiCS_ent s cf c.op r hr
  have hext := (csok_apiCS s cf c.op r hr).1
  have hlt : a < r.1.calls.length := by rw [hw.len]; exact get_lt hc
  refine ⟨?_, ?_, ?_⟩
  · intro a' c' p hc' hp k hk n hn
    have hn' : s.ent[k]? = some n := by rw [← hent]; exact hn
    have hcl : ∀ m, instClosed s m = true → instClosed (setCall r.1 a { c with st := .done r.2.1, wr := r.2.2 }) m = true :=
      fun m hm => closed_of_ext hext m hm
    by_cases haa : a = a'
    · subst haa
      simp only [setCall, get_set_self' _ hlt, Option.some.injEq] at hc'
      subst hc'
      have hlast : lastOf s = some p := apiCS_wr s cf c.op r hr p hp
      rcases Nat.lt_or_ge p n with hpn | hpn
      · right
        apply hcl
        have := hg.chain.topSome p (by simp [proj, hlast]) n hpn (by simpa [proj] using hl3 k n hn')
        rw [isClosed_proj] at this; exact this
      · exact Or.inl hpn
    · have hc'' : r.1.calls[a']? = some c' := by
        simpa [setCall, List.getElem?_set, haa] using hc'
      have := hw.wr a'
      rw [hc''] at this
      cases hc0 : s.calls[a']? with
      | none => rw [hc0] at this; cases this
      | some c0 =>
        rw [hc0] at this
        simp only [Option.map_some, Option.some.injEq] at this
        rcases h.s5 a' c0 p hc0 (by rw [← this]; exact hp) k hk n hn' with g | g
        · exact Or.inl g
        · exact Or.inr (hcl n g)
  · intro q hq; simp only [setCall, List.length_set]; rw [hw.len]; exact h.s6 q hq
  · intro q hq k hk
    show k < r.1.ent.length
    rw [hent]; exact h.s7 q hq k hk

/-- every event except `inv` keeps the snapshot relation -/
theorem snap_step (s s' : St) (e : Ev) (snaps : List (Nat × List Nat)) (h : SnapLink s snaps) (hg : Good s)
    (hl3 : ∀ (k n : Nat), s.ent[k]? = some n → n < s.insts.length)
    (hs : step s e = some s') (hninv : ∀ a op, e ≠ .inv a op) : SnapLink s' snaps := by
  cases e with
  | cfg c =>
    simp only [step, stepI] at hs
    split at hs
    · simp at hs; subst hs; exact h.frame rfl rfl rfl
    · cases hs
  | inv a op => exact absurd rfl (hninv a op)
  | cs a =>
    simp only [step, stepI] at hs
    split at hs
    · rename_i cf c hcf hc
      split at hs
      · split at hs
        · split at hs
          · rename_i rinr hop _
            simp at hs; subst hs
            have h1 : SnapLink (waitSample s rinr).1 snaps := by
              simp only [waitSample]
              exact h.keep (by simp) (WrSame.of_eq (by simp)).toOnly
                (fun n hn => by unfold instClosed at hn ⊢; simpa using hn)
            have hc1 : (waitSample s rinr).1.calls[a]? = some c := by simpa [waitSample] using hc
            exact h1.keep rfl (wrSame_setCall _ a c _ hc1 rfl) (fun n hn => hn)
          · cases hs
        · split at hs
          · cases hs
          · split at hs
            · rename_i r hr
              simp at hs; subst hs
              exact snap_cs_api s snaps h hg hl3 cf a c hc r hr
            · cases hs
      · cases hs
    · cases hs
  | ret a r =>
    simp only [step, stepI] at hs
    split at hs
    · rename_i c hc
      split at hs
      · simp at hs; subst hs; exact h.keep rfl (wrSame_setCall s a c _ hc rfl) (fun n hn => hn)
      · split at hs
        · simp at hs; subst hs; exact h.keep rfl (wrSame_setCall s a c _ hc rfl) (fun n hn => hn)
        · cases hs
    · cases hs
  | wake a =>
    simp only [step, stepI] at hs
    split at hs
    · rename_i c hc
      split at hs
      · split at hs
        · simp at hs; subst hs; exact h.keep rfl (wrSame_setCall s a c _ hc rfl) (fun n hn => hn)
        · cases hs
      · cases hs
    · cases hs
  | wctx a =>
    simp only [step, stepI] at hs
    split at hs
    · rename_i c hc
      split at hs
      · split at hs
        · simp at hs; subst hs; exact h.keep rfl (wrSame_setCall s a c _ hc rfl) (fun n hn => hn)
        · cases hs
      · cases hs
    · cases hs
  | envCancel c =>
    simp only [step, stepI] at hs
    split at hs
    · simp at hs; subst hs; exact h.frame rfl rfl rfl
    · cases hs
  | envDo c =>
    simp only [step, stepI] at hs
    split at hs
    · simp at hs; subst hs; exact h.frame rfl rfl rfl
    · cases hs
  | envCancelW a =>
    simp only [step, stepI] at hs
    split at hs
    · split at hs
      · simp at hs; subst hs; exact h.frame rfl rfl rfl
      all_goals cases hs
    · cases hs
  | envErr a e0 =>
    simp only [step, stepI] at hs
    split at hs
    · split at hs
      · simp at hs; subst hs; exact h.frame rfl rfl rfl
      all_goals cases hs
    · cases hs
  | giveUp n =>
    simp only [step, stepI] at hs
    split at hs
    · rename_i x hx
      split at hs
      · rename_i hgd
        split at hs
        · simp at hs; subst hs
          exact h.keep rfl (WrOnly.of_eq rfl) (closed_setInst s n x _ hx (by simp [hgd.1]))
        · simp at hs; subst hs
          exact h.keep rfl (WrOnly.of_eq rfl) (closed_setInst s n x _ hx (by simp [hgd.1]))
      · cases hs
    · cases hs
  | drained n =>
    simp only [step, stepI] at hs
    split at hs
    · rename_i x hx
      split at hs
      · rename_i hgd
        simp at hs; subst hs
        exact h.keep rfl (WrOnly.of_eq rfl) (closed_setInst s n x _ hx (by simp [hgd.1]))
      · cases hs
    · cases hs
  | cbin k n f arg root =>
    simp only [step, stepI] at hs
    split at hs
    · rename_i x hx
      split at hs
      · split at hs
        · rename_i hgd
          simp at hs; subst hs
          have h1 : SnapLink (setInst s n { x with st := .running }) snaps :=
            h.keep rfl (WrOnly.of_eq rfl) (closed_setInst s n x _ hx (by simp [hgd.1]))
          refine ⟨?_, h1.s6, ?_⟩
          · intro a c p hc hp k' hk' m hm
            obtain ⟨q, hq, hqa, hkq⟩ := lookupSnap_mem hk'
            have hlt := h.s7 q hq k' hkq
            have hm' : s.ent[k']? = some m := by
              have : (s.ent ++ [n])[k']? = some m := hm
              rwa [List.getElem?_append_left hlt] at this
            exact h1.s5 a c p hc hp k' hk' m hm'
          · intro q hq k' hk'
            have := h.s7 q hq k' hk'
            show k' < (s.ent ++ [n]).length
            simp; omega
        · cases hs
      · cases hs
    · cases hs
  | cbout k o =>
    simp only [step, stepI] at hs
    split at hs
    · rename_i n hn
      split at hs
      · rename_i x hx
        split at hs
        · rename_i hgd
          simp at hs; subst hs
          exact h.keep rfl (WrOnly.of_eq rfl) (closed_setInst s n x _ hx (by simp [hgd]))
        · cases hs
      · cases hs
    · cases hs
  | closeExit n =>
    simp only [step, stepI] at hs
    split at hs
    · rename_i x hx
      split at hs
      · simp at hs; subst hs
        exact h.keep rfl (WrOnly.of_eq rfl) (closed_setInst s n x _ hx (fun _ => rfl))
      · cases hs
    · cases hs
  | record n dur =>
    simp only [step, stepI] at hs
    split at hs
    · rename_i cf x _ hx
      split at hs
      · rename_i hgd
        exact h.keep (recordCS_ent s s' cf n x dur hs) (wrSame_recordCS s s' cf n x dur hs).toOnly
          (closed_of_ext (recordCS_ok s s' cf n x dur hx hgd.1 hs).1.1)
      · cases hs
    · cases hs
  | emit o =>
    simp only [step, stepI] at hs
    split at hs
    · split at hs
      · simp at hs; subst hs; exact h.frame rfl rfl rfl
      · cases hs
    · cases hs
  | fire t =>
    simp only [step, stepI] at hs
    split at hs
    · split at hs
      · simp at hs; subst hs; exact h.frame rfl rfl rfl
      · cases hs
    · cases hs
  | timerCS t =>
    simp only [step, stepI] at hs
    split at hs
    · rename_i tm htm
      split at hs
      · simp at hs; subst hs
        have hb : CSOK s { s with timers := s.timers.set t { tm with st := .dead } } := CSOK.of_eq rfl rfl
        have h0 : SnapLink { s with timers := s.timers.set t { tm with st := .dead } } snaps := h.frame rfl rfl rfl
        exact h0.keep (by simp) (wrSame_timerBody _ t tm.rid).toOnly (closed_of_ext (csok_timerBody _ t tm.rid).1)
      · cases hs
    · cases hs
  | probeCtx k b =>
    simp only [step, stepI] at hs
    split at hs
    · split at hs
      · simp at hs; subst hs; exact h
      · cases hs
    · cases hs
  | probeW a b =>
    simp only [step, stepI] at hs
    split at hs
    · split at hs
      · split at hs
        · simp at hs; subst hs; exact h
        · cases hs
      · cases hs
    · cases hs
  | quiesce p r l =>
    simp only [step] at hs
    split at hs
    · simp at hs; subst hs; exact h
    · cases hs

/-- a new call is invoked: optionally a snapshot of the executing instances is taken -/
theorem snap_inv (s : St) (snaps : List (Nat × List Nat)) (h : SnapLink s snaps) (op : Op) (run : List Nat)
    (hrun : ∀ k ∈ run, k < s.ent.length) (b : Bool) :
    SnapLink { s with calls := s.calls ++ [{ op := op }] }
      (if b then (s.calls.length, run) :: snaps else snaps) := by
  have hold : ∀ (a : Nat) (c : Call), ({ s with calls := s.calls ++ [{ op := op }] } : St).calls[a]? = some c →
      c.wr ≠ none → s.calls[a]? = some c ∧ a < s.calls.length := by
    intro a c hc hw
    by_cases hlt : a < s.calls.length
    · exact ⟨by simpa [List.getElem?_append_left hlt] using hc, hlt⟩
    · exfalso
      simp only [List.getElem?_append, hlt, if_false] at hc
      rcases Nat.lt_or_ge (a - s.calls.length) 1 with g | g
      · have : a - s.calls.length = 0 := by omega
        rw [this] at hc; simp at hc; subst hc; exact hw rfl
      · have : [({ op := op } : Call)][a - s.calls.length]? = none := List.getElem?_eq_none (by simpa using g)
        rw [this] at hc; cases hc
  cases b with
  | false =>
    refine ⟨?_, ?_, h.s7⟩
    · intro a c p hc hp k hk n hn
      obtain ⟨hc0, _⟩ := hold a c hc (by rw [hp]; simp)
      exact h.s5 a c p hc0 hp k hk n hn
    · intro q hq; have := h.s6 q hq; simp; omega
  | true =>
    refine ⟨?_, ?_, ?_⟩
    · intro a c p hc hp k hk n hn
      obtain ⟨hc0, hlt⟩ := hold a c hc (by rw [hp]; simp)
      have hk' : k ∈ lookupSnap snaps a := by
        have hne : ¬ (s.calls.length == a) = true := by simp; omega
        simpa [lookupSnap, List.find?_cons, hne] using hk
      exact h.s5 a c p hc0 hp k hk' n hn
    · intro q hq
      simp only [if_true, List.mem_cons] at hq
      rcases hq with e | e
      · subst e; simp
      · have := h.s6 q e; simp; omega
    · intro q hq k hk
      simp only [if_true, List.mem_cons] at hq
      rcases hq with e | e
      · subst e; exact hrun k hk
      · exact h.s7 q e k hk

theorem LinkA.congr {s : St} {ms ms' : C04St} (h : LinkA s ms) (e : ms'.running = ms.running) : LinkA s ms' :=
  ⟨fun k => by rw [e]; exact h.l1 k, h.l3, h.l4⟩

structure LinkB (s : St) (ms : C04St) : Prop where
  a : LinkA s ms
  b : SnapLink s ms.snaps

theorem linkB_init : LinkB {} {} := ⟨linkA_init, ⟨by intro a c p hc; simp at hc, by intro q hq; simp at hq, by intro q hq; simp at hq⟩⟩

theorem LinkA.ent_lt {s : St} {ms : C04St} (h : LinkA s ms) (k n : Nat) (hk : s.ent[k]? = some n) :
    n < s.insts.length := by
  obtain ⟨x, hx, _⟩ := h.l3 k n hk
  exact get_lt hx

theorem monC04a_snaps (ms ms' : C04St) (o : Obs) (h : monC04a.step ms o = some ms') : ms'.snaps = ms.snaps := by
  cases o <;> simp only [monC04a] at h
  case cbin k f a r =>
    split at h
    · simp at h; subst h; rfl
    · cases h
  all_goals (simp at h; subst h; rfl)

/-- one step of the model against the full C04 monitor -/
theorem linkB_step (s s' : St) (e : Ev) (ms : C04St) (hl : LinkB s ms) (hg : Good s)
    (hs : step s e = some s') (hg' : Good s') :
    match Ev.obs e with
    | none => LinkB s' ms
    | some o => ∃ ms', monC04.step ms o = some ms' ∧ LinkB s' ms' := by
  have hA := link_step s s' e ms hl.a hg.recs hs hg'
  have hl3 : ∀ (k n : Nat), s.ent[k]? = some n → n < s.insts.length := hl.a.ent_lt
  cases e with
  | cfg c =>
    have hB := snap_step s s' (.cfg c) ms.snaps hl.b hg hl3 hs (by intro a op h; cases h)
    obtain ⟨ms', h1, h2⟩ := hA
    exact ⟨ms', by rw [← h1]; rfl, h2, by rw [monC04a_snaps _ _ _ h1]; exact hB⟩
  | ret a r =>
    have hB := snap_step s s' (.ret a r) ms.snaps hl.b hg hl3 hs (by intro a op h; cases h)
    obtain ⟨ms', h1, h2⟩ := hA
    exact ⟨ms', by rw [← h1]; rfl, h2, by rw [monC04a_snaps _ _ _ h1]; exact hB⟩
  | cbin k n f arg root =>
    have hB := snap_step s s' (.cbin k n f arg root) ms.snaps hl.b hg hl3 hs (by intro a op h; cases h)
    obtain ⟨ms', h1, h2⟩ := hA
    exact ⟨ms', by rw [← h1]; rfl, h2, by rw [monC04a_snaps _ _ _ h1]; exact hB⟩
  | cbout k o =>
    have hB := snap_step s s' (.cbout k o) ms.snaps hl.b hg hl3 hs (by intro a op h; cases h)
    obtain ⟨ms', h1, h2⟩ := hA
    exact ⟨ms', by rw [← h1]; rfl, h2, by rw [monC04a_snaps _ _ _ h1]; exact hB⟩
  | envCancel c =>
    have hB := snap_step s s' (.envCancel c) ms.snaps hl.b hg hl3 hs (by intro a op h; cases h)
    obtain ⟨ms', h1, h2⟩ := hA
    exact ⟨ms', by rw [← h1]; rfl, h2, by rw [monC04a_snaps _ _ _ h1]; exact hB⟩
  | envCancelW a =>
    have hB := snap_step s s' (.envCancelW a) ms.snaps hl.b hg hl3 hs (by intro a op h; cases h)
    obtain ⟨ms', h1, h2⟩ := hA
    exact ⟨ms', by rw [← h1]; rfl, h2, by rw [monC04a_snaps _ _ _ h1]; exact hB⟩
  | envErr a e0 =>
    have hB := snap_step s s' (.envErr a e0) ms.snaps hl.b hg hl3 hs (by intro a op h; cases h)
    obtain ⟨ms', h1, h2⟩ := hA
    exact ⟨ms', by rw [← h1]; rfl, h2, by rw [monC04a_snaps _ _ _ h1]; exact hB⟩
  | probeCtx k b =>
    have hB := snap_step s s' (.probeCtx k b) ms.snaps hl.b hg hl3 hs (by intro a op h; cases h)
    obtain ⟨ms', h1, h2⟩ := hA
    exact ⟨ms', by rw [← h1]; rfl, h2, by rw [monC04a_snaps _ _ _ h1]; exact hB⟩
  | quiesce p r l =>
    have hB := snap_step s s' (.quiesce p r l) ms.snaps hl.b hg hl3 hs (by intro a op h; cases h)
    obtain ⟨ms', h1, h2⟩ := hA
    exact ⟨ms', by rw [← h1]; rfl, h2, by rw [monC04a_snaps _ _ _ h1]; exact hB⟩
  | cs a => exact ⟨hA, snap_step s s' (.cs a) ms.snaps hl.b hg hl3 hs (by intro a op h; cases h)⟩
  | wake a => exact ⟨hA, snap_step s s' (.wake a) ms.snaps hl.b hg hl3 hs (by intro a op h; cases h)⟩
  | wctx a => exact ⟨hA, snap_step s s' (.wctx a) ms.snaps hl.b hg hl3 hs (by intro a op h; cases h)⟩
  | envDo c => exact ⟨hA, snap_step s s' (.envDo c) ms.snaps hl.b hg hl3 hs (by intro a op h; cases h)⟩
  | giveUp n => exact ⟨hA, snap_step s s' (.giveUp n) ms.snaps hl.b hg hl3 hs (by intro a op h; cases h)⟩
  | drained n => exact ⟨hA, snap_step s s' (.drained n) ms.snaps hl.b hg hl3 hs (by intro a op h; cases h)⟩
  | closeExit n => exact ⟨hA, snap_step s s' (.closeExit n) ms.snaps hl.b hg hl3 hs (by intro a op h; cases h)⟩
  | record n dur => exact ⟨hA, snap_step s s' (.record n dur) ms.snaps hl.b hg hl3 hs (by intro a op h; cases h)⟩
  | fire t => exact ⟨hA, snap_step s s' (.fire t) ms.snaps hl.b hg hl3 hs (by intro a op h; cases h)⟩
  | timerCS t => exact ⟨hA, snap_step s s' (.timerCS t) ms.snaps hl.b hg hl3 hs (by intro a op h; cases h)⟩
  | inv a op =>
    obtain ⟨ms', h1, h2⟩ := hA
    have e1 : ms' = ms := by simp [monC04a, Ev.obs] at h1; exact h1.symm
    subst e1
    simp only [step, stepI] at hs
    split at hs
    · rename_i hc
      simp at hs; subst hs
      have ha : a = s.calls.length := hc.2
      subst ha
      have hrun : ∀ k ∈ ms'.running, k < s.ent.length := by
        intro k hk
        obtain ⟨n, x, hn, _⟩ := (hl.a.l1 k).1 hk
        exact get_lt hn
      refine ⟨_, rfl, h2.congr rfl, ?_⟩
      exact snap_inv s ms'.snaps hl.b op ms'.running hrun op.isSet
    · cases hs
  | emit o =>
    have hB := snap_step s s' (.emit o) ms.snaps hl.b hg hl3 hs (by intro a op h; cases h)
    have hline : o.isLine = true := by
      simp only [step, stepI] at hs
      split at hs
      · split at hs
        · rename_i hc; exact hc.2
        · cases hs
      · cases hs
    obtain ⟨ms', h1, h2⟩ := hA
    cases o <;> simp [Obs.isLine] at hline
    all_goals exact ⟨ms', by rw [← h1]; rfl, h2, by rw [monC04a_snaps _ _ _ h1]; exact hB⟩
  | probeW a b =>
    have hB := snap_step s s' (.probeW a b) ms.snaps hl.b hg hl3 hs (by intro a op h; cases h)
    obtain ⟨ms', h1, h2⟩ := hA
    have e1 : ms' = ms := by simp [monC04a, Ev.obs] at h1; exact h1.symm
    subst e1
    cases b with
    | false => exact ⟨ms', rfl, h2, hB⟩
    | true =>
      refine ⟨ms', ?_, h2, hB⟩
      -- the returned channel is closed: every snapshot instance has exited, so none of them is executing
      simp only [step, stepI] at hs
      split at hs
      · rename_i c hc
        split at hs
        · rename_i p hst hwr
          split at hs
          · rename_i hclosed
            simp at hs; subst hs
            have hall : (lookupSnap ms'.snaps a).all (fun k => !ms'.running.contains k) = true := by
              rw [List.all_eq_true]
              intro k hk
              obtain ⟨q, hq, _, hkq⟩ := lookupSnap_mem hk
              have hlt := hl.b.s7 q hq k hkq
              have hn : s.ent[k]? = some s.ent[k] := List.getElem?_eq_getElem hlt
              have hcl : instClosed s s.ent[k] = true := by
                rcases hl.b.s5 a c p hc hwr k hk _ hn with g | g
                · rcases Nat.lt_or_ge s.ent[k] p with g1 | g1
                  · have := hg.chain.down p (by rw [isClosed_proj]; exact hclosed) _ g1
                    rw [isClosed_proj] at this; exact this
                  · have : s.ent[k] = p := by omega
                    rw [this]; exact hclosed
                · exact g
              simp only [Bool.not_eq_true', List.contains_eq_mem, decide_eq_false_iff_not]
              intro hmem
              obtain ⟨n, x, h3, h4, h5⟩ := (hl.a.l1 k).1 hmem
              rw [hn] at h3; cases h3
              simp [instClosed, h4, h5] at hcl
            simp only [monC04, hall, if_true]
          · cases hs
        · cases hs
      · cases hs

theorem linkB_run (s0 s : St) (ms0 : C04St) (es : List Ev) (hg : Good s0) (hl : LinkB s0 ms0)
    (hr : model.run s0 es = some s) :
    ∃ ms, monC04.run ms0 (es.filterMap model.obs) = some ms ∧ LinkB s ms := by
  induction es generalizing s0 ms0 with
  | nil => simp [OLTS.run] at hr; subst hr; exact ⟨ms0, rfl, hl⟩
  | cons e es ih =>
    simp only [OLTS.run] at hr
    cases hst : model.step s0 e with
    | none => simp [hst] at hr
    | some s1 =>
      simp [hst] at hr
      have hk := step_ok s0 s1 e hg.recs hst
      have hg1 : Good s1 := ⟨hk.1, hk.2.inv hg.chain⟩
      have hstep := linkB_step s0 s1 e ms0 hl hg hst hg1
      cases hob : Ev.obs e with
      | none =>
        rw [hob] at hstep
        obtain ⟨ms, h1, h2⟩ := ih s1 ms0 hg1 hstep hr
        refine ⟨ms, ?_, h2⟩
        have : model.obs e = none := hob
        simpa [List.filterMap_cons, this] using h1
      | some o =>
        rw [hob] at hstep
        obtain ⟨ms1, hm1, hl1⟩ := hstep
        obtain ⟨ms, h1, h2⟩ := ih s1 ms1 hg1 hl1 hr
        refine ⟨ms, ?_, h2⟩
        have : model.obs e = some o := hob
        simp [List.filterMap_cons, this, ObsMonitor.run, hm1, h1]

end UtilModel.Routine
