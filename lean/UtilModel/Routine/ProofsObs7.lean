import UtilModel.Routine.ProofsObs6
/-!
# routine: the stored-state comparison of C05's quiescence clause (`monC05g`)

`GLink`: when the monitor holds a GetState result (`gotState = some v`: the GetState call overlapped no
SetState / SwapValue call, and none has been invoked since), `v` is the stored state of the model.
-/
namespace UtilModel.Routine
open UtilModel

theorem svSpec_isW {op : Op} {v : Nat} (h : svSpec.isW op = some v) : op.isChanger = true := by
  cases op <;> simp [svSpec] at h <;> rfl

/-- **the stored state is written by the critical sections of SetState / SwapValue only** -/
theorem step_sval (s s' : St) (e : Ev) (hs : step s e = some s') :
    s'.sval = s.sval ∨
    ∃ a c, e = .cs a ∧ s.calls[a]? = some c ∧ c.st = .invoked ∧ c.op.isChanger = true := by
  rcases step_faeq s s' e hs with ⟨h, _⟩ | ⟨_, c, _, h⟩ | ⟨a, c, cf, r, e0, hcf, hc, hinv, hr, h, _⟩
  · exact Or.inl h.sv
  · subst h; exact Or.inl rfl
  · have h1 := apiCS_sval s cf c.op r hr
    cases hW : svSpec.isW c.op with
    | none => rw [hW] at h1; exact Or.inl (h.sv.trans h1)
    | some v => exact Or.inr ⟨a, c, e0, hc, hinv, svSpec_isW hW⟩

/-- GetState reads the stored state and changes nothing -/
theorem apiCS_state (s : St) (cf : Cfg) (op : Op) (r : St × Res × Option Nat) (h : apiCS s cf op = some r)
    (v : Nat) (hv : r.2.1 = .state v) : v = s.sval ∧ r.1 = s := by
  cases op with
  | setContext c restart => simp [apiCS] at h; subst h; simp at hv
  | setRoutine f =>
    simp only [apiCS] at h
    split at h
    · cases h
    · simp at h; subst h; simp at hv
  | restart => simp [apiCS] at h; subst h; simp at hv
  | setState v' =>
    simp only [apiCS] at h
    split at h
    · cases h
    · simp at h; subst h; simp at hv
  | setStateRoutine f =>
    simp only [apiCS] at h
    split at h
    · cases h
    · simp at h; subst h; simp at hv
  | swap k =>
    simp only [apiCS] at h
    split at h
    · cases h
    · split at h
      · split at h
        · simp only [Option.some.injEq] at h; subst h; simp at hv
        · simp only [Option.some.injEq] at h; subst h; simp at hv
      · simp at h; subst h; simp at hv
  | getState =>
    simp only [apiCS] at h
    split at h
    · cases h
    · simp at h; subst h; simp at hv; exact ⟨hv.symm, rfl⟩
  | waitExited _ => simp [apiCS] at h

def G3 (s : St) (sp : List Nat) : Prop :=
  ∀ (a : Nat) (c : Call), s.calls[a]? = some c → c.op.isChanger = true → c.st ≠ .finished → a ∈ sp

def G4 (s : St) (ms : C05gSt) : Prop :=
  ∀ (a : Nat) (c : Call) (v : Nat), s.calls[a]? = some c → c.st = .done (.state v) →
    (ms.gsAt.find? (·.1 == a)).map (·.2) = some ms.sepoch → ms.spend = [] → s.sval = v

structure GLink (s : St) (ms : C05gSt) : Prop where
  cf : ∀ cf, s.cfg = some cf → ms.cfg = cf
  inf : ∀ k n, s.ent[k]? = some n → ∃ x y, s.insts[n]? = some x ∧ s.recs[x.rid]? = some y ∧
          lookupInfo ms.info k = some (y.fn, y.arg, x.root)
  g1 : ∀ v, ms.gotState = some v → s.sval = v ∧ ms.spend = []
  g3 : G3 s ms.spend
  g4 : G4 s ms
  g5 : ∀ p ∈ ms.gsAt, p.2 ≤ ms.sepoch

theorem glink_init : GLink {} {} := by
  refine ⟨?_, ?_, ?_, ?_, ?_, ?_⟩
  · intro cf h; simp at h
  · intro k n h; simp at h
  · intro v h; simp at h
  · intro a c h; simp at h
  · intro a c v h; simp at h
  · intro p h; simp at h

/-- calls other than `a0` are where they were, the stored state is unchanged -/
theorem g34_except {s s' : St} {ms : C05gSt} (h3 : G3 s ms.spend) (h4 : G4 s ms) (a0 : Nat)
    (hx : CallsExcept s s' a0) (hsv : s'.sval = s.sval)
    (k3 : ∀ c', s'.calls[a0]? = some c' → c'.op.isChanger = true → c'.st ≠ .finished → a0 ∈ ms.spend)
    (k4 : ∀ c' v, s'.calls[a0]? = some c' → c'.st = .done (.state v) →
      (ms.gsAt.find? (·.1 == a0)).map (·.2) = some ms.sepoch → ms.spend = [] → s'.sval = v) :
    G3 s' ms.spend ∧ G4 s' ms := by
  refine ⟨?_, ?_⟩
  · intro b c' hc' hop hnf
    by_cases hb : b = a0
    · subst hb; exact k3 c' hc' hop hnf
    · obtain ⟨c, hc, hrel⟩ := hx.bw b c' hb hc'
      exact h3 b c hc (by rw [← hrel.1]; exact hop) (fun h => hnf (hrel.2.2.1.2 h))
  · intro b c' v hc' hst hfind hsp
    by_cases hb : b = a0
    · subst hb; exact k4 c' v hc' hst hfind hsp
    · obtain ⟨c, hc, hrel⟩ := hx.bw b c' hb hc'
      rw [hsv]
      exact h4 b c v hc ((hrel.2.1 _).1 hst) hfind hsp

/-- the monitor's epoch moved on: no recorded GetState invocation is current any more -/
theorem g4_epoch {s : St} {ms ms' : C05gSt} (h5 : ∀ p ∈ ms.gsAt, p.2 ≤ ms.sepoch) (e1 : ms'.gsAt = ms.gsAt)
    (e2 : ms'.sepoch = ms.sepoch + 1) : G4 s ms' := by
  intro a c v _ _ hfind _
  rw [e1, e2] at hfind
  cases hf : ms.gsAt.find? (·.1 == a) with
  | none => rw [hf] at hfind; cases hfind
  | some p =>
    rw [hf] at hfind
    simp only [Option.map_some, Option.some.injEq] at hfind
    have := h5 p (List.mem_of_find?_eq_some hf)
    omega

/-- one step of the model against the stored-state monitor -/
theorem glink_step (s s' : St) (e : Ev) (ms : C05gSt) (hl : GLink s ms) (ha : AllRec s) (hc : Cur s) (hi : I1 s)
    (hk : K4 s) (hs : step s e = some s') :
    match Ev.obs e with
    | none => GLink s' ms
    | some o => ∃ ms', monC05g.step ms o = some ms' ∧ GLink s' ms' := by
  have hm := step_mono s s' e ha hs
  have hfa := step_fa s s' e hs
  have hcfg : (∀ c, e ≠ .cfg c) → ∀ cf, s'.cfg = some cf → ms.cfg = cf := by
    intro hne cf h; rw [step_cfg s s' e hs hne] at h; exact hl.cf cf h
  have hinf0 : ∀ k n, s.ent[k]? = some n → ∃ x y, s'.insts[n]? = some x ∧ s'.recs[x.rid]? = some y ∧
      lookupInfo ms.info k = some (y.fn, y.arg, x.root) := by
    intro k n hk'
    obtain ⟨x, y, hx, hy, hf⟩ := hl.inf k n hk'
    obtain ⟨x1, hx1, hr1, _⟩ := hm.old n x hx
    obtain ⟨x2, hx2, hr2⟩ := hm.rid n x hx
    rw [hx1] at hx2; cases hx2
    obtain ⟨y', hy', hfa'⟩ := hfa x.rid y hy
    simp only [fa, Prod.mk.injEq] at hfa'
    exact ⟨x1, y', hx1, by rw [hr2]; exact hy', by rw [hfa'.1, hfa'.2, hr1]; exact hf⟩
  have hinf : (∀ k n f a r, e ≠ .cbin k n f a r) → ∀ k n, s'.ent[k]? = some n → ∃ x y, s'.insts[n]? = some x ∧
      s'.recs[x.rid]? = some y ∧ lookupInfo ms.info k = some (y.fn, y.arg, x.root) := by
    intro hne k n hk'
    rw [step_ent s s' e ha hs hne] at hk'
    exact hinf0 k n hk'
  -- events that do not move a call: nothing the link looks at changes
  have hgen : e.callEv = false → (∀ c, e ≠ .cfg c) → (∀ k n f a r, e ≠ .cbin k n f a r) → GLink s' ms := by
    intro hce h1 h2
    have hw := step_wrSame s s' e hs hce
    have hsv : s'.sval = s.sval := by
      rcases step_sval s s' e hs with h | ⟨a, c, e0, _⟩
      · exact h
      · subst e0; simp [Ev.callEv] at hce
    have hx := callsExcept_of_wrSame hw s.calls.length
    have hnone : s'.calls[s.calls.length]? = none := by
      rw [← hw.len]; simp
    obtain ⟨g3, g4⟩ := g34_except hl.g3 hl.g4 s.calls.length hx hsv
      (by intro c' h; rw [hnone] at h; cases h) (by intro c' v h; rw [hnone] at h; cases h)
    exact ⟨hcfg h1, hinf h2, fun v h => by rw [hsv]; exact hl.g1 v h, g3, g4, hl.g5⟩
  cases e with
  | inv a op =>
    simp only [step, stepI] at hs
    split at hs
    · rename_i hcfg0
      simp at hs; subst hs
      have haeq : a = s.calls.length := hcfg0.2
      subst haeq
      have hget : ({ s with calls := s.calls ++ [({ op := op } : Call)] } : St).calls[s.calls.length]? =
          some ({ op := op } : Call) := by simp
      have hx : CallsExcept s { s with calls := s.calls ++ [({ op := op } : Call)] } s.calls.length := by
        refine ⟨?_, ?_⟩
        · intro b cb _ h
          exact ⟨cb, by simp only; rw [List.getElem?_append_left (get_lt h)]; exact h, CallRel.refl cb⟩
        · intro b cb' hne h
          have hlt : b < s.calls.length := by
            have := get_lt h
            simp at this; omega
          refine ⟨cb', ?_, CallRel.refl cb'⟩
          simp only at h; rw [List.getElem?_append_left hlt] at h; exact h
      have hinf' := hinf (by intro _ _ _ _ _ h; cases h)
      have hcf' := hcfg (by intro c h; cases h)
      cases hch : op.isChanger with
      | true =>
        refine ⟨{ ms with gotState := none, spend := s.calls.length :: ms.spend, sepoch := ms.sepoch + 1 },
          by simp [Ev.obs, monC05g, hch], hcf', hinf', ?_, ?_, ?_, ?_⟩
        · intro v h; cases h
        · intro b c' hc' hop hnf
          by_cases hb : b = s.calls.length
          · subst hb; exact List.mem_cons_self
          · obtain ⟨c, hc0, hrel⟩ := hx.bw b c' hb hc'
            exact List.mem_cons_of_mem _ (hl.g3 b c hc0 (by rw [← hrel.1]; exact hop) (fun h => hnf (hrel.2.2.1.2 h)))
        · exact g4_epoch hl.g5 rfl rfl
        · intro p hp; have := hl.g5 p hp; simp only; omega
      | false =>
        have k3 : ∀ c', ({ s with calls := s.calls ++ [({ op := op } : Call)] } : St).calls[s.calls.length]? = some c' →
            c'.op.isChanger = true → c'.st ≠ .finished → s.calls.length ∈ ms.spend := by
          intro c' h hop _
          rw [hget] at h; cases h
          rw [hch] at hop; cases hop
        have k4 : ∀ c' v, ({ s with calls := s.calls ++ [({ op := op } : Call)] } : St).calls[s.calls.length]? = some c' →
            c'.st = .done (.state v) → (ms.gsAt.find? (·.1 == s.calls.length)).map (·.2) = some ms.sepoch →
            ms.spend = [] → ({ s with calls := s.calls ++ [({ op := op } : Call)] } : St).sval = v := by
          intro c' v h hst
          rw [hget] at h; cases h; cases hst
        obtain ⟨g3, g4⟩ := g34_except hl.g3 hl.g4 s.calls.length hx rfl k3 k4
        have hbase : GLink { s with calls := s.calls ++ [({ op := op } : Call)] } ms :=
          ⟨hcf', hinf', hl.g1, g3, g4, hl.g5⟩
        cases op with
        | getState =>
          refine ⟨{ ms with gsAt := (s.calls.length, ms.sepoch) :: ms.gsAt }, by simp [Ev.obs, monC05g, Op.isChanger],
            hcf', hinf', hl.g1, g3, ?_, ?_⟩
          · intro b c' v hc' hst hfind hsp
            by_cases hb : b = s.calls.length
            · subst hb; rw [hget] at hc'; cases hc'; cases hst
            · have hne : ¬ (s.calls.length == b) = true := by simpa using Ne.symm hb
              simp only [List.find?_cons, hne] at hfind
              exact g4 b c' v hc' hst hfind hsp
          · intro p hp
            simp only [List.mem_cons] at hp
            rcases hp with e0 | hp
            · subst e0; exact Nat.le_refl _
            · exact hl.g5 p hp
        | setState v => simp [Op.isChanger] at hch
        | swap k => simp [Op.isChanger] at hch
        | setContext c b => exact ⟨ms, by simp [Ev.obs, monC05g, Op.isChanger], hbase⟩
        | setRoutine f => exact ⟨ms, by simp [Ev.obs, monC05g, Op.isChanger], hbase⟩
        | restart => exact ⟨ms, by simp [Ev.obs, monC05g, Op.isChanger], hbase⟩
        | setStateRoutine f => exact ⟨ms, by simp [Ev.obs, monC05g, Op.isChanger], hbase⟩
        | waitExited b => exact ⟨ms, by simp [Ev.obs, monC05g, Op.isChanger], hbase⟩
    · cases hs
  | cs a =>
    have hinf' := hinf (by intro _ _ _ _ _ h; cases h)
    have hcf' := hcfg (by intro c h; cases h)
    -- the critical section: `s' = setCall S a c''` with the other calls where they were
    have hshape : ∃ (S : St) (c c'' : Call), WrSame s S ∧ s.calls[a]? = some c ∧ c.st = .invoked ∧
        s' = setCall S a c'' ∧ c''.op = c.op ∧
        (∀ v, c''.st = .done (.state v) → v = s.sval ∧ s'.sval = s.sval) := by
      simp only [step, stepI] at hs
      split at hs
      · rename_i cf c hcf hc0
        split at hs
        · rename_i hinv
          split at hs
          · rename_i rinr hop
            split at hs
            · simp at hs
              refine ⟨(waitSample s rinr).1, c, _, WrSame.of_eq (by simp [waitSample]), hc0, hinv, hs.symm, rfl, ?_⟩
              intro v hv
              exfalso
              obtain ⟨e, he⟩ := waitSample_done s rinr _ hv
              cases he
            · cases hs
          · split at hs
            · cases hs
            · split at hs
              · rename_i r hr
                simp at hs
                refine ⟨r.1, c, _, wrSame_apiCS s cf _ r hr, hc0, hinv, hs.symm, rfl, ?_⟩
                intro v hv
                simp only [CallSt.done.injEq] at hv
                have h1 := apiCS_state s cf _ r hr v hv
                refine ⟨h1.1, ?_⟩
                rw [← hs]
                simp only [setCall]
                rw [h1.2]
              · cases hs
        · cases hs
      · cases hs
    obtain ⟨S, c, c'', hw, hc0, hinv, hs', hop, hstate⟩ := hshape
    have hx : CallsExcept s s' a := by rw [hs']; exact callsExcept_setCall hw a c''
    have hlt : a < S.calls.length := by rw [hw.len]; exact get_lt hc0
    have hget : s'.calls[a]? = some c'' := by rw [hs']; exact setCall_get (S := S) a c'' hlt
    rcases step_sval s s' (.cs a) hs with hsv | ⟨a', c', e0, hc', _, hch⟩
    · have k3 : ∀ c1, s'.calls[a]? = some c1 → c1.op.isChanger = true → c1.st ≠ .finished → a ∈ ms.spend := by
        intro c1 h hop1 _
        rw [hget] at h; cases h
        exact hl.g3 a c hc0 (by rw [← hop]; exact hop1) (by rw [hinv]; simp)
      have k4 : ∀ c1 v, s'.calls[a]? = some c1 → c1.st = .done (.state v) →
          (ms.gsAt.find? (·.1 == a)).map (·.2) = some ms.sepoch → ms.spend = [] → s'.sval = v := by
        intro c1 v h hst _ _
        rw [hget] at h; cases h
        obtain ⟨h1, h2⟩ := hstate v hst
        rw [h2]; exact h1.symm
      obtain ⟨g3, g4⟩ := g34_except hl.g3 hl.g4 a hx hsv k3 k4
      exact ⟨hcf', hinf', fun v h => by rw [hsv]; exact hl.g1 v h, g3, g4, hl.g5⟩
    · -- the critical section of a SetState / SwapValue call: it is in flight, so the monitor holds no GetState result
      cases e0
      rw [hc0] at hc'; cases hc'
      have hmem : a ∈ ms.spend := hl.g3 a c hc0 hch (by rw [hinv]; simp)
      have hne : ms.spend ≠ [] := by intro h; rw [h] at hmem; cases hmem
      refine ⟨hcf', hinf', ?_, ?_, ?_, hl.g5⟩
      · intro v h; exact absurd (hl.g1 v h).2 hne
      · intro b c1 hc1 hop1 hnf
        by_cases hb : b = a
        · subst hb; exact hmem
        · obtain ⟨c2, hc2, hrel⟩ := hx.bw b c1 hb hc1
          exact hl.g3 b c2 hc2 (by rw [← hrel.1]; exact hop1) (fun h => hnf (hrel.2.2.1.2 h))
      · intro b c1 v _ _ _ hsp; exact absurd hsp hne
  | ret a r =>
    have hinf' := hinf (by intro _ _ _ _ _ h; cases h)
    have hcf' := hcfg (by intro c h; cases h)
    have hshape : ∃ c : Call, s.calls[a]? = some c ∧ (c.st = .done r ∨ (c.st = .wcancel ∧ wxOK s a r = true)) ∧
        s' = setCall s a { c with st := .finished } := by
      simp only [step, stepI] at hs
      split at hs
      · rename_i c hc0
        split at hs
        · rename_i h; simp at hs; exact ⟨c, hc0, Or.inl h, hs.symm⟩
        · split at hs
          · rename_i h; simp at hs; exact ⟨c, hc0, Or.inr h, hs.symm⟩
          · cases hs
      · cases hs
    obtain ⟨c, hc0, hst, hs'⟩ := hshape
    subst hs'
    have hx := callsExcept_setCall (WrSame.refl s) a { c with st := .finished }
    have hget := setCall_get (S := s) a { c with st := .finished } (get_lt hc0)
    have k3 : ∀ c1, (setCall s a { c with st := .finished }).calls[a]? = some c1 → c1.op.isChanger = true →
        c1.st ≠ .finished → a ∈ ms.spend := by
      intro c1 h _ hnf
      rw [hget] at h; cases h; exact absurd rfl hnf
    have k4 : ∀ c1 v, (setCall s a { c with st := .finished }).calls[a]? = some c1 → c1.st = .done (.state v) →
        (ms.gsAt.find? (·.1 == a)).map (·.2) = some ms.sepoch → ms.spend = [] →
        (setCall s a { c with st := .finished }).sval = v := by
      intro c1 v h hst1
      rw [hget] at h; cases h; cases hst1
    obtain ⟨g3, g4⟩ := g34_except hl.g3 hl.g4 a hx rfl k3 k4
    have hbase : GLink (setCall s a { c with st := .finished }) ms := ⟨hcf', hinf', hl.g1, g3, g4, hl.g5⟩
    have g3' : G3 (setCall s a { c with st := .finished }) (ms.spend.filter (· != a)) := by
      intro b c1 hc1 hop1 hnf
      have hb : b ≠ a := by
        intro e0; subst e0; rw [hget] at hc1; cases hc1; exact hnf rfl
      simp only [List.mem_filter, bne_iff_ne, ne_eq]
      exact ⟨g3 b c1 hc1 hop1 hnf, hb⟩
    cases r with
    | setS a1 a2 a3 a4 =>
      exact ⟨{ ms with gotState := none, spend := ms.spend.filter (· != a), sepoch := ms.sepoch + 1 }, rfl,
        hcf', hinf', (by intro v h; cases h), g3', g4_epoch hl.g5 rfl rfl,
        (by intro p hp; have := hl.g5 p hp; simp only; omega)⟩
    | swapR a1 a2 a3 a4 a5 =>
      exact ⟨{ ms with gotState := none, spend := ms.spend.filter (· != a), sepoch := ms.sepoch + 1 }, rfl,
        hcf', hinf', (by intro v h; cases h), g3', g4_epoch hl.g5 rfl rfl,
        (by intro p hp; have := hl.g5 p hp; simp only; omega)⟩
    | state v =>
      refine ⟨_, rfl, hcf', hinf', ?_, g3, g4, hl.g5⟩
      intro v' h
      simp only at h
      split at h
      · rename_i hcond
        cases h
        simp only [Bool.and_eq_true, List.isEmpty_iff, beq_iff_eq] at hcond
        have hdone : c.st = .done (.state v) := by
          rcases hst with h | h
          · exact h
          · cases h.2
        exact ⟨hl.g4 a c v hc0 hdone hcond.2 hcond.1, hcond.1⟩
      · cases h
    | bool b => exact ⟨ms, rfl, hbase⟩
    | setR a1 a2 => exact ⟨ms, rfl, hbase⟩
    | setSR a1 a2 a3 => exact ⟨ms, rfl, hbase⟩
    | wx e => exact ⟨ms, rfl, hbase⟩
  | cfg c =>
    have hw := step_wrSame s s' _ hs rfl
    have hsv : s'.sval = s.sval := by
      rcases step_sval s s' _ hs with h | ⟨a, c, e0, _⟩
      · exact h
      · cases e0
    have hx := callsExcept_of_wrSame hw s.calls.length
    have hnone : s'.calls[s.calls.length]? = none := by rw [← hw.len]; simp
    obtain ⟨g3, g4⟩ := g34_except hl.g3 hl.g4 s.calls.length hx hsv
      (by intro c' h; rw [hnone] at h; cases h) (by intro c' v h; rw [hnone] at h; cases h)
    refine ⟨{ ms with cfg := c }, rfl, ?_, hinf (by intro _ _ _ _ _ h; cases h),
      fun v h => by rw [hsv]; exact hl.g1 v h, g3, g4, hl.g5⟩
    simp only [step, stepI] at hs
    split at hs
    · simp at hs; subst hs
      intro cf h; simpa using h
    · cases hs
  | cbin k n f arg root =>
    have hw := step_wrSame s s' _ hs rfl
    have hsv : s'.sval = s.sval := by
      rcases step_sval s s' _ hs with h | ⟨a, c, e0, _⟩
      · exact h
      · cases e0
    have hx := callsExcept_of_wrSame hw s.calls.length
    have hnone : s'.calls[s.calls.length]? = none := by rw [← hw.len]; simp
    obtain ⟨g3, g4⟩ := g34_except hl.g3 hl.g4 s.calls.length hx hsv
      (by intro c' h; rw [hnone] at h; cases h) (by intro c' v h; rw [hnone] at h; cases h)
    refine ⟨{ ms with info := (k, f, arg, root) :: ms.info }, rfl, hcfg (by intro c h; cases h), ?_,
      fun v h => by rw [hsv]; exact hl.g1 v h, g3, g4, hl.g5⟩
    simp only [step, stepI] at hs
    split at hs
    · rename_i x hx0
      split at hs
      · split at hs
        · rename_i r hr hg
          simp at hs; subst hs
          obtain ⟨_, _, _, hk', hf', harg, hroot⟩ := hg
          subst hk'
          intro k' n' hk''
          by_cases hlt : k' < s.ent.length
          · have hk0 : s.ent[k']? = some n' := by
              simpa [List.getElem?_append_left hlt] using hk''
            obtain ⟨x1, y1, q1, q2, q3⟩ := hinf0 k' n' hk0
            refine ⟨x1, y1, q1, q2, ?_⟩
            rw [lookupInfo_cons_ne (by omega)]; exact q3
          · have hk1 : k' = s.ent.length := by
              have := get_lt hk''
              simp at this; omega
            subst hk1
            simp at hk''; subst hk''
            refine ⟨{ x with st := .running }, r, by simp [setInst, get_lt hx0], by simpa [setInst] using hr, ?_⟩
            rw [lookupInfo_cons_self, hf', harg, hroot]
        · cases hs
      · cases hs
    · cases hs
  | quiesce p r l =>
    have hl' := hgen rfl (by intro c h; cases h) (by intro _ _ _ _ _ h; cases h)
    refine ⟨ms, ?_, hl'⟩
    simp only [step] at hs
    split at hs
    · rename_i hq
      simp at hs; subst hs
      have hlive : l = liveKs s := hq.2.2.2
      subst hlive
      cases hlk : liveKs s with
      | nil => simp [Ev.obs, monC05g]
      | cons k t =>
        cases t with
        | cons k2 t2 => simp [Ev.obs, monC05g]
        | nil =>
          simp only [Ev.obs, monC05g]
          have hkm : k ∈ liveKs s := by rw [hlk]; simp
          simp only [liveKs, List.mem_filter] at hkm
          obtain ⟨_, hlv⟩ := hkm
          cases hn : s.ent[k]? with
          | none => simp [hn] at hlv
          | some n =>
            simp only [hn] at hlv
            have hb : ctxErrOf s n = false := by simpa using hlv
            obtain ⟨x, y, hx, hy, hf⟩ := hl.inf k n hn
            have hlive : s.isCancelled x = false := by simpa [ctxErrOf, hx] using hb
            obtain ⟨_, _, r0, y0, q3, q4, _, q6⟩ := live_current hc ha hi n x hx hlive
            subst q6
            rw [hy] at q4; cases q4
            simp only [hf]
            have hok : (!ms.cfg.state || (match ms.gotState with
                                          | some v => v == y.arg
                                          | none => true)) = true := by
              cases hcfg0 : s.cfg with
              | none => have := hk.pre hcfg0; rw [q3] at this; cases this
              | some cf =>
                rw [hl.cf cf hcfg0]
                cases hstate : cf.state with
                | false => rfl
                | true =>
                  obtain ⟨_, k2, _, _⟩ := hk.lnk cf hcfg0 hstate x.rid y q3 hy
                  cases hgs : ms.gotState with
                  | none => rfl
                  | some v =>
                    have := (hl.g1 v hgs).1
                    simp [k2, this]
            simp
            intro hsm
            simp only [Bool.or_eq_true, Bool.not_eq_true'] at hok
            rcases hok with h0 | h0
            · rw [hsm] at h0; cases h0
            · exact h0
    · cases hs
  | emit o =>
    have hl' := hgen rfl (by intro c h; cases h) (by intro _ _ _ _ _ h; cases h)
    have hline : o.isLine = true := by
      simp only [step, stepI] at hs
      split at hs
      · split at hs
        · rename_i h0; exact h0.2
        · cases hs
      · cases hs
    cases o <;> simp [Obs.isLine] at hline
    all_goals exact ⟨ms, rfl, hl'⟩
  | _ =>
    have hl' := hgen rfl (by intro c h; cases h) (by intro _ _ _ _ _ h; cases h)
    first
    | exact hl'
    | exact ⟨ms, rfl, hl'⟩

theorem glink_run (s0 s : St) (ms0 : C05gSt) (es : List Ev) (ha : AllRec s0) (hc : Cur s0) (hi : I1 s0) (hk : K4 s0)
    (hl : GLink s0 ms0) (hr : model.run s0 es = some s) :
    ∃ ms, monC05g.run ms0 (es.filterMap model.obs) = some ms ∧ GLink s ms := by
  induction es generalizing s0 ms0 with
  | nil => simp [OLTS.run] at hr; subst hr; exact ⟨ms0, rfl, hl⟩
  | cons e es ih =>
    simp only [OLTS.run] at hr
    cases hst : model.step s0 e with
    | none => simp [hst] at hr
    | some s1 =>
      simp [hst] at hr
      have ha1 := (step_ok s0 s1 e ha hst).1
      have hc1 := step_cur s0 s1 e hc ha hst
      have hi1 := i1_step hi (step_mono s0 s1 e ha hst)
      have hk1 := step_k4 s0 s1 e hk hst
      have hstep := glink_step s0 s1 e ms0 hl ha hc hi hk hst
      cases hob : Ev.obs e with
      | none =>
        rw [hob] at hstep
        obtain ⟨ms, h1, h2⟩ := ih s1 ms0 ha1 hc1 hi1 hk1 hstep hr
        refine ⟨ms, ?_, h2⟩
        have : model.obs e = none := hob
        simpa [List.filterMap_cons, this] using h1
      | some o =>
        rw [hob] at hstep
        obtain ⟨ms1, hm1, hl1⟩ := hstep
        obtain ⟨ms, h1, h2⟩ := ih s1 ms1 ha1 hc1 hi1 hk1 hl1 hr
        refine ⟨ms, ?_, h2⟩
        have : model.obs e = some o := hob
        simp [List.filterMap_cons, this, ObsMonitor.run, hm1, h1]

end UtilModel.Routine
