import UtilModel.Core.Driver
import UtilModel.Routine.Model
/-! Development driver for this component only:
`lake env lean --run UtilModel/Routine/TestDriver.lean routine < hist` -/
open UtilModel

def main (args : List String) : IO UInt32 :=
  driverMain [
    mkEntry "routine" Routine.model Routine.Obs.parse []
  ] args
