import UtilModel.Core.Driver
import UtilModel.Core.DriverH
import UtilModel.Routine.Model
import UtilModel.Routine.Monitors
import UtilModel.Routine.Backoff
/-! Development driver for this component only:
`lake env lean --run UtilModel/Routine/TestDriver.lean routine < hist` -/
open UtilModel

def main (args : List String) : IO UInt32 :=
  driverMain [
    mkEntryH "routine" Routine.model Routine.Obs.parse
      [MonEntry.ofMonitor "C04" Routine.monC04,
       MonEntry.ofMonitor "C05" Routine.monC05, MonEntry.ofMonitor "C14h" Routine.monC14h, MonEntry.ofMonitor "C14" Routine.monC14, MonEntry.ofMonitor "C14w" Routine.monC14w, MonEntry.ofMonitor "C14cb" Routine.monC14cb, MonEntry.ofMonitor "C14rc" Routine.monC14rc] (cap := 20000),
    mkEntry "backoff" Routine.Backoff.model Routine.Backoff.Obs.parse [MonEntry.ofMonitor "C14bo" Routine.Backoff.monC14bo]
  ] args
