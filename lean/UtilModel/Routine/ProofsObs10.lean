import UtilModel.Routine.ProofsObs9
/-!
# routine: the exit-callback clause of monitor C14 (`monC14cb`)

`GS`: critical sections leave state, result and "final section done" flag of every instance alone (they only cancel
instances and create waiting ones). `cnt`: how many instances have returned a given result and not yet run their
final section. `CbLink`: the lines still to be logged by the running final section against the monitor's callback
group, and the multiset of unreported results.
-/
namespace UtilModel.Routine
open UtilModel

/-! ## the lines of a final section are only touched by `record` and `emit` -/

@[simp] theorem cancelInst_lockq (s : St) (n : Nat) : (cancelInst s n).lockq = s.lockq := by
  unfold cancelInst; split <;> rfl
@[simp] theorem cancelOpt_lockq (s : St) (o : Option Nat) : (cancelOpt s o).lockq = s.lockq := by
  cases o <;> simp [cancelOpt]
@[simp] theorem killTimer_lockq (s : St) (o : Option Nat) : (killTimer s o).lockq = s.lockq := by
  unfold killTimer; split
  · split
    · split <;> rfl
    · rfl
  · rfl
@[simp] theorem normCtx_lockq (s : St) : (normCtx s).lockq = s.lockq := by unfold normCtx; split <;> rfl
@[simp] theorem detachPrev_lockq (s : St) : (detachPrev s).1.lockq = s.lockq := by
  cases hr : s.routine with
  | none => simp [detachPrev, hr]
  | some r => cases hx : s.recs[r]? <;> simp [detachPrev, hr, hx]
@[simp] theorem stopRec_lockq (s : St) (r : Nat) : (stopRec s r).lockq = s.lockq := by
  unfold stopRec; split <;> simp
@[simp] theorem startRec_lockq (s : St) (r c : Nat) (w : Option Nat) (f : Bool) :
    (startRec s r c w f).lockq = s.lockq := by
  unfold startRec; split
  · rfl
  · split <;> simp
@[simp] theorem bcastNow_lockq (s : St) : s.bcastNow.lockq = s.lockq := rfl

@[simp] theorem setContextCS_lockq (s : St) (c : Nat) (r : Bool) : (setContextCS s c r).1.lockq = s.lockq := by
  simp only [setContextCS]
  split
  · rfl
  · split
    · rfl
    · split
      · rfl
      · split
        · rfl
        · split
          · rfl
          · split <;> simp

@[simp] theorem restartCS_lockq (s : St) : (restartCS s).1.lockq = s.lockq := by
  simp only [restartCS]
  split
  · simp
  · split
    · simp
    · split <;> simp

@[simp] theorem setRoutineLocked_lockq (s : St) (f arg : Nat) : (setRoutineLocked s f arg).1.lockq = s.lockq := by
  simp only [setRoutineLocked]
  split
  · split <;> simp
  · split <;> simp

@[simp] theorem setStateCS_lockq (s : St) (cmp v : Nat) : (setStateCS s cmp v).1.lockq = s.lockq := by
  simp only [setStateCS]; split <;> simp [updateStateRoutine]

theorem apiCS_lockq (s : St) (cf : Cfg) (op : Op) (r : St × Res × Option Nat) (h : apiCS s cf op = some r) :
    r.1.lockq = s.lockq := by
  cases op with
  | setContext c restart => simp [apiCS] at h; subst h; simp
  | setRoutine f =>
    simp only [apiCS] at h
    split at h
    · cases h
    · simp at h; subst h; simp
  | restart => simp [apiCS] at h; subst h; simp
  | setState v =>
    simp only [apiCS] at h
    split at h
    · cases h
    · simp at h; subst h; simp
  | setStateRoutine f =>
    simp only [apiCS] at h
    split at h
    · cases h
    · simp at h; subst h; simp [updateStateRoutine]
  | swap k =>
    simp only [apiCS] at h
    split at h
    · cases h
    · split at h
      · split at h
        · simp only [Option.some.injEq] at h; subst h; simp
        · simp only [Option.some.injEq] at h; subst h; rfl
      · simp at h; subst h; rfl
  | getState =>
    simp only [apiCS] at h
    split at h
    · cases h
    · simp at h; subst h; rfl
  | waitExited _ => simp [apiCS] at h

@[simp] theorem timerBody_lockq (s : St) (t r : Nat) : (timerBody s t r).lockq = s.lockq := by
  simp only [timerBody, bcastNow_lockq]
  split
  · split <;> simp
  · rfl


/-! ## what critical sections do to instances, as far as their final sections are concerned -/

def gI (x : Inst) : IS × Option Nat × Bool := (x.st, x.out, x.recorded)

/-- existing instances keep state, result and flag; new ones are waiting -/
def GS (s s' : St) : Prop :=
  ∃ l : List (IS × Option Nat × Bool), s'.insts.map gI = s.insts.map gI ++ l ∧ ∀ t ∈ l, t = (.waiting, none, false)

theorem GS.refl (s : St) : GS s s := ⟨[], by simp, by intro t h; cases h⟩
theorem GS.of_eq {s s' : St} (h : s'.insts = s.insts) : GS s s' := ⟨[], by simp [h], by intro t h; cases h⟩
theorem GS.trans {a b c : St} (h1 : GS a b) (h2 : GS b c) : GS a c := by
  obtain ⟨l1, e1, f1⟩ := h1
  obtain ⟨l2, e2, f2⟩ := h2
  refine ⟨l1 ++ l2, by rw [e2, e1, List.append_assoc], ?_⟩
  intro t ht
  simp only [List.mem_append] at ht
  rcases ht with h | h
  · exact f1 t h
  · exact f2 t h

theorem gs_cancelInst (s : St) (n : Nat) : GS s (cancelInst s n) := by
  unfold cancelInst
  split
  · rename_i x hx
    refine ⟨[], ?_, by intro t h; cases h⟩
    simp only [List.append_nil]
    apply List.ext_getElem?
    intro i
    simp only [List.getElem?_map, List.getElem?_set]
    by_cases h : n = i
    · subst h
      simp [get_lt hx, gI]
      rw [getElem_of_get hx (get_lt hx)]; exact ⟨rfl, rfl, rfl⟩
    · simp [h]
  · exact GS.refl s

theorem gs_cancelOpt (s : St) (o : Option Nat) : GS s (cancelOpt s o) := by
  cases o with
  | none => exact GS.refl s
  | some n => exact gs_cancelInst s n

theorem gs_stopRec (s : St) (r : Nat) : GS s (stopRec s r) := by
  unfold stopRec
  split
  · rename_i x hx
    exact (gs_cancelOpt s x.cancelOf).trans (GS.of_eq (by simp))
  · exact GS.refl s

theorem gs_startRec (s : St) (r c : Nat) (w : Option Nat) (f : Bool) : GS s (startRec s r c w f) := by
  unfold startRec
  split
  · exact GS.refl s
  · split
    · exact GS.refl s
    · refine (gs_stopRec s r).trans ⟨[(.waiting, none, false)], ?_, by intro t h; simpa using h⟩
      simp [gI]

theorem gs_normCtx (s : St) : GS s (normCtx s) := GS.of_eq (by simp)

theorem gs_detachPrev (s : St) : GS s (detachPrev s).1 := by
  cases hr : s.routine with
  | none => simp only [detachPrev, hr]; exact GS.of_eq rfl
  | some p =>
    cases hx : s.recs[p]? with
    | none => simp only [detachPrev, hr, hx]; exact GS.of_eq rfl
    | some pr =>
      simp only [detachPrev, hr, hx]
      exact (gs_cancelOpt s pr.cancelOf).trans (GS.of_eq rfl)

theorem gs_setContextCS (s : St) (c : Nat) (r : Bool) : GS s (setContextCS s c r).1 := by
  simp only [setContextCS]
  split
  · exact GS.refl s
  · split
    · exact GS.of_eq rfl
    · split
      · exact GS.of_eq rfl
      · split
        · exact GS.of_eq rfl
        · split
          · exact GS.of_eq rfl
          · have h1 : GS s { s with ctx := c } := GS.of_eq rfl
            split
            · exact (h1.trans ((gs_stopRec _ _).trans (gs_startRec _ _ _ _ _))).trans (GS.of_eq rfl)
            · exact (h1.trans (gs_stopRec _ _)).trans (GS.of_eq rfl)

theorem gs_restartCS (s : St) : GS s (restartCS s).1 := by
  simp only [restartCS]
  split
  · exact gs_normCtx s
  · split
    · exact gs_normCtx s
    · rename_i x hx
      have h1 : GS s (cancelOpt (normCtx s) x.cancelOf) := (gs_normCtx s).trans (gs_cancelOpt _ _)
      split
      · exact h1.trans (GS.of_eq rfl)
      · exact (h1.trans ((GS.of_eq (s' := { (cancelOpt (normCtx s) x.cancelOf) with
          recs := ((cancelOpt (normCtx s) x.cancelOf).recs.set _ { x with cancelOf := none }).set _
            { x with cancelOf := none, exitedCh := none } }) rfl).trans (gs_startRec _ _ _ _ _))).trans (GS.of_eq rfl)

theorem gs_setRoutineLocked (s : St) (f arg : Nat) : GS s (setRoutineLocked s f arg).1 := by
  have h0 : GS s (detachPrev (normCtx s)).1 := (gs_normCtx s).trans (gs_detachPrev _)
  simp only [setRoutineLocked]
  split
  · split
    · refine h0.trans ?_
      exact ((GS.of_eq (s' := { (detachPrev (normCtx s)).1 with
          recs := (detachPrev (normCtx s)).1.recs ++ [{ fn := f, arg := arg }],
          routine := some (detachPrev (normCtx s)).1.recs.length }) rfl).trans (gs_startRec _ _ _ _ _)).trans
        (GS.of_eq rfl)
    · exact h0.trans (GS.of_eq rfl)
  · split
    · exact h0.trans (GS.of_eq rfl)
    · exact h0.trans (GS.of_eq rfl)

theorem gs_setStateCS (s : St) (cmp v : Nat) : GS s (setStateCS s cmp v).1 := by
  simp only [setStateCS]
  split
  · simp only [updateStateRoutine]
    exact (GS.of_eq (s := s) (s' := { s with sval := v }) rfl).trans (gs_setRoutineLocked _ _ _)
  · exact GS.refl s

theorem gs_apiCS (s : St) (cf : Cfg) (op : Op) (r : St × Res × Option Nat) (h : apiCS s cf op = some r) :
    GS s r.1 := by
  cases op with
  | setContext c restart => simp [apiCS] at h; subst h; exact gs_setContextCS s c restart
  | setRoutine f =>
    simp only [apiCS] at h
    split at h
    · cases h
    · simp at h; subst h; exact gs_setRoutineLocked s f 0
  | restart => simp [apiCS] at h; subst h; exact gs_restartCS s
  | setState v =>
    simp only [apiCS] at h
    split at h
    · cases h
    · simp at h; subst h; exact gs_setStateCS s cf.cmp v
  | setStateRoutine f =>
    simp only [apiCS] at h
    split at h
    · cases h
    · simp at h; subst h
      simp only [updateStateRoutine]
      exact (GS.of_eq (s := s) (s' := { s with sfn := f }) rfl).trans (gs_setRoutineLocked _ _ _)
  | swap k =>
    simp only [apiCS] at h
    split at h
    · cases h
    · split at h
      · split at h
        · simp only [Option.some.injEq] at h; subst h; exact gs_setStateCS s cf.cmp _
        · simp only [Option.some.injEq] at h; subst h; exact GS.refl s
      · simp at h; subst h; exact GS.refl s
  | getState =>
    simp only [apiCS] at h
    split at h
    · cases h
    · simp at h; subst h; exact GS.refl s
  | waitExited _ => simp [apiCS] at h

theorem gs_timerBody (s : St) (t r : Nat) : GS s (timerBody s t r) := by
  simp only [timerBody]
  refine GS.trans ?_ (GS.of_eq (s' := St.bcastNow _) rfl)
  split
  · split
    · exact (GS.of_eq (s := s) rfl).trans (gs_startRec _ _ _ _ _)
    · exact GS.refl s
  · exact GS.refl s

/-! ## counting the results that are not yet reported -/

/-- the instance has returned `e` and its final section has not run -/
def pendE (e : Option Nat) (t : IS × Option Nat × Bool) : Bool :=
  (t.1 == .returned || t.1 == .closed) && !t.2.2 && t.2.1 == e

def cnt (e : Option Nat) (s : St) : Nat := (s.insts.map gI).countP (pendE e)

theorem cnt_gs {s s' : St} (h : GS s s') (e : Option Nat) : cnt e s' = cnt e s := by
  obtain ⟨l, hl, hw⟩ := h
  simp only [cnt, hl, List.countP_append]
  have : l.countP (pendE e) = 0 := by
    rw [List.countP_eq_zero]
    intro t ht
    rw [hw t ht]; simp [pendE]
  omega

theorem cnt_of_eq {s s' : St} (h : s'.insts = s.insts) (e : Option Nat) : cnt e s' = cnt e s := by
  simp [cnt, h]

theorem countP_set {α : Type} (p : α → Bool) (l : List α) (n : Nat) (x y : α) (hx : l[n]? = some x) :
    (l.set n y).countP p + (if p x then 1 else 0) = l.countP p + (if p y then 1 else 0) := by
  induction l generalizing n with
  | nil => simp at hx
  | cons a l ih =>
    cases n with
    | zero =>
      simp at hx; subst hx
      simp only [List.set_cons_zero, List.countP_cons]
      omega
    | succ n =>
      simp at hx
      simp only [List.set_cons_succ, List.countP_cons]
      have := ih n hx
      omega

theorem cnt_setInst (s : St) (m : Nat) (x y : Inst) (hx : s.insts[m]? = some x) (e : Option Nat) :
    cnt e (setInst s m y) + (if pendE e (gI x) then 1 else 0) = cnt e s + (if pendE e (gI y) then 1 else 0) := by
  simp only [cnt, setInst, List.map_set]
  exact countP_set (pendE e) (s.insts.map gI) m (gI x) (gI y) (by simp [hx])

theorem boLines_bo (cf : Cfg) (a b c : Bool) : ∀ o ∈ boLines cf a b c, ∃ r, o = .bo r := by
  intro o ho
  simp only [boLines] at ho
  split at ho
  · split at ho
    · simp at ho; exact ⟨_, ho⟩
    · split at ho
      · simp at ho; exact ⟨_, ho⟩
      · cases ho
  · cases ho

theorem recordCS_lockq (s s' : St) (cf : Cfg) (n : Nat) (x : Inst) (dur : Bool)
    (h : recordCS s cf n x dur = some s') :
    (∃ bs, s'.lockq = bs ++ cbLines cf x.out ∧ ∀ o ∈ bs, ∃ r, o = .bo r) ∨ s'.lockq = s.lockq := by
  simp only [recordCS] at h
  split at h
  · cases h
  · split at h
    · split at h
      · cases h
      · simp only [Option.some.injEq] at h; subst h
        exact Or.inl ⟨_, rfl, boLines_bo _ _ _ _⟩
    · split at h
      · cases h
      · simp only [Option.some.injEq] at h; subst h; exact Or.inr rfl

/-! ## the link for the exit-callback clause -/

/-- the callbacks `j, j+1, …, ncb-1` of a group with error `e` -/
def grp (ncb j : Nat) (e : Option Nat) : List Obs := ((List.range ncb).drop j).map (fun i => Obs.exitcb i e)

theorem grp_cons (ncb j : Nat) (e : Option Nat) (h : j < ncb) :
    grp ncb j e = Obs.exitcb j e :: grp ncb (j + 1) e := by
  simp only [grp]
  rw [List.drop_eq_getElem_cons (by simpa using h)]
  simp

theorem grp_full (ncb : Nat) (e : Option Nat) : grp ncb 0 e = cbLines { ncb := ncb } e := by
  simp [grp, cbLines]

theorem grp_done (ncb : Nat) (e : Option Nat) : grp ncb ncb e = [] := by
  simp [grp]

theorem grp_nil {ncb j : Nat} {e : Option Nat} (h : grp ncb j e = []) (hj : j ≤ ncb) : j = ncb := by
  simp only [grp, List.map_eq_nil_iff, List.drop_eq_nil_iff, List.length_range] at h
  omega

structure CbLink (s : St) (ms : C14cbSt) : Prop where
  cf : ∀ cf, s.cfg = some cf → ms.cfg = cf
  nl : s.cfg = none → s.lockq = [] ∧ ms.cfg.ncb = 0
  /-- only an instance that has exited has had its final section -/
  rc : ∀ (n : Nat) (x : Inst), s.insts[n]? = some x → x.recorded = true → x.st = .closed
  /-- the lines still to be logged: backoff calls, then the rest of the callback group the monitor is in; and every
  result other than context.Canceled that is still to be reported is counted in `unreported` -/
  lq : ∃ (bs : List Obs) (j : Nat) (e : Option Nat), s.lockq = bs ++ grp ms.cfg.ncb j e ∧ (∀ o ∈ bs, ∃ r, o = .bo r) ∧
        j ≤ ms.cfg.ncb ∧ ((j = 0 ∨ j = ms.cfg.ncb) → ms.cbNext = 0) ∧
        (0 < j → j < ms.cfg.ncb → bs = [] ∧ ms.cbNext = j ∧ ms.cbErr = e) ∧
        ∀ e', e' ≠ some 0 →
          cnt e' s + (if 0 < ms.cfg.ncb ∧ j = 0 ∧ e = e' then 1 else 0) ≤ ms.unreported.count e'

theorem cblink_init : CbLink {} {} := by
  refine ⟨by intro cf h; simp at h, fun _ => ⟨rfl, rfl⟩, by intro n x h; simp at h, ⟨[], 0, none, ?_, ?_, ?_, ?_, ?_, ?_⟩⟩
  · simp [grp]
  · intro o h; cases h
  · exact Nat.zero_le _
  · intro _; rfl
  · intro h; omega
  · intro e' _; simp [cnt]

/-- events that touch neither the configuration nor the pending lines, and do not add unreported results -/
theorem CbLink.keep {s s' : St} {ms : C14cbSt} (h : CbLink s ms) (h1 : s'.cfg = s.cfg) (h2 : s'.lockq = s.lockq)
    (h3 : ∀ e', e' ≠ some 0 → cnt e' s' ≤ cnt e' s)
    (h4 : ∀ (n : Nat) (x : Inst), s'.insts[n]? = some x → x.recorded = true → x.st = .closed) : CbLink s' ms := by
  refine ⟨by rw [h1]; exact h.cf, by rw [h1, h2]; exact h.nl, h4, ?_⟩
  obtain ⟨bs, j, e, g1, g2, g3, g4, g5, g6⟩ := h.lq
  refine ⟨bs, j, e, by rw [h2]; exact g1, g2, g3, g4, g5, ?_⟩
  intro e' he'
  have := g6 e' he'
  have := h3 e' he'
  omega

/-- critical sections keep the flags -/
theorem rc_gs {s s' : St} (h : GS s s')
    (hrc : ∀ (n : Nat) (x : Inst), s.insts[n]? = some x → x.recorded = true → x.st = .closed) :
    ∀ (n : Nat) (x : Inst), s'.insts[n]? = some x → x.recorded = true → x.st = .closed := by
  obtain ⟨l, hl, hw⟩ := h
  intro n x' hx' hr
  have h1 : (s'.insts.map gI)[n]? = some (gI x') := by simp [hx']
  rw [hl] at h1
  by_cases hlt : n < s.insts.length
  · rw [List.getElem?_append_left (by simpa using hlt)] at h1
    have hx : s.insts[n]? = some (s.insts[n]) := List.getElem?_eq_getElem hlt
    simp only [List.getElem?_map, hx, Option.map_some, Option.some.injEq, gI, Prod.mk.injEq] at h1
    have := hrc n _ hx (by rw [h1.2.2]; exact hr)
    rw [← h1.1]; exact this
  · rw [List.getElem?_append_right (by simpa using Nat.le_of_not_lt hlt)] at h1
    have := hw _ (List.mem_of_getElem? h1)
    simp only [gI, Prod.mk.injEq] at this
    rw [this.2.2] at hr; cases hr

theorem CbLink.keep_gs {s s' : St} {ms : C14cbSt} (h : CbLink s ms) (h1 : s'.cfg = s.cfg) (h2 : s'.lockq = s.lockq)
    (hg : GS s s') : CbLink s' ms :=
  h.keep h1 h2 (fun e' _ => Nat.le_of_eq (cnt_gs hg e')) (rc_gs hg h.rc)

theorem CbLink.keep_eq {s s' : St} {ms : C14cbSt} (h : CbLink s ms) (h1 : s'.cfg = s.cfg) (h2 : s'.lockq = s.lockq)
    (h3 : s'.insts = s.insts) : CbLink s' ms :=
  h.keep_gs h1 h2 (GS.of_eq h3)

/-- an event that rewrites one instance without adding an unreported result other than context.Canceled -/
theorem CbLink.keep_set {s : St} {ms : C14cbSt} (h : CbLink s ms) (m : Nat) (x y : Inst) (hx : s.insts[m]? = some x)
    (hp : ∀ e', e' ≠ some 0 → pendE e' (gI y) = true → pendE e' (gI x) = true)
    (hr : y.recorded = true → y.st = .closed) : CbLink (setInst s m y) ms := by
  refine h.keep rfl rfl ?_ ?_
  · intro e' he'
    have := cnt_setInst s m x y hx e'
    have := hp e' he'
    cases h1 : pendE e' (gI y) <;> cases h2 : pendE e' (gI x) <;> simp_all <;> omega
  · intro n z hz hzr
    by_cases hmn : m = n
    · subst hmn
      have : z = y := by simpa [setInst, get_lt hx] using hz.symm
      subst this; exact hr hzr
    · exact h.rc n z (by simpa [setInst, List.getElem?_set, hmn] using hz) hzr

@[simp] theorem normCtx_cfg' (s : St) : (normCtx s).cfg = s.cfg := by unfold normCtx; split <;> rfl

theorem pendE_false_of_st {e : Option Nat} {y : Inst} (h1 : y.st ≠ .returned) (h2 : y.st ≠ .closed) :
    pendE e (gI y) = false := by
  cases hst : y.st <;> simp_all [pendE, gI]

/-- one step of the model against the exit-callback monitor -/
theorem cb_step (s s' : St) (e : Ev) (ms : C14cbSt) (hl : CbLink s ms) (hs : step s e = some s') :
    match Ev.obs e with
    | none => CbLink s' ms
    | some o => ∃ ms', monC14cb.step ms o = some ms' ∧ CbLink s' ms' := by
  cases e with
  | cfg c =>
    simp only [step, stepI] at hs
    split at hs
    · rename_i hn
      simp at hs; subst hs
      obtain ⟨hq, hncb⟩ := hl.nl (by simpa using hn)
      obtain ⟨bs, j, e0, g1, g2, g3, g4, g5, g6⟩ := hl.lq
      have hj : j = 0 := by omega
      refine ⟨{ ms with cfg := c }, rfl, ?_, ?_, hl.rc, ⟨[], c.ncb, none, ?_, ?_, Nat.le_refl _, ?_, ?_, ?_⟩⟩
      · intro cf h; simpa using h
      · intro h; simp at h
      · simp [hq, grp_done]
      · intro o h; cases h
      · intro _; exact g4 (Or.inl hj)
      · intro h1 h2; exact absurd h2 (Nat.lt_irrefl _)
      · intro e' he'
        have h1 := g6 e' he'
        have h0 : (if 0 < ms.cfg.ncb ∧ j = 0 ∧ e0 = e' then 1 else 0) = 0 := by
          rw [if_neg]; intro h; omega
        rw [h0] at h1
        show cnt e' s + (if 0 < c.ncb ∧ c.ncb = 0 ∧ none = e' then 1 else 0) ≤ ms.unreported.count e'
        rw [if_neg (by intro h; omega)]
        exact h1
    · cases hs
  | inv a op =>
    simp only [step, stepI] at hs
    split at hs
    · simp at hs; subst hs; exact ⟨ms, rfl, hl.keep_eq rfl rfl rfl⟩
    · cases hs
  | cs a =>
    simp only [step, stepI] at hs
    split at hs
    · rename_i cf c hcf hc
      split at hs
      · split at hs
        · split at hs
          · simp at hs; subst hs
            exact hl.keep_eq (by simp [setCall, waitSample]) (by simp [setCall, waitSample]) (by simp [setCall, waitSample])
          · cases hs
        · split at hs
          · cases hs
          · split at hs
            · rename_i r hr
              simp at hs; subst hs
              exact hl.keep_gs (by simp [setCall, apiCS_cfg s cf _ r hr]) (by simp [setCall, apiCS_lockq s cf _ r hr])
                ((gs_apiCS s cf _ r hr).trans (GS.of_eq rfl))
            · cases hs
      · cases hs
    · cases hs
  | ret a r =>
    simp only [step, stepI] at hs
    split at hs
    · split at hs
      · simp at hs; subst hs; exact ⟨ms, rfl, hl.keep_eq rfl rfl rfl⟩
      · split at hs
        · simp at hs; subst hs; exact ⟨ms, rfl, hl.keep_eq rfl rfl rfl⟩
        · cases hs
    · cases hs
  | wake a =>
    simp only [step, stepI] at hs
    split at hs
    · split at hs
      · split at hs
        · simp at hs; subst hs; exact hl.keep_eq rfl rfl rfl
        · cases hs
      · cases hs
    · cases hs
  | wctx a =>
    simp only [step, stepI] at hs
    split at hs
    · split at hs
      · split at hs
        · simp at hs; subst hs; exact hl.keep_eq rfl rfl rfl
        · cases hs
      · cases hs
    · cases hs
  | envCancel c =>
    simp only [step, stepI] at hs
    split at hs
    · simp at hs; subst hs; exact ⟨ms, rfl, hl.keep_eq rfl rfl rfl⟩
    · cases hs
  | envDo c =>
    simp only [step, stepI] at hs
    split at hs
    · simp at hs; subst hs; exact hl.keep_eq rfl rfl rfl
    · cases hs
  | envCancelW a =>
    simp only [step, stepI] at hs
    split at hs
    · split at hs
      · simp at hs; subst hs; exact ⟨ms, rfl, hl.keep_eq rfl rfl rfl⟩
      all_goals cases hs
    · cases hs
  | envErr a e0 =>
    simp only [step, stepI] at hs
    split at hs
    · split at hs
      · simp at hs; subst hs; exact ⟨ms, rfl, hl.keep_eq rfl rfl rfl⟩
      all_goals cases hs
    · cases hs
  | giveUp m =>
    simp only [step, stepI] at hs
    split at hs
    · rename_i x hx
      split at hs
      · rename_i hgd
        have hr : ∀ y : Inst, y.recorded = x.recorded → y.recorded = true → y.st = .closed := by
          intro y h1 h2
          have := hl.rc m x hx (by rw [← h1]; exact h2)
          rw [hgd.1] at this; cases this
        split at hs
        · simp at hs; subst hs
          exact hl.keep_set m x _ hx (by intro e' _ h; rw [pendE_false_of_st (by simp) (by simp)] at h; cases h) (hr _ rfl)
        · simp at hs; subst hs
          refine hl.keep_set m x _ hx ?_ (hr _ rfl)
          intro e' he' h
          simp only [pendE, gI, Bool.and_eq_true, beq_iff_eq] at h
          exact absurd h.2.symm he'
      · cases hs
    · cases hs
  | drained m =>
    simp only [step, stepI] at hs
    split at hs
    · rename_i x hx
      split at hs
      · rename_i hgd
        simp at hs; subst hs
        refine hl.keep_set m x _ hx ?_ ?_
        · intro e' he' h
          simp only [pendE, gI, Bool.and_eq_true, beq_iff_eq] at h
          exact absurd h.2.symm he'
        · intro h2
          have := hl.rc m x hx h2
          rw [hgd.1] at this; cases this
      · cases hs
    · cases hs
  | cbin k m f arg root =>
    simp only [step, stepI] at hs
    split at hs
    · rename_i x hx
      split at hs
      · split at hs
        · rename_i hgd
          simp at hs; subst hs
          have h1 := hl.keep_set m x { x with st := .running } hx
            (by intro e' _ h; rw [pendE_false_of_st (by simp) (by simp)] at h; cases h)
            (by intro h2
                have := hl.rc m x hx h2
                rw [hgd.1] at this; cases this)
          exact ⟨ms, rfl, h1.keep_eq rfl rfl rfl⟩
        · cases hs
      · cases hs
    · cases hs
  | cbout k o =>
    simp only [step, stepI] at hs
    split at hs
    · rename_i m hm
      split at hs
      · rename_i x hx
        split at hs
        · rename_i hrun
          simp at hs; subst hs
          obtain ⟨bs, j, e0, g1, g2, g3, g4, g5, g6⟩ := hl.lq
          have hxr : x.recorded = false := by
            cases h : x.recorded with
            | false => rfl
            | true => have := hl.rc m x hx h; rw [hrun] at this; cases this
          refine ⟨{ ms with unreported := o :: ms.unreported }, rfl, hl.cf, hl.nl, ?_, ⟨bs, j, e0, g1, g2, g3, g4, g5, ?_⟩⟩
          · intro n z hz hzr
            by_cases hmn : m = n
            · subst hmn
              have : z = { x with st := .returned, out := o } := by simpa [setInst, get_lt hx] using hz.symm
              subst this; rw [hxr] at hzr; cases hzr
            · exact hl.rc n z (by simpa [setInst, List.getElem?_set, hmn] using hz) hzr
          · intro e' he'
            have h1 := cnt_setInst s m x { x with st := .returned, out := o } hx e'
            have h2 : pendE e' (gI x) = false := pendE_false_of_st (by rw [hrun]; simp) (by rw [hrun]; simp)
            have h3 := g6 e' he'
            have hy : pendE e' (gI { x with st := .returned, out := o }) = (o == e') := by simp [pendE, gI, hxr]
            rw [h2, hy] at h1
            rw [List.count_cons]
            cases hb : (o == e') <;> simp [hb] at h1 ⊢ <;> omega
        · cases hs
      · cases hs
    · cases hs
  | closeExit m =>
    simp only [step, stepI] at hs
    split at hs
    · rename_i x hx
      split at hs
      · rename_i hgd
        simp at hs; subst hs
        refine hl.keep_set m x _ hx ?_ (fun _ => rfl)
        intro e' _ h
        have hxr : x.recorded = false := by
          cases h0 : x.recorded with
          | false => rfl
          | true => have := hl.rc m x hx h0; rw [hgd] at this; cases this
        simp only [pendE, gI, Bool.and_eq_true, beq_iff_eq, Bool.not_eq_true'] at h ⊢
        exact ⟨⟨by simp [hgd], hxr⟩, h.2⟩
      · cases hs
    · cases hs
  | record n dur =>
    simp only [step, stepI] at hs
    split at hs
    · rename_i cf x hcf hx
      split at hs
      · rename_i hgd
        obtain ⟨hcl, hrec, hq⟩ := hgd
        have hins := recordCS_insts s s' cf n x dur hs
        have hcfg : s'.cfg = s.cfg := (faeq_recordCS s s' cf n x dur hs).cf
        have hmc : ms.cfg = cf := hl.cf cf hcf
        obtain ⟨bs, j, e0, g1, g2, g3, g4, g5, g6⟩ := hl.lq
        have hbs : bs = [] ∧ grp ms.cfg.ncb j e0 = [] := by
          rw [hq] at g1
          have := g1.symm
          simp only [List.append_eq_nil_iff] at this
          exact this
        have hj : j = ms.cfg.ncb := grp_nil hbs.2 g3
        have hnext : ms.cbNext = 0 := g4 (Or.inr hj)
        have hrc' : ∀ (m : Nat) (z : Inst), s'.insts[m]? = some z → z.recorded = true → z.st = .closed := by
          intro m z hz hzr
          rw [hins] at hz
          by_cases hmn : n = m
          · subst hmn
            have : z = { x with recorded := true } := by simpa [get_lt hx] using hz.symm
            subst this; exact hcl
          · exact hl.rc m z (by simpa [List.getElem?_set, hmn] using hz) hzr
        have hcnt : ∀ e', cnt e' s' + (if x.out = e' then 1 else 0) = cnt e' s := by
          intro e'
          have h1 := cnt_setInst s n x { x with recorded := true } hx e'
          have h2 : pendE e' (gI { x with recorded := true }) = false := by simp [pendE, gI]
          have h3 : pendE e' (gI x) = (x.out == e') := by simp [pendE, gI, hcl, hrec]
          have h4 : cnt e' s' = cnt e' (setInst s n { x with recorded := true }) := by
            simp [cnt, hins, setInst]
          rw [h2, h3] at h1
          rw [h4]
          by_cases hoe : x.out = e'
          · simp [hoe] at h1 ⊢; omega
          · have : (x.out == e') = false := by simpa using hoe
            simp [this, hoe] at h1 ⊢; omega
        have hold0 : ∀ e', (if 0 < ms.cfg.ncb ∧ j = 0 ∧ e0 = e' then 1 else 0) = 0 := by
          intro e'; split
          · omega
          · rfl
        rcases recordCS_lockq s s' cf n x dur hs with ⟨bs', hq', hb'⟩ | hq'
        · refine ⟨(by rw [hcfg]; exact hl.cf), (by rw [hcfg]; intro h; rw [hcf] at h; cases h), hrc',
            ⟨bs', 0, x.out, ?_, hb', Nat.zero_le _, fun _ => hnext, by intro h; omega, ?_⟩⟩
          · rw [hq', hmc]; simp [grp, cbLines]
          · intro e' he'
            have h1 := hcnt e'
            have h2 := g6 e' he'
            rw [hold0 e'] at h2
            by_cases hoe : x.out = e'
            · simp only [hoe, if_true] at h1
              split <;> omega
            · simp only [hoe, if_false] at h1
              rw [if_neg (by intro h; exact hoe h.2.2)]
              omega
        · refine ⟨(by rw [hcfg]; exact hl.cf), (by rw [hcfg]; intro h; rw [hcf] at h; cases h), hrc',
            ⟨bs, j, e0, by rw [hq']; exact g1, g2, g3, g4, g5, ?_⟩⟩
          intro e' he'
          have h1 := hcnt e'
          have h2 := g6 e' he'
          rw [hold0 e'] at h2 ⊢
          split at h1 <;> omega
      · cases hs
    · cases hs
  | emit o =>
    simp only [step, stepI] at hs
    split at hs
    · rename_i o' rest hlq
      split at hs
      · rename_i hg
        simp at hs; subst hs
        obtain ⟨ho, hline⟩ := hg
        subst ho
        obtain ⟨bs, j, e0, g1, g2, g3, g4, g5, g6⟩ := hl.lq
        rw [hlq] at g1
        cases bs with
        | cons b bs' =>
          -- a backoff line
          simp only [List.cons_append, List.cons.injEq] at g1
          obtain ⟨r, hr⟩ := g2 b (by simp)
          have hob : o = .bo r := by rw [g1.1]; exact hr
          subst hob
          refine ⟨ms, rfl, hl.cf, (fun h => by have := (hl.nl h).1; rw [hlq] at this; cases this), hl.rc, ⟨bs', j, e0, g1.2, fun o h => g2 o (by simp [h]), g3, g4, ?_, g6⟩⟩
          intro h1 h2
          have := (g5 h1 h2).1; cases this
        | nil =>
          simp only [List.nil_append] at g1
          have hjlt : j < ms.cfg.ncb := by
            rcases Nat.lt_or_ge j ms.cfg.ncb with h | h
            · exact h
            · have : j = ms.cfg.ncb := by omega
              rw [this, grp_done] at g1; cases g1
          rw [grp_cons _ _ _ hjlt] at g1
          simp only [List.cons.injEq] at g1
          obtain ⟨ho, hrest⟩ := g1
          subst ho
          have hct : ∀ (U : List (Option Nat)), (∀ e', e' ≠ some 0 → cnt e' s ≤ U.count e') →
              ∀ e', e' ≠ some 0 →
                cnt e' { s with lockq := rest } + (if 0 < ms.cfg.ncb ∧ j + 1 = 0 ∧ e0 = e' then 1 else 0) ≤ U.count e' := by
            intro U hU e' he'
            have : (if 0 < ms.cfg.ncb ∧ j + 1 = 0 ∧ e0 = e' then 1 else 0) = 0 := by
              split
              · omega
              · rfl
            rw [this]
            exact hU e' he'
          by_cases hj0 : j = 0
          · subst hj0
            have hn0 : ms.cbNext = 0 := g4 (Or.inl rfl)
            -- the first callback of a group: its error is an unreported result (or context.Canceled)
            have hstep : ∃ U, monC14cb.step ms (.exitcb 0 e0) = some { ms with cbNext := (if ms.cfg.ncb ≤ 1 then 0 else 1), cbErr := e0, unreported := U } ∧ ∀ e', e' ≠ some 0 → cnt e' s ≤ U.count e' := by
              simp only [monC14cb, if_true, hn0, bne_self_eq_false, Bool.false_eq_true, if_false, removeOne]
              by_cases hin : ms.unreported.contains e0 = true
              · simp only [hin, if_true]
                refine ⟨ms.unreported.erase e0, rfl, ?_⟩
                intro e' he'
                have := g6 e' he'
                by_cases hee : e0 = e'
                · subst hee
                  simp only [hjlt, true_and, if_true] at this
                  rw [List.count_erase_self]; omega
                · rw [List.count_erase_of_ne (Ne.symm hee)]
                  simp only [hee, and_false, if_false] at this
                  omega
              · simp only [hin, Bool.false_eq_true, if_false]
                have he0 : e0 = some 0 := by
                  apply Classical.byContradiction
                  intro hne
                  have := g6 e0 hne
                  simp only [hjlt, true_and, if_true] at this
                  have hc : ms.unreported.count e0 = 0 := by
                    rw [List.count_eq_zero]
                    intro hm; exact hin (by simpa using hm)
                  omega
                subst he0
                refine ⟨ms.unreported, by simp, ?_⟩
                intro e' he'
                have := g6 e' he'
                omega
            obtain ⟨U, hU1, hU2⟩ := hstep
            refine ⟨_, hU1, hl.cf, (fun h => by have := (hl.nl h).1; rw [hlq] at this; cases this), hl.rc, ⟨[], 1, e0, (by simpa using hrest), (by intro o h; cases h), hjlt, ?_, ?_,
              hct U hU2⟩⟩
            · intro h
              dsimp only at h ⊢
              rcases h with h | h
              · omega
              · rw [if_pos (by omega)]
            · intro _ h2
              dsimp only at h2 ⊢
              refine ⟨rfl, ?_, rfl⟩
              rw [if_neg (by omega)]
          · have hj1 : 0 < j := by omega
            obtain ⟨_, q2, q3⟩ := g5 hj1 hjlt
            refine ⟨{ ms with cbNext := if j + 1 ≥ ms.cfg.ncb then 0 else j + 1 }, ?_, hl.cf, (fun h => by have := (hl.nl h).1; rw [hlq] at this; cases this), hl.rc,
              ⟨[], j + 1, e0, (by simpa using hrest), (by intro o h; cases h), hjlt, ?_, ?_, hct ms.unreported (by
                intro e' he'
                have := g6 e' he'
                omega)⟩⟩
            · simp only [monC14cb, hj0, if_false, q2, q3, beq_self_eq_true, Bool.and_self, if_true]
            · intro h
              dsimp only at h ⊢
              rcases h with h | h
              · omega
              · rw [if_pos (by omega)]
            · intro _ h2
              dsimp only at h2 ⊢
              refine ⟨rfl, ?_, q3⟩
              rw [if_neg (by omega)]
      · cases hs
    · cases hs
  | fire t =>
    simp only [step, stepI] at hs
    split at hs
    · split at hs
      · simp at hs; subst hs; exact hl.keep_eq rfl rfl rfl
      · cases hs
    · cases hs
  | timerCS t =>
    simp only [step, stepI] at hs
    split at hs
    · rename_i tm htm
      split at hs
      · simp at hs; subst hs
        refine hl.keep_gs (by rw [(faeq_timerBody _ t tm.rid).cf]) (by simp) ?_
        exact (GS.of_eq (s := s) (s' := { s with timers := s.timers.set t { tm with st := .dead } }) rfl).trans
          (gs_timerBody _ t tm.rid)
      · cases hs
    · cases hs
  | probeCtx k b =>
    simp only [step, stepI] at hs
    split at hs
    · split at hs
      · simp at hs; subst hs; exact ⟨ms, rfl, hl.keep_eq rfl rfl rfl⟩
      · cases hs
    · cases hs
  | probeW a b =>
    simp only [step, stepI] at hs
    split at hs
    · split at hs
      · split at hs
        · simp at hs; subst hs; exact ⟨ms, rfl, hl.keep_eq rfl rfl rfl⟩
        · cases hs
      · cases hs
    · cases hs
  | quiesce p r l =>
    simp only [step] at hs
    split at hs
    · rename_i hq
      simp at hs; subst hs
      refine ⟨ms, ?_, hl⟩
      obtain ⟨bs, j, e0, g1, g2, g3, g4, g5, g6⟩ := hl.lq
      have hqe : s.lockq = [] := by
        have := hq.1
        simp only [quiescent, Bool.and_eq_true, List.isEmpty_iff] at this
        exact this.1.1.1
      rw [hqe] at g1
      have hb := g1.symm
      simp only [List.append_eq_nil_iff] at hb
      have hj := grp_nil hb.2 g3
      have := g4 (Or.inr hj)
      simp [monC14cb, this]
    · cases hs

theorem cb_run (s0 s : St) (ms0 : C14cbSt) (es : List Ev) (hl : CbLink s0 ms0) (hr : model.run s0 es = some s) :
    ∃ ms, monC14cb.run ms0 (es.filterMap model.obs) = some ms ∧ CbLink s ms := by
  induction es generalizing s0 ms0 with
  | nil => simp [OLTS.run] at hr; subst hr; exact ⟨ms0, rfl, hl⟩
  | cons e es ih =>
    simp only [OLTS.run] at hr
    cases hst : model.step s0 e with
    | none => simp [hst] at hr
    | some s1 =>
      simp [hst] at hr
      have hstep := cb_step s0 s1 e ms0 hl hst
      cases hob : Ev.obs e with
      | none =>
        rw [hob] at hstep
        obtain ⟨ms, h1, h2⟩ := ih s1 ms0 hstep hr
        refine ⟨ms, ?_, h2⟩
        have : model.obs e = none := hob
        simpa [List.filterMap_cons, this] using h1
      | some o =>
        rw [hob] at hstep
        obtain ⟨ms1, hm1, hl1⟩ := hstep
        obtain ⟨ms, h1, h2⟩ := ih s1 ms1 hl1 hr
        refine ⟨ms, ?_, h2⟩
        have : model.obs e = some o := hob
        simp [List.filterMap_cons, this, ObsMonitor.run, hm1, h1]

end UtilModel.Routine
