import UtilModel.Routine.ProofsObs10
import UtilModel.Routine.ProofsRT
/-!
# routine: the run-causes clause of monitor C14 (`monC14rc`)

`cntU`: how many instances have returned something else than context.Canceled and not yet run their final section
(an upper bound is kept by the monitor in `retd`). `RcLink`: the monitor's bookkeeping against the model. The
obligations `needCause` / `needS` mean `Dead`: the container's record has exited with that kind of result, holds no
retry timer, and every instance has exited, so nothing but a call that clears the obligation can start an instance.
-/
namespace UtilModel.Routine
open UtilModel

/-! ## counting -/

/-- returned something else than context.Canceled, final section not run -/
def pendU (t : IS × Option Nat × Bool) : Bool :=
  (t.1 == .returned || t.1 == .closed) && !t.2.2 && t.2.1 != some 0

def cntU (s : St) : Nat := (s.insts.map gI).countP pendU

theorem cntU_gs {s s' : St} (h : GS s s') : cntU s' = cntU s := by
  obtain ⟨l, hl, hw⟩ := h
  simp only [cntU, hl, List.countP_append]
  have : l.countP pendU = 0 := by
    rw [List.countP_eq_zero]
    intro t ht
    rw [hw t ht]; simp [pendU]
  omega

theorem cntU_of_eq {s s' : St} (h : s'.insts = s.insts) : cntU s' = cntU s := by simp [cntU, h]

theorem cntU_setInst (s : St) (m : Nat) (x y : Inst) (hx : s.insts[m]? = some x) :
    cntU (setInst s m y) + (if pendU (gI x) then 1 else 0) = cntU s + (if pendU (gI y) then 1 else 0) := by
  simp only [cntU, setInst, List.map_set]
  exact countP_set pendU (s.insts.map gI) m (gI x) (gI y) (by simp [hx])

theorem cntU_pos {s : St} {n : Nat} {y : Inst} (hy : s.insts[n]? = some y) (hp : pendU (gI y) = true) : 0 < cntU s := by
  simp only [cntU]
  rw [List.countP_pos_iff]
  exact ⟨gI y, List.mem_map.mpr ⟨y, List.mem_of_getElem? hy, rfl⟩, hp⟩

theorem cntU_zero {s : St} (h : cntU s = 0) {n : Nat} {y : Inst} (hy : s.insts[n]? = some y) : pendU (gI y) = false := by
  cases hp : pendU (gI y) with
  | false => rfl
  | true => have := cntU_pos hy hp; omega

/-! ## the lines of a final section -/

/-- first report line of a final section -/
def isHead (retry : Bool) : Obs → Bool
  | .bo _ => true
  | .exitcb j _ => j == 0 && !retry
  | _ => false

/-- … of an instance that has certainly entered: it returned something else than context.Canceled -/
def cntHead (retry : Bool) : Obs → Bool
  | .bo r => r == .reset
  | .exitcb j e => j == 0 && !retry && e != some 0
  | _ => false

theorem cntHead_isHead {retry : Bool} {o : Obs} (h : cntHead retry o = true) : isHead retry o = true := by
  cases o <;> simp_all [cntHead, isHead]

def pendFirst (retry : Bool) : List Obs → Nat
  | o :: _ => if cntHead retry o then 1 else 0
  | [] => 0

def LqOK (retry : Bool) : List Obs → Prop
  | [] => True
  | _ :: rest => ∀ o ∈ rest, isHead retry o = false

theorem pendFirst_le (retry : Bool) (q : List Obs) : pendFirst retry q ≤ 1 := by
  cases q with
  | nil => simp [pendFirst]
  | cons o r => simp only [pendFirst]; split <;> omega

theorem lqok_tail {retry : Bool} {o : Obs} {rest : List Obs} (h : LqOK retry (o :: rest)) :
    LqOK retry rest ∧ pendFirst retry rest = 0 := by
  cases rest with
  | nil => exact ⟨trivial, rfl⟩
  | cons o2 r2 =>
    refine ⟨fun o' ho' => h o' (List.mem_cons_of_mem _ ho'), ?_⟩
    have := h o2 (List.mem_cons_self ..)
    simp only [pendFirst]
    cases hc : cntHead retry o2 with
    | false => rfl
    | true => rw [cntHead_isHead hc] at this; cases this

/-! ## the link -/

/-- `n` is the current instance of the container's record, which has not exited -/
def CurLive (s : St) (n : Nat) : Prop :=
  ∃ r x, s.routine = some r ∧ s.recs[r]? = some x ∧ x.rctx = some n ∧ x.exited = false

/-- a pending `bo dur` / `bo stop` is the report of the container's record -/
def BQ (s : St) : Prop :=
  ∀ b rest, s.lockq = .bo b :: rest → b ≠ .reset → ∃ q x, s.routine = some q ∧ s.recs[q]? = some x ∧ x.exited = true

def AllClosed (s : St) : Prop := ∀ (n : Nat) (y : Inst), s.insts[n]? = some y → y.st = .closed

/-- the container's record has just been settled with result `e` by its current instance -/
def Done (s : St) (e : Option Nat) : Prop :=
  ∃ r x, s.routine = some r ∧ s.recs[r]? = some x ∧ x.exited = true ∧ x.exitedCh = none ∧ x.err = e ∧
    x.success = e.isNone ∧ (x.retry = none ∨ ∃ rest, s.lockq = .bo .dur :: rest) ∧
    (∀ n, x.rctx = some n → ∃ y, s.insts[n]? = some y ∧ y.recorded = true)

def PhaseA (s : St) (e : Option Nat) : Prop :=
  ∃ n y, s.insts[n]? = some y ∧ (y.st = .returned ∨ y.st = .closed) ∧ y.recorded = false ∧ y.out = e ∧ CurLive s n

def PhaseB (retry : Bool) (s : St) (e : Option Nat) : Prop :=
  (∃ o rest, s.lockq = o :: rest ∧ isHead retry o = true) ∧ Done s e

def Dead (s : St) (b : Bool) : Prop :=
  ∃ r x, s.routine = some r ∧ s.recs[r]? = some x ∧ x.retry = none ∧ x.exited = true ∧
    (if b then x.success = true else x.err ≠ none) ∧
    (∀ n, x.rctx = some n → ∃ y, s.insts[n]? = some y ∧ y.recorded = true) ∧ AllClosed s

def OnlyCtx (s : St) (b : Bool) : Prop :=
  ∀ (a : Nat) (c : Call), s.calls[a]? = some c → c.st ≠ .finished →
    c.op.quiet = true ∨ ∃ c' r, c.op = .setContext c' r ∧ (b = false → r = false)

structure RcLink (s : St) (ms : C14rcSt) : Prop where
  cf : ∀ cf, s.cfg = some cf → ms.cfg = cf
  nl : s.cfg = none → s.lockq = [] ∧ s.insts = [] ∧ s.timers = []
  cl : ∀ (a : Nat) (c : Call), s.calls[a]? = some c → c.op.quiet = false → c.st = .finished ∨ a ∈ ms.pendMut
  fr : ∀ k ∈ ms.fresh, ms.pendMut = [] ∧ ∃ n x, s.ent[k]? = some n ∧ s.insts[n]? = some x ∧ x.st = .running
  ok : ∀ k ∈ ms.ok, ms.pendMut = [] ∧ ∃ n x, s.ent[k]? = some n ∧ s.insts[n]? = some x ∧ x.st = .running ∧ CurLive s n
  /-- only an instance that has exited has had its final section; one that has exited and not had it has a record -/
  fl : ∀ (n : Nat) (x : Inst), s.insts[n]? = some x → (x.recorded = true → x.st = .closed) ∧
        (x.st = .closed → x.recorded = false → ∃ r, s.recs[x.rid]? = some r)
  le : ∀ e, ms.lastExit = some e → ms.pendMut = [] ∧ (ms.cfg.retry = true ∨ ms.cfg.ncb ≠ 0) ∧
        (PhaseA s e ∨ PhaseB ms.cfg.retry s e)
  rd : cntU s + pendFirst ms.cfg.retry s.lockq ≤ ms.retd
  lq : LqOK ms.cfg.retry s.lockq
  bq : BQ s
  nc : ms.needCause = true → Dead s false ∧ OnlyCtx s false
  ns : ms.needS = true → Dead s true ∧ OnlyCtx s true

theorem rclink_init : RcLink {} {} := by
  refine ⟨?_, fun _ => ⟨rfl, rfl, rfl⟩, ?_, ?_, ?_, ?_, ?_, ?_, trivial, ?_, ?_, ?_⟩
  · intro cf h; simp at h
  · intro a c h; simp at h
  · intro k h; cases h
  · intro k h; cases h
  · intro n x h; simp at h
  · intro e h; cases h
  · simp [cntU, pendFirst]
  · intro b rest h; cases h
  · intro h; cases h
  · intro h; cases h

/-! ## frames -/

theorem CurLive.frame {s s' : St} {n : Nat} (h : CurLive s n) (h1 : s'.routine = s.routine) (h2 : s'.recs = s.recs) :
    CurLive s' n := by
  obtain ⟨r, x, g1, g2, g3, g4⟩ := h
  exact ⟨r, x, by rw [h1]; exact g1, by rw [h2]; exact g2, g3, g4⟩

theorem BQ.frame {s s' : St} (h : BQ s) (h1 : s'.routine = s.routine) (h2 : s'.recs = s.recs) (h3 : s'.lockq = s.lockq) :
    BQ s' := by
  intro b rest hq hb
  obtain ⟨q, x, g1, g2, g3⟩ := h b rest (by rw [← h3]; exact hq) hb
  exact ⟨q, x, by rw [h1]; exact g1, by rw [h2]; exact g2, g3⟩

theorem Done.frame {s s' : St} {e : Option Nat} (h : Done s e) (h1 : s'.routine = s.routine) (h2 : s'.recs = s.recs)
    (h3 : s'.lockq = s.lockq) (h4 : s'.insts = s.insts) : Done s' e := by
  obtain ⟨r, x, g1, g2, g3, g4, g5, g6, g7, g8⟩ := h
  refine ⟨r, x, by rw [h1]; exact g1, by rw [h2]; exact g2, g3, g4, g5, g6, ?_, ?_⟩
  · rw [h3]; exact g7
  · rw [h4]; exact g8

theorem PhaseA.frame {s s' : St} {e : Option Nat} (h : PhaseA s e) (h1 : s'.routine = s.routine) (h2 : s'.recs = s.recs)
    (h4 : s'.insts = s.insts) : PhaseA s' e := by
  obtain ⟨n, y, g1, g2, g3, g4, g5⟩ := h
  exact ⟨n, y, by rw [h4]; exact g1, g2, g3, g4, g5.frame h1 h2⟩

theorem PhaseB.frame {retry : Bool} {s s' : St} {e : Option Nat} (h : PhaseB retry s e) (h1 : s'.routine = s.routine)
    (h2 : s'.recs = s.recs) (h3 : s'.lockq = s.lockq) (h4 : s'.insts = s.insts) : PhaseB retry s' e := by
  refine ⟨?_, h.2.frame h1 h2 h3 h4⟩
  rw [h3]; exact h.1

theorem Dead.frame {s s' : St} {b : Bool} (h : Dead s b) (h1 : s'.routine = s.routine) (h2 : s'.recs = s.recs)
    (h4 : s'.insts = s.insts) : Dead s' b := by
  obtain ⟨r, x, g1, g2, g3, g4, g5, g6, g7⟩ := h
  refine ⟨r, x, by rw [h1]; exact g1, by rw [h2]; exact g2, g3, g4, g5, ?_, ?_⟩
  · rw [h4]; exact g6
  · intro n y hy; rw [h4] at hy; exact g7 n y hy

theorem OnlyCtx.of_callsOK {s s' : St} {b : Bool} (h : OnlyCtx s b) (hc : CallsOK s s') : OnlyCtx s' b := by
  intro a c' hc' hnf
  obtain ⟨c, g1, g2, g3⟩ := hc a c' hc'
  rw [← g2]
  exact h a c g1 (fun hf => hnf (g3 hf))

/-- events that leave configuration, instances, records, the container's routine, pending lines and entries alone -/
theorem RcLink.frame {s s' : St} {ms : C14rcSt} (h : RcLink s ms) (h1 : s'.cfg = s.cfg) (h2 : s'.insts = s.insts)
    (h3 : s'.recs = s.recs) (h4 : s'.routine = s.routine) (h5 : s'.lockq = s.lockq) (h6 : s'.ent = s.ent)
    (h7 : s.cfg = none → s'.timers = []) (h8 : CallsOK s s') : RcLink s' ms := by
  refine ⟨by rw [h1]; exact h.cf, ?_, ?_, ?_, ?_, ?_, ?_, ?_, by rw [h5]; exact h.lq, h.bq.frame h4 h3 h5, ?_, ?_⟩
  · intro hn; rw [h1] at hn
    obtain ⟨a, b, _⟩ := h.nl hn
    exact ⟨by rw [h5]; exact a, by rw [h2]; exact b, h7 hn⟩
  · intro a c' hc' hq
    obtain ⟨c, g1, g2, g3⟩ := h8 a c' hc'
    rcases h.cl a c g1 (by rw [g2]; exact hq) with e | e
    · exact Or.inl (g3 e)
    · exact Or.inr e
  · intro k hk
    obtain ⟨a, n, x, b1, b2, b3⟩ := h.fr k hk
    exact ⟨a, n, x, by rw [h6]; exact b1, by rw [h2]; exact b2, b3⟩
  · intro k hk
    obtain ⟨a, n, x, b1, b2, b3, b4⟩ := h.ok k hk
    exact ⟨a, n, x, by rw [h6]; exact b1, by rw [h2]; exact b2, b3, b4.frame h4 h3⟩
  · intro n x hx
    rw [h2] at hx; rw [h3]; exact h.fl n x hx
  · intro e he
    obtain ⟨a, a', b⟩ := h.le e he
    refine ⟨a, a', ?_⟩
    rcases b with b | b
    · exact Or.inl (b.frame h4 h3 h2)
    · exact Or.inr (b.frame h4 h3 h5 h2)
  · rw [h5, cntU_of_eq h2]; exact h.rd
  · intro hn
    obtain ⟨a, b⟩ := h.nc hn
    exact ⟨a.frame h4 h3 h2, b.of_callsOK h8⟩
  · intro hn
    obtain ⟨a, b⟩ := h.ns hn
    exact ⟨a.frame h4 h3 h2, b.of_callsOK h8⟩

/-! ## helpers -/

theorem allClosed_of_last {s : St} (hg : Good s) (h : lastOf s = none) : AllClosed s := by
  intro n y hy
  have := hg.chain.topNone (by simpa [proj] using h) n (by simpa [proj] using get_lt hy)
  rw [isClosed_proj] at this
  simpa [instClosed, hy] using this

theorem curLive_of_cur {s : St} {n : Nat} {x : Inst} (ha : AllRec s) (h : curInst s = some n) (hx : s.insts[n]? = some x)
    (hr : x.st ≠ .closed) : CurLive s n := by
  cases hrt : s.routine with
  | none => rw [(curInst_none hrt).1] at h; cases h
  | some r =>
    cases hrec : s.recs[r]? with
    | none => simp [curInst, curRec, hrt, hrec] at h
    | some xr =>
      rw [(curInst_of hrt hrec).1] at h
      refine ⟨r, xr, hrt, hrec, h, ?_⟩
      cases hex : xr.exited with
      | false => rfl
      | true =>
        obtain ⟨y, hy, hyc⟩ := (ha r xr hrec).kx (Or.inr hex) n h
        rw [hx] at hy; cases hy; exact absurd hyc hr

theorem CurLive.rid {s : St} {n : Nat} {x : Inst} (ha : AllRec s) (h : CurLive s n) (hx : s.insts[n]? = some x) :
    ∃ xr, s.routine = some x.rid ∧ s.recs[x.rid]? = some xr ∧ xr.rctx = some n ∧ xr.exited = false := by
  obtain ⟨r, xr, g1, g2, g3, g4⟩ := h
  obtain ⟨y, hy, hyr⟩ := (ha r xr g2).k5 n g3
  rw [hx] at hy; cases hy
  exact ⟨xr, by rw [hyr]; exact g1, by rw [hyr]; exact g2, g3, g4⟩

theorem gs_get {s s' : St} (h : GS s s') {n : Nat} {x' : Inst} (hx' : s'.insts[n]? = some x') :
    (∃ x, s.insts[n]? = some x ∧ gI x' = gI x) ∨ (s.insts.length ≤ n ∧ gI x' = (.waiting, none, false)) := by
  obtain ⟨l, hl, hw⟩ := h
  have h1 : (s'.insts.map gI)[n]? = some (gI x') := by simp [hx']
  rw [hl] at h1
  by_cases hlt : n < s.insts.length
  · left
    rw [List.getElem?_append_left (by simpa using hlt)] at h1
    have hx : s.insts[n]? = some (s.insts[n]) := List.getElem?_eq_getElem hlt
    simp only [List.getElem?_map, hx, Option.map_some, Option.some.injEq] at h1
    exact ⟨_, hx, h1.symm⟩
  · right
    rw [List.getElem?_append_right (by simpa using Nat.le_of_not_lt hlt)] at h1
    exact ⟨Nat.le_of_not_lt hlt, hw _ (List.mem_of_getElem? h1)⟩

theorem cbLines_tail (cf : Cfg) (e : Option Nat) (retry : Bool) :
    ∀ o ∈ (cbLines cf e).tail, isHead retry o = false := by
  intro o ho
  simp only [cbLines] at ho
  rw [← List.map_tail] at ho
  obtain ⟨j, hj, rfl⟩ := List.mem_map.mp ho
  have : j ≠ 0 := by
    cases hn : cf.ncb with
    | zero => simp [hn] at hj
    | succ m =>
      rw [hn, List.range_succ_eq_map] at hj
      simp at hj
      obtain ⟨a, _, rfl⟩ := hj; omega
  simp [isHead, this]

theorem cbLines_all_retry (cf : Cfg) (e : Option Nat) : ∀ o ∈ cbLines cf e, isHead true o = false := by
  intro o ho
  simp only [cbLines] at ho
  obtain ⟨j, _, rfl⟩ := List.mem_map.mp ho
  simp [isHead]

theorem lqok_of_tail {retry : Bool} {q : List Obs} (h : ∀ o ∈ q.tail, isHead retry o = false) : LqOK retry q := by
  cases q with
  | nil => trivial
  | cons a r => exact h

theorem cbLines_head (cf : Cfg) (e : Option Nat) :
    cbLines cf e = [] ∨ ∃ rest, cbLines cf e = .exitcb 0 e :: rest := by
  simp only [cbLines]
  cases hn : cf.ncb with
  | zero => left; simp
  | succ m => right; rw [List.range_succ_eq_map]; exact ⟨_, rfl⟩

theorem cbLines_ne (cf : Cfg) (e : Option Nat) (h : cf.ncb ≠ 0) : ∃ rest, cbLines cf e = .exitcb 0 e :: rest := by
  rcases cbLines_head cf e with g | g
  · simp only [cbLines, List.map_eq_nil_iff, List.range_eq_nil] at g; exact absurd g h
  · exact g

theorem lqok_record (cf : Cfg) (succ isCur dur : Bool) (e : Option Nat) :
    LqOK cf.retry (boLines cf succ isCur dur ++ cbLines cf e) := by
  apply lqok_of_tail
  cases hr : cf.retry with
  | false => simp only [boLines, hr, Bool.false_eq_true, if_false, List.nil_append]; exact cbLines_tail cf e false
  | true =>
    simp only [boLines, hr, if_true]
    split
    · simpa using cbLines_all_retry cf e
    · split
      · simpa using cbLines_all_retry cf e
      · simp only [List.nil_append]; exact cbLines_tail cf e true

/-- a counted first line belongs to an instance that returned something else than context.Canceled -/
theorem pf_record (cf : Cfg) (succ isCur dur : Bool) (e : Option Nat) (hs : succ = e.isNone)
    (h : pendFirst cf.retry (boLines cf succ isCur dur ++ cbLines cf e) = 1) : e ≠ some 0 := by
  cases hr : cf.retry with
  | false =>
    rw [hr] at h
    simp only [boLines, hr, Bool.false_eq_true, if_false, List.nil_append] at h
    rcases cbLines_head cf e with g | ⟨rest, g⟩
    · rw [g] at h; simp [pendFirst] at h
    · rw [g] at h
      simp only [pendFirst, cntHead] at h
      intro he; subst he; simp at h
  | true =>
    rw [hr] at h
    simp only [boLines, hr, if_true] at h
    cases succ with
    | true =>
      intro he; subst he; simp at hs
    | false =>
      cases isCur with
      | true => cases dur <;> simp [pendFirst, cntHead] at h
      | false =>
        simp only [Bool.false_eq_true, if_false, List.nil_append] at h
        rcases cbLines_head cf e with g | ⟨rest, g⟩
        · rw [g] at h; simp [pendFirst] at h
        · rw [g] at h; simp [pendFirst, cntHead] at h

/-- the final section of the container's current instance reports, if anything is configured to report to -/
theorem head_record (cf : Cfg) (succ dur : Bool) (e : Option Nat) (h : cf.retry = true ∨ cf.ncb ≠ 0) :
    ∃ o rest, boLines cf succ true dur ++ cbLines cf e = o :: rest ∧ isHead cf.retry o = true := by
  cases hr : cf.retry with
  | true =>
    simp only [boLines, hr, if_true]
    cases succ with
    | true => exact ⟨_, _, rfl, rfl⟩
    | false => exact ⟨_, _, rfl, rfl⟩
  | false =>
    have hn : cf.ncb ≠ 0 := by
      rcases h with h | h
      · rw [hr] at h; cases h
      · exact h
    obtain ⟨rest, g⟩ := cbLines_ne cf e hn
    simp only [boLines, hr, Bool.false_eq_true, if_false, List.nil_append, g]
    exact ⟨_, _, rfl, by simp [isHead]⟩

theorem bo_record (cf : Cfg) (succ isCur dur : Bool) (e : Option Nat) (b : BoRes) (rest : List Obs)
    (h : boLines cf succ isCur dur ++ cbLines cf e = .bo b :: rest) (hb : b ≠ .reset) :
    cf.retry = true ∧ succ = false ∧ isCur = true ∧ (dur = true → b = .dur) ∧ (dur = false → b = .stop) := by
  cases hr : cf.retry with
  | false =>
    simp only [boLines, hr, Bool.false_eq_true, if_false, List.nil_append] at h
    rcases cbLines_head cf e with g | ⟨r2, g⟩
    · rw [g] at h; cases h
    · rw [g] at h; cases h
  | true =>
    simp only [boLines, hr, if_true] at h
    cases succ with
    | true => simp at h; exact absurd h.1.symm hb
    | false =>
      cases isCur with
      | true =>
        cases dur with
        | true => simp at h; exact ⟨rfl, rfl, rfl, fun _ => h.1.symm, fun h => (by cases h)⟩
        | false => simp at h; exact ⟨rfl, rfl, rfl, fun h => (by cases h), fun _ => h.1.symm⟩
      | false =>
        simp only [Bool.false_eq_true, if_false, List.nil_append] at h
        rcases cbLines_head cf e with g | ⟨r2, g⟩
        · rw [g] at h; cases h
        · rw [g] at h; cases h

/-! ## events that move one instance -/

theorem setInst_get (s : St) (m : Nat) (x y : Inst) (hx : s.insts[m]? = some x) (n : Nat) :
    (setInst s m y).insts[n]? = if m = n then some y else s.insts[n]? := by
  simp only [setInst, List.getElem?_set]
  by_cases h : m = n
  · subst h; simp [get_lt hx]
  · simp [h]

/-- an instance that has not returned moves on (gives up, drains, enters): nothing the link looks at changes -/
theorem RcLink.setInst_idle {s : St} {ms : C14rcSt} (h : RcLink s ms) (m : Nat) (x y : Inst)
    (hx : s.insts[m]? = some x) (h1 : x.st = .waiting ∨ x.st = .draining) (h2 : y.recorded = x.recorded)
    (h3 : y.st ≠ .closed) (h4 : pendU (gI y) = false) : RcLink (setInst s m y) ms := by
  have hne : ∀ (n : Nat) (z : Inst), s.insts[n]? = some z → (z.st = .running ∨ z.st = .returned ∨ z.st = .closed) → m ≠ n := by
    intro n z hz hst hmn
    subst hmn; rw [hx] at hz; cases hz
    rcases h1 with h1 | h1 <;> rcases hst with g | g | g <;> rw [h1] at g <;> cases g
  have hget : ∀ (n : Nat) (z : Inst), s.insts[n]? = some z → (z.st = .running ∨ z.st = .returned ∨ z.st = .closed) →
      (setInst s m y).insts[n]? = some z := by
    intro n z hz hst
    rw [setInst_get s m x y hx, if_neg (hne n z hz hst)]; exact hz
  have hxr : x.recorded = false := by
    cases hr : x.recorded with
    | false => rfl
    | true =>
      have := (h.fl m x hx).1 hr
      rcases h1 with h1 | h1 <;> rw [h1] at this <;> cases this
  have hrec : ∀ (n : Nat) (z : Inst), s.insts[n]? = some z → z.recorded = true → (setInst s m y).insts[n]? = some z :=
    fun n z hz hr => hget n z hz (Or.inr (Or.inr ((h.fl n z hz).1 hr)))
  have hdead : ∀ b, Dead s b → False := by
    intro b hd
    obtain ⟨_, _, _, _, _, _, _, _, hac⟩ := hd
    have := hac m x hx
    rcases h1 with h1 | h1 <;> rw [h1] at this <;> cases this
  refine ⟨h.cf, ?_, h.cl, ?_, ?_, ?_, ?_, ?_, h.lq, h.bq.frame rfl rfl rfl, ?_, ?_⟩
  · intro hn
    obtain ⟨_, b, _⟩ := h.nl hn
    rw [b] at hx; simp at hx
  · intro k hk
    obtain ⟨a, n, z, b1, b2, b3⟩ := h.fr k hk
    exact ⟨a, n, z, b1, hget n z b2 (Or.inl b3), b3⟩
  · intro k hk
    obtain ⟨a, n, z, b1, b2, b3, b4⟩ := h.ok k hk
    exact ⟨a, n, z, b1, hget n z b2 (Or.inl b3), b3, b4.frame rfl rfl⟩
  · intro n z hz
    rw [setInst_get s m x y hx] at hz
    by_cases hmn : m = n
    · rw [if_pos hmn] at hz; cases hz
      refine ⟨fun hr => ?_, fun hc => absurd hc h3⟩
      rw [h2, hxr] at hr; cases hr
    · rw [if_neg hmn] at hz; exact h.fl n z hz
  · intro e he
    obtain ⟨a, a', b⟩ := h.le e he
    refine ⟨a, a', ?_⟩
    rcases b with ⟨n, z, b1, b2, b3, b4, b5⟩ | ⟨b1, r, xr, c1, c2, c3, c4, c5, c6, c7, c8⟩
    · exact Or.inl ⟨n, z, hget n z b1 (Or.inr b2), b2, b3, b4, b5.frame rfl rfl⟩
    · refine Or.inr ⟨b1, r, xr, c1, c2, c3, c4, c5, c6, c7, ?_⟩
      intro n hn
      obtain ⟨z, hz, hzr⟩ := c8 n hn
      exact ⟨z, hrec n z hz hzr, hzr⟩
  · have := cntU_setInst s m x y hx
    have hpx : pendU (gI x) = false := by
      rcases h1 with h1 | h1 <;> simp [pendU, gI, h1]
    rw [hpx, h4] at this
    have hrd := h.rd
    simp only [Bool.false_eq_true, if_false, Nat.add_zero] at this
    show cntU (setInst s m y) + pendFirst ms.cfg.retry s.lockq ≤ ms.retd
    omega
  · intro hn; exact (hdead _ (h.nc hn).1).elim
  · intro hn; exact (hdead _ (h.ns hn).1).elim

theorem RcLink.ent_append {s : St} {ms : C14rcSt} (h : RcLink s ms) (n : Nat) :
    RcLink { s with ent := s.ent ++ [n] } ms := by
  have hent : ∀ (k m : Nat), s.ent[k]? = some m → (s.ent ++ [n])[k]? = some m := by
    intro k m hk; rw [List.getElem?_append_left (get_lt hk)]; exact hk
  refine ⟨h.cf, h.nl, h.cl, ?_, ?_, h.fl, h.le, h.rd, h.lq, h.bq, h.nc, h.ns⟩
  · intro k hk
    obtain ⟨a, m, z, b1, b2, b3⟩ := h.fr k hk
    exact ⟨a, m, z, hent k m b1, b2, b3⟩
  · intro k hk
    obtain ⟨a, m, z, b1, b2, b3, b4⟩ := h.ok k hk
    exact ⟨a, m, z, hent k m b1, b2, b3, b4⟩

theorem RcLink.ret {s : St} {ms : C14rcSt} (h : RcLink s ms) (a : Nat) (c : Call) (hc : s.calls[a]? = some c)
    (hf : c.st = .finished) : RcLink s { ms with pendMut := ms.pendMut.filter (· != a) } := by
  refine ⟨h.cf, h.nl, ?_, ?_, ?_, h.fl, ?_, h.rd, h.lq, h.bq, h.nc, h.ns⟩
  · intro a' c' hc' hq
    by_cases haa : a' = a
    · subst haa; rw [hc] at hc'; cases hc'; exact Or.inl hf
    · rcases h.cl a' c' hc' hq with e | e
      · exact Or.inl e
      · right; simp only [List.mem_filter]; exact ⟨e, by simpa using haa⟩
  · intro k hk
    obtain ⟨b0, b⟩ := h.fr k hk
    exact ⟨by show ms.pendMut.filter _ = []; rw [b0]; rfl, b⟩
  · intro k hk
    obtain ⟨b0, b⟩ := h.ok k hk
    exact ⟨by show ms.pendMut.filter _ = []; rw [b0]; rfl, b⟩
  · intro e he
    obtain ⟨b0, b⟩ := h.le e he
    exact ⟨by show ms.pendMut.filter _ = []; rw [b0]; rfl, b⟩

/-! ## critical sections -/

/-- a critical section, while no instance is tracked as current and no exit awaits its report -/
theorem RcLink.cs_generic {s s' : St} {ms : C14rcSt} (h : RcLink s ms) (hok : ms.ok = []) (hle : ms.lastExit = none)
    (hgs : GS s s') (hext : InstsExt s s') (hfa : RecsFa s s') (hq : s'.lockq = s.lockq) (hcf : s'.cfg = s.cfg)
    (hent : s'.ent = s.ent) (hcalls : CallsOK s s') (hbq : BQ s') (hcn : s.cfg ≠ none)
    (hnc : ms.needCause = true → Dead s' false) (hns : ms.needS = true → Dead s' true) : RcLink s' ms := by
  refine ⟨by rw [hcf]; exact h.cf, ?_, ?_, ?_, ?_, ?_, ?_, ?_, by rw [hq]; exact h.lq, hbq, ?_, ?_⟩
  · intro hn; rw [hcf] at hn; exact absurd hn hcn
  · intro a c' hc' hqq
    obtain ⟨c, g1, g2, g3⟩ := hcalls a c' hc'
    rcases h.cl a c g1 (by rw [g2]; exact hqq) with e | e
    · exact Or.inl (g3 e)
    · exact Or.inr e
  · intro k hk
    obtain ⟨a, n, x, b1, b2, b3⟩ := h.fr k hk
    obtain ⟨y', hy', hle'⟩ := hext n x b2
    exact ⟨a, n, y', by rw [hent]; exact b1, hy', by rw [hle'.2.2.2.1]; exact b3⟩
  · intro k hk; rw [hok] at hk; cases hk
  · intro n x' hx'
    rcases gs_get hgs hx' with ⟨x, hx, hg⟩ | ⟨_, hg⟩
    · simp only [gI, Prod.mk.injEq] at hg
      obtain ⟨g1, _, g3⟩ := hg
      obtain ⟨f1, f2⟩ := h.fl n x hx
      refine ⟨fun hr => by rw [g1]; exact f1 (by rw [← g3]; exact hr), ?_⟩
      intro hc hr
      obtain ⟨r, hrr⟩ := f2 (by rw [← g1]; exact hc) (by rw [← g3]; exact hr)
      obtain ⟨y', hy', hle'⟩ := hext n x hx
      rw [hx'] at hy'; cases hy'
      obtain ⟨r', hr', _⟩ := hfa x.rid r hrr
      exact ⟨r', by rw [hle'.1]; exact hr'⟩
    · simp only [gI, Prod.mk.injEq] at hg
      refine ⟨fun hr => ?_, fun hc => ?_⟩
      · rw [hg.2.2] at hr; cases hr
      · rw [hg.1] at hc; cases hc
  · intro e he; rw [hle] at he; cases he
  · rw [hq, cntU_gs hgs]; exact h.rd
  · intro hn; exact ⟨hnc hn, (h.nc hn).2.of_callsOK hcalls⟩
  · intro hn; exact ⟨hns hn, (h.ns hn).2.of_callsOK hcalls⟩

/-- a call that does not take the container's lock changes nothing -/
theorem apiCS_nolock (s : St) (cf : Cfg) (op : Op) (r : St × Res × Option Nat) (h : apiCS s cf op = some r)
    (hn : needsLock s cf.cmp op = false) : r.1 = s := by
  cases op with
  | setContext c restart => simp [needsLock] at hn
  | setRoutine f => simp [needsLock] at hn
  | restart => simp [needsLock] at hn
  | setStateRoutine f => simp [needsLock] at hn
  | waitExited _ => simp [apiCS] at h
  | getState =>
    simp only [apiCS] at h
    split at h
    · cases h
    · simp at h; subst h; rfl
  | setState v =>
    simp only [needsLock] at hn
    simp only [apiCS] at h
    split at h
    · cases h
    · simp only [Option.some.injEq] at h; subst h
      simp [setStateCS, hn]
  | swap k =>
    cases k with
    | none => simp [needsLock] at hn
    | some k =>
      simp only [needsLock, Bool.or_eq_false_iff, beq_eq_false_iff_ne, ne_eq] at hn
      simp only [apiCS] at h
      split at h
      · cases h
      · split at h
        · simp only [Option.some.injEq] at h; subst h
          simp [setStateCS, hn.2]
        · simp at h; subst h; rfl

/-- SetContext on a record that has exited for good (success, or an error with restart = false, no retry pending)
stops it and starts nothing -/
theorem setContextCS_dead (s : St) (c : Nat) (restart b : Bool) (hd : Dead s b) (hb : b = false → restart = false) :
    Dead (setContextCS s c restart).1 b := by
  obtain ⟨r, x, g1, g2, g3, g4, g5, g6, g7⟩ := hd
  have hstop : Dead (stopRec { s with ctx := c } r).bcastNow b := by
    have hx' : (stopRec { s with ctx := c } r).recs[r]? = some x.stopped := by
      simp [stopRec_recs_get, g2]
    refine ⟨r, x.stopped, by simp [St.bcastNow, g1], hx', rfl, g4, ?_, ?_, ?_⟩
    · cases b <;> simpa [Rec.stopped] using g5
    · intro n hn; simp [Rec.stopped] at hn
    · intro n y hy
      have hy' : (stopRec { s with ctx := c } r).insts[n]? = some y := hy
      obtain ⟨l, hl, _⟩ := gs_stopRec { s with ctx := c } r
      have hlen : (stopRec { s with ctx := c } r).insts.length = s.insts.length := by simp
      have h1 : ((stopRec { s with ctx := c } r).insts.map gI)[n]? = some (gI y) := by simp [hy']
      have hnlt : n < s.insts.length := by rw [← hlen]; exact get_lt hy'
      rw [hl, List.getElem?_append_left (by simpa using hnlt)] at h1
      have hz : s.insts[n]? = some (s.insts[n]) := List.getElem?_eq_getElem hnlt
      have hz' : ({ s with ctx := c } : St).insts[n]? = some (s.insts[n]) := hz
      simp only [List.getElem?_map, hz', Option.map_some, Option.some.injEq, gI, Prod.mk.injEq] at h1
      rw [← h1.1]; exact g7 n _ hz
  simp only [setContextCS]
  split
  · exact ⟨r, x, g1, g2, g3, g4, g5, g6, g7⟩
  · split
    · rename_i hrt; rw [g1] at hrt; cases hrt
    · rename_i r' hrt
      rw [g1] at hrt; cases hrt
      split
      · rename_i hrc; rw [g2] at hrc; cases hrc
      · rename_i x' hrc
        rw [g2] at hrc; cases hrc
        split
        · exact Dead.frame ⟨r, x, g1, g2, g3, g4, g5, g6, g7⟩ rfl rfl rfl
        · split
          · rename_i h3
            simp [g3] at h3
          · have hnostart : (if (x.err.isNone || restart) && c != 0
                then startRec (stopRec { s with ctx := c } r) r c x.exitedCh false else stopRec { s with ctx := c } r) =
                stopRec { s with ctx := c } r := by
              split
              · rename_i hcond
                cases b with
                | true =>
                  simp only [if_true] at g5
                  have hx' : (stopRec { s with ctx := c } r).recs[r]? = some x.stopped := by
                    simp [stopRec_recs_get, g2]
                  simp [startRec, hx', startSkips, Rec.stopped, g5]
                | false =>
                  simp only [Bool.false_eq_true, if_false] at g5
                  have := hb rfl
                  subst this
                  cases he : x.err with
                  | none => exact absurd he g5
                  | some e0 => simp [he] at hcond
              · rfl
            rw [hnostart]; exact hstop

/-! ## API calls -/

theorem get_append_one {α : Type} (l : List α) (x c : α) (a : Nat) (h : (l ++ [x])[a]? = some c) :
    l[a]? = some c ∨ (a = l.length ∧ c = x) := by
  by_cases hlt : a < l.length
  · left; rwa [List.getElem?_append_left hlt] at h
  · right
    rw [List.getElem?_append_right (Nat.le_of_not_lt hlt)] at h
    cases hk : a - l.length with
    | zero => simp [hk] at h; exact ⟨by omega, h.symm⟩
    | succ m => simp [hk] at h

theorem RcLink.inv_quiet {s : St} {ms : C14rcSt} (h : RcLink s ms) (op : Op) (hq : op.quiet = true) :
    RcLink { s with calls := s.calls ++ [{ op := op }] } ms := by
  have hoc : ∀ b, OnlyCtx s b → OnlyCtx { s with calls := s.calls ++ [{ op := op }] } b := by
    intro b ho a c hc hnf
    rcases get_append_one _ _ _ _ hc with g | ⟨_, g⟩
    · exact ho a c g hnf
    · subst g; exact Or.inl hq
  refine ⟨h.cf, h.nl, ?_, h.fr, h.ok, h.fl, h.le, h.rd, h.lq, h.bq, ?_, ?_⟩
  · intro a c hc hqq
    rcases get_append_one _ _ _ _ hc with g | ⟨_, g⟩
    · exact h.cl a c g hqq
    · subst g; rw [hq] at hqq; cases hqq
  · intro hn; exact ⟨(h.nc hn).1, hoc _ (h.nc hn).2⟩
  · intro hn; exact ⟨(h.ns hn).1, hoc _ (h.ns hn).2⟩

theorem RcLink.inv_mut {s : St} {ms : C14rcSt} (h : RcLink s ms) (op : Op) (nC nS : Bool)
    (h1 : nC = true → ms.needCause = true ∧ ∃ c', op = .setContext c' false)
    (h2 : nS = true → ms.needS = true ∧ ∃ c' r, op = .setContext c' r) :
    RcLink { s with calls := s.calls ++ [{ op := op }] }
      { ms with fresh := [], ok := [], pendMut := s.calls.length :: ms.pendMut, lastExit := none, needCause := nC, needS := nS } := by
  refine ⟨h.cf, h.nl, ?_, ?_, ?_, h.fl, ?_, h.rd, h.lq, h.bq, ?_, ?_⟩
  · intro a c hc hqq
    rcases get_append_one _ _ _ _ hc with g | ⟨g, _⟩
    · rcases h.cl a c g hqq with e | e
      · exact Or.inl e
      · exact Or.inr (List.mem_cons_of_mem _ e)
    · subst g; exact Or.inr (List.mem_cons_self ..)
  · intro k hk; cases hk
  · intro k hk; cases hk
  · intro e he; cases he
  · intro hn
    obtain ⟨g1, c', g2⟩ := h1 hn
    refine ⟨(h.nc g1).1, ?_⟩
    intro a c hc hnf
    rcases get_append_one _ _ _ _ hc with g | ⟨_, g⟩
    · exact (h.nc g1).2 a c g hnf
    · subst g; exact Or.inr ⟨c', false, g2, fun _ => rfl⟩
  · intro hn
    obtain ⟨g1, c', r, g2⟩ := h2 hn
    refine ⟨(h.ns g1).1, ?_⟩
    intro a c hc hnf
    rcases get_append_one _ _ _ _ hc with g | ⟨_, g⟩
    · exact (h.ns g1).2 a c g hnf
    · subst g; exact Or.inr ⟨c', r, g2, fun h => by cases h⟩

theorem RcLink.nomut {s : St} {ms : C14rcSt} (h : RcLink s ms) (a : Nat) (ha : a ∈ ms.pendMut) :
    ms.ok = [] ∧ ms.lastExit = none := by
  refine ⟨?_, ?_⟩
  · rw [List.eq_nil_iff_forall_not_mem]
    intro k hk
    rw [(h.ok k hk).1] at ha; cases ha
  · cases hle : ms.lastExit with
    | none => rfl
    | some e => rw [(h.le e hle).1] at ha; cases ha

theorem RcLink.add_fresh {s : St} {ms : C14rcSt} (h : RcLink s ms) (k : Nat)
    (hk : ∃ n x, s.ent[k]? = some n ∧ s.insts[n]? = some x ∧ x.st = .running) :
    RcLink s { ms with fresh := if ms.pendMut.isEmpty then k :: ms.fresh else ms.fresh } := by
  refine ⟨h.cf, h.nl, h.cl, ?_, h.ok, h.fl, h.le, h.rd, h.lq, h.bq, h.nc, h.ns⟩
  intro k' hk'
  by_cases hpe : ms.pendMut.isEmpty = true
  · simp only [hpe, if_true, List.mem_cons] at hk'
    rcases hk' with g | g
    · subst g; exact ⟨by simpa using hpe, hk⟩
    · exact h.fr k' g
  · simp only [hpe, Bool.false_eq_true, if_false] at hk'
    exact h.fr k' hk'

theorem RcLink.sub {s : St} {ms : C14rcSt} (h : RcLink s ms) (f o : List Nat) (hf : ∀ k ∈ f, k ∈ ms.fresh)
    (ho : ∀ k ∈ o, k ∈ ms.ok) : RcLink s { ms with fresh := f, ok := o } :=
  ⟨h.cf, h.nl, h.cl, fun k hk => h.fr k (hf k hk), fun k hk => h.ok k (ho k hk), h.fl, h.le, h.rd, h.lq, h.bq, h.nc, h.ns⟩

theorem RcLink.promote {s : St} {ms : C14rcSt} (h : RcLink s ms) (f : List Nat) (k : Nat) (hf : ∀ k ∈ f, k ∈ ms.fresh)
    (hk : ms.pendMut = [] ∧ ∃ n x, s.ent[k]? = some n ∧ s.insts[n]? = some x ∧ x.st = .running ∧ CurLive s n) :
    RcLink s { ms with fresh := f, ok := k :: ms.ok } := by
  refine ⟨h.cf, h.nl, h.cl, fun k hk => h.fr k (hf k hk), ?_, h.fl, h.le, h.rd, h.lq, h.bq, h.nc, h.ns⟩
  intro k' hk'
  simp only [List.mem_cons] at hk'
  rcases hk' with g | g
  · subst g; exact hk
  · exact h.ok k' g

theorem RcLink.quiesce {s : St} {ms : C14rcSt} (h : RcLink s ms) (h0 : cntU s = 0) (hq : s.lockq = []) :
    RcLink s { ms with retd := 0, lastExit := none } := by
  refine ⟨h.cf, h.nl, h.cl, h.fr, h.ok, h.fl, ?_, ?_, h.lq, h.bq, h.nc, h.ns⟩
  · intro e he; cases he
  · show cntU s + pendFirst ms.cfg.retry s.lockq ≤ 0
    rw [h0, hq]; simp [pendFirst]

theorem recordCS_false_some (s : St) (cf : Cfg) (n : Nat) (x : Inst) (r : Rec) (hr : s.recs[x.rid]? = some r) :
    (recordCS s cf n x false).isSome = true := by
  simp only [recordCS, hr]
  split <;> simp

theorem dead_not_closed {s : St} {b : Bool} (h : Dead s b) {n : Nat} {x : Inst} (hx : s.insts[n]? = some x)
    (hne : x.st ≠ .closed) : False := by
  obtain ⟨_, _, _, _, _, _, _, _, hac⟩ := h
  exact hne (hac n x hx)

/-- the report that is being logged is the one `lastExit` waits for: the container's record is settled -/
theorem credit_done {s : St} {ms : C14rcSt} (hl : RcLink s ms) (hg : Good s) (e : Option Nat)
    (hle : ms.lastExit = some e) (hno : PhaseA s e → False) (hnd : ∀ rest', s.lockq ≠ .bo .dur :: rest') (b : Bool)
    (hb : if b then e = none else e ≠ none) : Dead s b ∧ OnlyCtx s b := by
  obtain ⟨hpm, _, hAB⟩ := hl.le e hle
  rcases hAB with hA | ⟨_, r, x, c1, c2, c3, c4, c5, c6, c7, c8⟩
  · exact (hno hA).elim
  · refine ⟨⟨r, x, c1, c2, ?_, c3, ?_, c8, allClosed_of_last hg (by rw [lastOf_of c1 c2]; exact c4)⟩, ?_⟩
    · rcases c7 with g | ⟨rest', g⟩
      · exact g
      · exact absurd g (hnd rest')
    · cases b with
      | true => simp only [if_true] at hb ⊢; rw [c6, hb]; rfl
      | false => simp only [Bool.false_eq_true, if_false] at hb ⊢; rw [c5]; exact hb
    · intro a c hc hnf
      by_cases hqo : c.op.quiet = true
      · exact Or.inl hqo
      · rcases hl.cl a c hc (by simpa using hqo) with g | g
        · exact absurd g hnf
        · rw [hpm] at g; cases g

theorem phaseA_counted {s : St} {e : Option Nat} (h : PhaseA s e) (he : e ≠ some 0) : 0 < cntU s := by
  obtain ⟨n, y, hy, hst, hrec, hout, _⟩ := h
  apply cntU_pos hy
  simp only [pendU, gI, hrec, hout, Bool.and_eq_true, Bool.or_eq_true, beq_iff_eq, Bool.not_false, bne_iff_ne, ne_eq, and_true]
  exact ⟨hst, he⟩

/-- the real final section -/
theorem recordCS_real (s s' : St) (cf : Cfg) (n : Nat) (x : Inst) (dur : Bool) (r : Rec)
    (h : recordCS s cf n x dur = some s') (hr : s.recs[x.rid]? = some r) (hrc : r.rctx = some n) :
    ∃ rt, s'.recs = s.recs.set x.rid { r with err := x.out, success := x.out.isNone, exited := true, exitedCh := none, retry := rt } ∧
      (rt = none ∨ (cf.retry = true ∧ dur = true) ∨ (cf.retry = false ∧ rt = r.retry)) ∧
      (dur = true → cf.retry = true ∧ x.out.isNone = false ∧ s.routine = some x.rid) ∧
      s'.lockq = boLines cf x.out.isNone (s.routine == some x.rid) dur ++ cbLines cf x.out := by
  simp only [recordCS, hr, hrc, if_true] at h
  split at h
  · cases h
  · rename_i hguard
    simp only [Option.some.injEq] at h; subst h
    refine ⟨(if cf.retry then (if dur then some (if cf.retry then killTimer (setInst s n { x with recorded := true }) r.retry
        else setInst s n { x with recorded := true }).timers.length else none) else r.retry), ?_, ?_, ?_, ?_⟩
    · cases hrt : cf.retry <;> simp [St.bcastNow, setInst, hrc]
    · cases hrt : cf.retry with
      | false => right; right; simp
      | true =>
        cases dur with
        | true => right; left; exact ⟨rfl, rfl⟩
        | false => left; simp
    · intro hd
      subst hd
      cases h1 : cf.retry with
      | false => simp [h1] at hguard
      | true =>
        cases h2 : x.out.isNone with
        | true => simp [h1, h2] at hguard
        | false =>
          cases h3 : (s.routine == some x.rid) with
          | false => simp [h1, h2, h3] at hguard
          | true => exact ⟨rfl, rfl, by simpa using h3⟩
    · simp only [St.bcastNow]

theorem recordCS_noop (s s' : St) (cf : Cfg) (n : Nat) (x : Inst) (dur : Bool) (r : Rec)
    (h : recordCS s cf n x dur = some s') (hr : s.recs[x.rid]? = some r) (hrc : r.rctx ≠ some n) :
    s'.recs = s.recs ∧ s'.lockq = s.lockq := by
  simp only [recordCS, hr, hrc, if_false] at h
  split at h
  · cases h
  · simp only [Option.some.injEq] at h; subst h; exact ⟨rfl, rfl⟩

/-! ## the step -/

theorem rc_step (s s' : St) (e : Ev) (ms : C14rcSt) (hl : RcLink s ms) (hg : Good s) (hc : Cur s) (hq : AllQ s)
    (hs : step s e = some s') :
    match Ev.obs e with
    | none => RcLink s' ms
    | some o => ∃ ms', monC14rc.step ms o = some ms' ∧ RcLink s' ms' := by
  have ha : AllRec s := hg.recs
  cases e with
  | cfg c =>
    simp only [step, stepI] at hs
    split at hs
    · rename_i hn
      simp at hs; subst hs
      have hnn : s.cfg = none := by simpa using hn
      obtain ⟨q0, i0, t0⟩ := hl.nl hnn
      refine ⟨{ ms with cfg := c }, rfl, ?_, ?_, hl.cl, hl.fr, ?_, hl.fl, ?_, ?_, ?_, hl.bq.frame rfl rfl rfl, ?_, ?_⟩
      · intro cf h; simpa using h
      · intro h; simp at h
      · intro k hk
        obtain ⟨a, n, x, b1, b2, b3, b4⟩ := hl.ok k hk
        exact ⟨a, n, x, b1, b2, b3, b4.frame rfl rfl⟩
      · intro e he
        obtain ⟨a, _, b⟩ := hl.le e he
        rcases b with ⟨n, y, b1, _⟩ | ⟨⟨o, rest, b1, _⟩, _⟩
        · rw [i0] at b1; simp at b1
        · rw [q0] at b1; cases b1
      · have := hl.rd
        rw [q0] at this
        show cntU s + pendFirst c.retry s.lockq ≤ ms.retd
        rw [q0]; simpa [pendFirst] using this
      · show LqOK c.retry s.lockq
        rw [q0]; trivial
      · intro hn; exact ⟨(hl.nc hn).1.frame rfl rfl rfl, (hl.nc hn).2⟩
      · intro hn; exact ⟨(hl.ns hn).1.frame rfl rfl rfl, (hl.ns hn).2⟩
    · cases hs
  | inv a op =>
    simp only [step, stepI] at hs
    split at hs
    · rename_i hgd
      simp at hs; subst hs
      obtain ⟨_, haa⟩ := hgd; subst haa
      cases op with
      | getState => exact ⟨ms, rfl, hl.inv_quiet _ rfl⟩
      | waitExited r => exact ⟨ms, rfl, hl.inv_quiet _ rfl⟩
      | setContext c r =>
        refine ⟨_, rfl, hl.inv_mut _ (if r then false else ms.needCause) ms.needS ?_ ?_⟩
        · intro h
          cases r with
          | true => simp at h
          | false => exact ⟨by simpa using h, c, rfl⟩
        · intro h; exact ⟨h, c, r, rfl⟩
      | restart => exact ⟨_, rfl, hl.inv_mut _ false false (fun h => by cases h) (fun h => by cases h)⟩
      | setRoutine f => exact ⟨_, rfl, hl.inv_mut _ false false (fun h => by cases h) (fun h => by cases h)⟩
      | setState v => exact ⟨_, rfl, hl.inv_mut _ false false (fun h => by cases h) (fun h => by cases h)⟩
      | setStateRoutine f => exact ⟨_, rfl, hl.inv_mut _ false false (fun h => by cases h) (fun h => by cases h)⟩
      | swap k => exact ⟨_, rfl, hl.inv_mut _ false false (fun h => by cases h) (fun h => by cases h)⟩
    · cases hs
  | cs a =>
    have hs0 := hs
    simp only [step, stepI] at hs
    split at hs
    · rename_i cf c hcf hcc
      have hcn : s.cfg ≠ none := by rw [hcf]; simp
      split at hs
      · rename_i hinv
        have hnf : c.st ≠ .finished := by rw [hinv]; simp
        split at hs
        · split at hs
          · rename_i rinr _ _
            simp at hs; subst hs
            refine hl.frame (by simp [setCall, waitSample]) (by simp [setCall, waitSample]) (by simp [setCall, waitSample])
              (by simp [setCall, waitSample]) (by simp [setCall, waitSample]) (by simp [setCall, waitSample])
              (fun h => absurd h hcn) ?_
            exact (CallsOK.of_eq (s' := (waitSample s rinr).1) (by simp [waitSample])).trans
              (callsOK_setCall _ a c _ (by simpa [waitSample] using hcc) rfl (fun h => absurd h hnf))
          · cases hs
        · split at hs
          · cases hs
          · rename_i hlock
            split at hs
            · rename_i r hr
              simp at hs; subst hs
              have hcalls : CallsOK s (setCall r.1 a { c with st := .done r.2.1, wr := r.2.2 }) :=
                (step_keep s _ (.cs a) ha hs0 rfl).calls
              by_cases hqo : c.op.quiet = true
              · have hrs := apiCS_quiet s cf _ r hr hqo
                exact hl.frame (by simp [setCall, hrs]) (by simp [setCall, hrs]) (by simp [setCall, hrs])
                  (by simp [setCall, hrs]) (by simp [setCall, hrs]) (by simp [setCall, hrs])
                  (fun h => absurd h hcn) hcalls
              · have hqo' : c.op.quiet = false := by simpa using hqo
                have hpm : a ∈ ms.pendMut := by
                  rcases hl.cl a c hcc hqo' with g | g
                  · exact absurd g hnf
                  · exact g
                obtain ⟨hok, hle⟩ := hl.nomut a hpm
                have hbq : BQ (setCall r.1 a { c with st := .done r.2.1, wr := r.2.2 }) := by
                  by_cases hqe : s.lockq = []
                  · intro b rest hb _
                    have : (setCall r.1 a { c with st := .done r.2.1, wr := r.2.2 }).lockq = [] := by
                      simp [setCall, apiCS_lockq s cf _ r hr, hqe]
                    rw [this] at hb; cases hb
                  · have hnl : needsLock s cf.cmp c.op = false := by
                      cases hnl : needsLock s cf.cmp c.op with
                      | false => rfl
                      | true =>
                        exfalso; apply hlock
                        simp only [hnl, Bool.true_and, Bool.not_eq_true', List.isEmpty_eq_false_iff]
                        exact hqe
                    have hrs := apiCS_nolock s cf _ r hr hnl
                    exact hl.bq.frame (by simp [setCall, hrs]) (by simp [setCall, hrs]) (by simp [setCall, hrs])
                have hdead : ∀ b, Dead s b → OnlyCtx s b →
                    Dead (setCall r.1 a { c with st := .done r.2.1, wr := r.2.2 }) b := by
                  intro b hd ho
                  rcases ho a c hcc hnf with g | ⟨c', rr, g, gb⟩
                  · exact absurd g hqo
                  · rw [g] at hr
                    simp [apiCS] at hr; subst hr
                    exact (setContextCS_dead s c' rr b hd gb).frame rfl rfl rfl
                exact hl.cs_generic hok hle ((gs_apiCS s cf _ r hr).trans (GS.of_eq rfl))
                  ((csok_apiCS s cf _ r hr).1.trans (InstsExt.of_eq rfl))
                  ((apiCS_fa s cf _ r hr).trans (RecsFa.of_eq rfl))
                  (by simp [setCall, apiCS_lockq s cf _ r hr]) (by simp [setCall, apiCS_cfg s cf _ r hr])
                  (by simp [setCall, apiCS_ent s cf _ r hr]) hcalls hbq hcn
                  (fun hn => hdead _ (hl.nc hn).1 (hl.nc hn).2) (fun hn => hdead _ (hl.ns hn).1 (hl.ns hn).2)
            · cases hs
      · cases hs
    · cases hs
  | ret a r =>
    simp only [step, stepI] at hs
    split at hs
    · rename_i c hcc
      have key : RcLink (setCall s a { c with st := .finished }) { ms with pendMut := ms.pendMut.filter (· != a) } := by
        have h1 : RcLink (setCall s a { c with st := .finished }) ms :=
          hl.frame rfl rfl rfl rfl rfl rfl (fun h => (hl.nl h).2.2)
            (callsOK_setCall s a c _ hcc rfl (fun _ => rfl))
        exact h1.ret a { c with st := .finished } (by simp [setCall, get_lt hcc]) rfl
      split at hs
      · simp at hs; subst hs; exact ⟨_, rfl, key⟩
      · split at hs
        · simp at hs; subst hs; exact ⟨_, rfl, key⟩
        · cases hs
    · cases hs
  | wake a =>
    simp only [step, stepI] at hs
    split at hs
    · rename_i c hcc
      split at hs
      · split at hs
        · simp at hs; subst hs
          exact hl.frame rfl rfl rfl rfl rfl rfl (fun h => (hl.nl h).2.2)
            (callsOK_setCall s a c _ hcc rfl (fun h => by simp_all))
        · cases hs
      · cases hs
    · cases hs
  | wctx a =>
    simp only [step, stepI] at hs
    split at hs
    · rename_i c hcc
      split at hs
      · split at hs
        · simp at hs; subst hs
          exact hl.frame rfl rfl rfl rfl rfl rfl (fun h => (hl.nl h).2.2)
            (callsOK_setCall s a c _ hcc rfl (fun h => by simp_all))
        · cases hs
      · cases hs
    · cases hs
  | envCancel c =>
    simp only [step, stepI] at hs
    split at hs
    · simp at hs; subst hs
      exact ⟨ms, rfl, hl.frame rfl rfl rfl rfl rfl rfl (fun h => (hl.nl h).2.2) (CallsOK.of_eq rfl)⟩
    · cases hs
  | envDo c =>
    simp only [step, stepI] at hs
    split at hs
    · simp at hs; subst hs
      exact hl.frame rfl rfl rfl rfl rfl rfl (fun h => (hl.nl h).2.2) (CallsOK.of_eq rfl)
    · cases hs
  | envCancelW a =>
    simp only [step, stepI] at hs
    split at hs
    · split at hs
      · simp at hs; subst hs
        exact ⟨ms, rfl, hl.frame rfl rfl rfl rfl rfl rfl (fun h => (hl.nl h).2.2) (CallsOK.of_eq rfl)⟩
      all_goals cases hs
    · cases hs
  | envErr a e0 =>
    simp only [step, stepI] at hs
    split at hs
    · split at hs
      · simp at hs; subst hs
        exact ⟨ms, rfl, hl.frame rfl rfl rfl rfl rfl rfl (fun h => (hl.nl h).2.2) (CallsOK.of_eq rfl)⟩
      all_goals cases hs
    · cases hs
  | giveUp m =>
    simp only [step, stepI] at hs
    split at hs
    · rename_i x hx
      split at hs
      · rename_i hgd
        split at hs
        · simp at hs; subst hs
          exact hl.setInst_idle m x _ hx (Or.inl hgd.1) rfl (by simp) (by simp [pendU, gI])
        · simp at hs; subst hs
          exact hl.setInst_idle m x _ hx (Or.inl hgd.1) rfl (by simp) (by simp [pendU, gI])
      · cases hs
    · cases hs
  | drained m =>
    simp only [step, stepI] at hs
    split at hs
    · rename_i x hx
      split at hs
      · rename_i hgd
        simp at hs; subst hs
        exact hl.setInst_idle m x _ hx (Or.inr hgd.1) rfl (by simp) (by simp [pendU, gI])
      · cases hs
    · cases hs
  | cbin k m f arg root =>
    simp only [step, stepI] at hs
    split at hs
    · rename_i x hx
      split at hs
      · split at hs
        · rename_i hgd
          simp at hs; subst hs
          have hw : x.st ≠ .closed := by rw [hgd.1]; simp
          have hnc : ms.needCause = false := by
            cases h : ms.needCause with
            | false => rfl
            | true => exact (dead_not_closed (hl.nc h).1 hx hw).elim
          have hns : ms.needS = false := by
            cases h : ms.needS with
            | false => rfl
            | true => exact (dead_not_closed (hl.ns h).1 hx hw).elim
          have h1 := hl.setInst_idle m x { x with st := .running } hx (Or.inl hgd.1) rfl (by simp) (by simp [pendU, gI])
          have h2 := h1.ent_append m
          refine ⟨_, by simp only [monC14rc, hnc, hns]; rfl, h2.add_fresh k ⟨m, { x with st := .running }, ?_, ?_, rfl⟩⟩
          · rw [hgd.2.2.2.1]; simp [setInst]
          · simp [setInst, get_lt hx]
        · cases hs
      · cases hs
    · cases hs
  | cbout k o =>
    simp only [step, stepI] at hs
    split at hs
    · rename_i m hm
      split at hs
      · rename_i x hx
        split at hs
        · rename_i hrun
          simp at hs; subst hs
          have hxr : x.recorded = false := by
            cases h : x.recorded with
            | false => rfl
            | true => have := (hl.fl m x hx).1 h; rw [hrun] at this; cases this
          have hw : x.st ≠ .closed := by rw [hrun]; simp
          have hget : ∀ (n : Nat) (z : Inst), s.insts[n]? = some z → z.st ≠ .running →
              (setInst s m { x with st := .returned, out := o }).insts[n]? = some z := by
            intro n z hz hst
            rw [setInst_get s m x _ hx]
            by_cases hmn : m = n
            · subst hmn; rw [hx] at hz; cases hz; exact absurd hrun hst
            · rw [if_neg hmn]; exact hz
          refine ⟨_, rfl, hl.cf, ?_, hl.cl, ?_, ?_, ?_, ?_, ?_, hl.lq, hl.bq.frame rfl rfl rfl, ?_, ?_⟩
          · intro hn
            obtain ⟨_, b, _⟩ := hl.nl hn
            rw [b] at hx; simp at hx
          · intro k' hk'; cases hk'
          · intro k' hk'; cases hk'
          · intro n z hz
            rw [setInst_get s m x _ hx] at hz
            by_cases hmn : m = n
            · rw [if_pos hmn] at hz; cases hz
              exact ⟨fun hr => (by rw [hxr] at hr; cases hr), fun hc => (by cases hc)⟩
            · rw [if_neg hmn] at hz; exact hl.fl n z hz
          · intro e he
            by_cases hko : ms.ok.contains k = true
            · simp only [hko, if_true] at he
              obtain ⟨hpm, n, x', b1, b2, b3, b4⟩ := hl.ok k (by simpa using hko)
              rw [hm] at b1; cases b1
              by_cases hlines : (ms.cfg.retry || ms.cfg.ncb != 0) = true
              · simp only [hlines, if_true, Option.some.injEq] at he
                subst he
                refine ⟨hpm, by simpa using hlines, Or.inl ⟨m, { x with st := .returned, out := o }, ?_, Or.inl rfl, hxr, rfl, b4.frame rfl rfl⟩⟩
                simp [setInst, get_lt hx]
              · simp only [hlines, Bool.false_eq_true, if_false] at he; cases he
            · simp only [hko, Bool.false_eq_true, if_false] at he
              obtain ⟨a, a', b⟩ := hl.le e he
              refine ⟨a, a', ?_⟩
              rcases b with ⟨n, z, b1, b2, b3, b4, b5⟩ | ⟨b1, r, xr, c1, c2, c3, c4, c5, c6, c7, c8⟩
              · refine Or.inl ⟨n, z, hget n z b1 ?_, b2, b3, b4, b5.frame rfl rfl⟩
                rcases b2 with g | g <;> rw [g] <;> simp
              · refine Or.inr ⟨b1, r, xr, c1, c2, c3, c4, c5, c6, c7, ?_⟩
                intro n hn
                obtain ⟨z, hz, hzr⟩ := c8 n hn
                refine ⟨z, hget n z hz ?_, hzr⟩
                rw [(hl.fl n z hz).1 hzr]; simp
          · have h1 := cntU_setInst s m x { x with st := .returned, out := o } hx
            have h2 : pendU (gI x) = false := by simp [pendU, gI, hrun]
            rw [h2] at h1
            have h3 := hl.rd
            show cntU (setInst s m { x with st := .returned, out := o }) + pendFirst ms.cfg.retry s.lockq ≤ ms.retd + 1
            cases hp : pendU (gI { x with st := .returned, out := o }) with
            | false => rw [hp] at h1; simp only [Bool.false_eq_true, if_false, Nat.add_zero] at h1; omega
            | true => rw [hp] at h1; simp only [Bool.false_eq_true, if_false, if_true, Nat.add_zero] at h1; omega
          · intro hn; exact (dead_not_closed (hl.nc hn).1 hx hw).elim
          · intro hn; exact (dead_not_closed (hl.ns hn).1 hx hw).elim
        · cases hs
      · cases hs
    · cases hs
  | closeExit m =>
    simp only [step, stepI] at hs
    split at hs
    · rename_i x hx
      split at hs
      · rename_i hgd
        simp at hs; subst hs
        have hxr : x.recorded = false := by
          cases h : x.recorded with
          | false => rfl
          | true => have := (hl.fl m x hx).1 h; rw [hgd] at this; cases this
        have hw : x.st ≠ .closed := by rw [hgd]; simp
        have hget : ∀ (nb : Bool) (n : Nat) (z : Inst), s.insts[n]? = some z → z.st ≠ .returned →
            (setInst s m { x with st := .closed, cancelled := true, recorded := nb }).insts[n]? = some z := by
          intro nb n z hz hst
          rw [setInst_get s m x _ hx]
          by_cases hmn : m = n
          · subst hmn; rw [hx] at hz; cases hz; exact absurd hgd hst
          · rw [if_neg hmn]; exact hz
        refine ⟨hl.cf, ?_, hl.cl, ?_, ?_, ?_, ?_, ?_, hl.lq, hl.bq.frame rfl rfl rfl, ?_, ?_⟩
        · intro hn
          obtain ⟨_, b, _⟩ := hl.nl hn
          rw [b] at hx; simp at hx
        · intro k hk
          obtain ⟨a, n, z, b1, b2, b3⟩ := hl.fr k hk
          exact ⟨a, n, z, b1, hget _ n z b2 (by rw [b3]; simp), b3⟩
        · intro k hk
          obtain ⟨a, n, z, b1, b2, b3, b4⟩ := hl.ok k hk
          exact ⟨a, n, z, b1, hget _ n z b2 (by rw [b3]; simp), b3, b4.frame rfl rfl⟩
        · intro n z hz
          rw [setInst_get s m x _ hx] at hz
          by_cases hmn : m = n
          · rw [if_pos hmn] at hz; cases hz
            refine ⟨fun _ => rfl, fun _ hr => ?_⟩
            rcases hrr : s.recs[x.rid]? with _ | r
            · simp [hrr] at hr
            · exact ⟨r, by simpa [setInst] using hrr⟩
          · rw [if_neg hmn] at hz; exact hl.fl n z hz
        · intro e he
          obtain ⟨a, a', b⟩ := hl.le e he
          refine ⟨a, a', ?_⟩
          rcases b with ⟨n, z, b1, b2, b3, b4, b5⟩ | ⟨b1, r, xr, c1, c2, c3, c4, c5, c6, c7, c8⟩
          · by_cases hmn : m = n
            · subst hmn
              rw [hx] at b1; cases b1
              obtain ⟨xr, _, g2, g3, _⟩ := b5.rid ha hx
              have hA : ∀ nb : Bool, nb = false →
                  PhaseA (setInst s m { x with st := .closed, cancelled := true, recorded := nb }) e := by
                intro nb hnb
                exact ⟨m, { x with st := .closed, cancelled := true, recorded := nb }, by simp [setInst, get_lt hx],
                  Or.inr rfl, hnb, b4, b5.frame rfl rfl⟩
              exact Or.inl (hA _ (by simp [g2, g3]))
            · refine Or.inl ⟨n, z, ?_, b2, b3, b4, b5.frame rfl rfl⟩
              rw [setInst_get s m x _ hx, if_neg hmn]; exact b1
          · refine Or.inr ⟨b1, r, xr, c1, c2, c3, c4, c5, c6, c7, ?_⟩
            intro n hn
            obtain ⟨z, hz, hzr⟩ := c8 n hn
            refine ⟨z, hget _ n z hz ?_, hzr⟩
            rw [(hl.fl n z hz).1 hzr]; simp
        · have hcnt : ∀ nb : Bool, cntU (setInst s m { x with st := .closed, cancelled := true, recorded := nb }) ≤ cntU s := by
            intro nb
            have h1 := cntU_setInst s m x { x with st := .closed, cancelled := true, recorded := nb } hx
            have h2 : pendU (gI { x with st := .closed, cancelled := true, recorded := nb }) = true → pendU (gI x) = true := by
              simp only [pendU, gI, hgd, hxr]
              intro h; simp at h ⊢; exact h.2
            cases hp1 : pendU (gI { x with st := .closed, cancelled := true, recorded := nb }) with
            | false => rw [hp1] at h1; simp only [Bool.false_eq_true, if_false, Nat.add_zero] at h1; split at h1 <;> omega
            | true => rw [hp1, h2 hp1] at h1; simp only [if_true] at h1; omega
          have h3 := hl.rd
          have h4 := hcnt (match s.recs[x.rid]? with
            | some r => r.rctx != some m
            | none => true)
          exact Nat.le_trans (Nat.add_le_add_right (hcnt _) _) h3
        · intro hn; exact (dead_not_closed (hl.nc hn).1 hx hw).elim
        · intro hn; exact (dead_not_closed (hl.ns hn).1 hx hw).elim
      · cases hs
    · cases hs
  | fire t =>
    simp only [step, stepI] at hs
    split at hs
    · rename_i tm htm
      split at hs
      · simp at hs; subst hs
        refine hl.frame rfl rfl rfl rfl rfl rfl ?_ (CallsOK.of_eq rfl)
        intro h; have := (hl.nl h).2.2; rw [this] at htm; simp at htm
      · cases hs
    · cases hs
  | probeW a b =>
    simp only [step, stepI] at hs
    split at hs
    · split at hs
      · split at hs
        · simp at hs; subst hs; exact ⟨ms, rfl, hl⟩
        · cases hs
      · cases hs
    · cases hs
  | probeCtx k b =>
    simp only [step, stepI] at hs
    split at hs
    · rename_i n hn
      split at hs
      · rename_i hb
        simp at hs; subst hs
        cases b with
        | true =>
          exact ⟨_, rfl, hl.sub _ _ (fun k' hk' => (List.mem_filter.mp hk').1) (fun k' hk' => (List.mem_filter.mp hk').1)⟩
        | false =>
          by_cases hk : ms.fresh.contains k = true
          · refine ⟨_, by simp only [monC14rc, hk, if_true], hl.promote (ms.fresh.filter (· != k)) k (fun k' hk' => (List.mem_filter.mp hk').1) ?_⟩
            obtain ⟨hpm, n', x, b1, b2, b3⟩ := hl.fr k (by simpa using hk)
            rw [hn] at b1; cases b1
            have hlive : s.isCancelled x = false := by simpa [ctxErrOf, b2] using hb
            have hcur : curInst s = some n := by
              by_cases hcu : curInst s = some n
              · exact hcu
              · have := hc.1.sc n x b2 hcu; rw [hlive] at this; cases this
            exact ⟨hpm, n, x, hn, b2, b3, curLive_of_cur ha hcur b2 (by rw [b3]; simp)⟩
          · refine ⟨ms, by simp only [monC14rc, hk, Bool.false_eq_true, if_false], hl⟩
      · cases hs
    · cases hs
  | quiesce p r l =>
    simp only [step] at hs
    split at hs
    · rename_i hq0
      simp at hs; subst hs
      have hqs := hq0.1
      simp only [quiescent, Bool.and_eq_true, List.all_eq_true, List.isEmpty_iff] at hqs
      have hqe : s.lockq = [] := hqs.1.1.1
      refine ⟨_, rfl, hl.quiesce ?_ hqe⟩
      cases hcnt : cntU s with
      | zero => rfl
      | succ c0 =>
        exfalso
        have hpos : 0 < (s.insts.map gI).countP pendU := by
          have : cntU s = (s.insts.map gI).countP pendU := rfl
          omega
        rw [List.countP_pos_iff] at hpos
        obtain ⟨t0, ht0, hp⟩ := hpos
        obtain ⟨y, hy, rfl⟩ := List.mem_map.mp ht0
        obtain ⟨n, hn⟩ := List.getElem?_of_mem hy
        have hmem : ∀ ev ∈ [Ev.giveUp n, .drained n, .closeExit n, .record n false, .record n true], ev ∈ cands s := by
          intro ev hev
          simp only [cands, List.mem_append]
          exact Or.inl (Or.inl (Or.inr (by
            simp only [List.mem_flatMap, List.mem_range]
            exact ⟨n, get_lt hn, hev⟩)))
        simp only [pendU, gI, Bool.and_eq_true, Bool.or_eq_true, beq_iff_eq, Bool.not_eq_true', bne_iff_ne, ne_eq] at hp
        obtain ⟨⟨hst, hrec⟩, _⟩ := hp
        rcases hst with hst | hst
        · have := hqs.1.1.2 (.closeExit n) (hmem _ (by simp))
          simp [stepI, hn, hst] at this
        · cases hcf : s.cfg with
          | none =>
            have := (hl.nl hcf).2.1
            rw [this] at hn; simp at hn
          | some cf =>
            obtain ⟨r0, hr0⟩ := (hl.fl n y hn).2 hst hrec
            have h1 := hqs.1.1.2 (.record n false) (hmem _ (by simp))
            have h2 := recordCS_false_some s cf n y r0 hr0
            simp only [stepI, hcf, hn, hst, hrec, hqe, and_self, if_true] at h1
            rw [Option.isNone_iff_eq_none] at h1
            rw [h1] at h2; cases h2
    · cases hs
  | emit o =>
    simp only [step, stepI] at hs
    split at hs
    · rename_i o' rest hlq
      split at hs
      · rename_i hgd
        simp at hs; subst hs
        obtain ⟨ho, hline⟩ := hgd
        subst ho
        have hlq0 := hl.lq
        rw [hlq] at hlq0
        obtain ⟨hlq1, hpf⟩ := lqok_tail hlq0
        have hrd0 := hl.rd
        rw [hlq] at hrd0
        have hbq' : BQ { s with lockq := rest } := by
          intro b rest2 hb _
          have hb' : rest = .bo b :: rest2 := hb
          have := hlq0 (.bo b) (by rw [hb']; exact List.mem_cons_self ..)
          simp [isHead] at this
        have mk : ∀ (le : Option (Option Nat)) (rd : Nat) (nC nS : Bool),
            (∀ e, le = some e → ms.pendMut = [] ∧ (ms.cfg.retry = true ∨ ms.cfg.ncb ≠ 0) ∧
              (PhaseA s e ∨ (isHead ms.cfg.retry o = false ∧ PhaseB ms.cfg.retry s e))) →
            cntU s ≤ rd → (nC = true → Dead s false ∧ OnlyCtx s false) → (nS = true → Dead s true ∧ OnlyCtx s true) →
            RcLink { s with lockq := rest } { ms with lastExit := le, retd := rd, needCause := nC, needS := nS } := by
          intro le rd nC nS h1 h2 h3 h4
          refine ⟨hl.cf, ?_, hl.cl, hl.fr, ?_, hl.fl, ?_, ?_, hlq1, hbq', ?_, ?_⟩
          · intro h; have := (hl.nl h).1; rw [hlq] at this; cases this
          · intro k hk
            obtain ⟨a, n, x, b1, b2, b3, b4⟩ := hl.ok k hk
            exact ⟨a, n, x, b1, b2, b3, b4.frame rfl rfl⟩
          · intro e he
            obtain ⟨a, a', b⟩ := h1 e he
            refine ⟨a, a', ?_⟩
            rcases b with b | ⟨b0, ⟨o2, rest2, b1, b2⟩, _⟩
            · exact Or.inl (b.frame rfl rfl rfl)
            · rw [hlq] at b1; cases b1; rw [b0] at b2; cases b2
          · show cntU s + pendFirst ms.cfg.retry rest ≤ rd
            rw [hpf]; exact h2
          · intro hn; exact ⟨(h3 hn).1.frame rfl rfl rfl, (h3 hn).2⟩
          · intro hn; exact ⟨(h4 hn).1.frame rfl rfl rfl, (h4 hn).2⟩
        have hkeep : ∀ e, ms.lastExit = some e → isHead ms.cfg.retry o = false →
            ms.pendMut = [] ∧ (ms.cfg.retry = true ∨ ms.cfg.ncb ≠ 0) ∧
              (PhaseA s e ∨ (isHead ms.cfg.retry o = false ∧ PhaseB ms.cfg.retry s e)) := by
          intro e he hh
          obtain ⟨a, a', b⟩ := hl.le e he
          exact ⟨a, a', b.imp id (fun b => ⟨hh, b⟩)⟩
        have hcnt : cntU s ≤ ms.retd := by omega
        have hsettle : cntHead ms.cfg.retry o = true → cntU s ≤ (if ms.retd == 1 then 0 else ms.retd) := by
          intro hch
          simp only [pendFirst, hch, if_true] at hrd0
          split
          · rename_i h1; simp at h1; omega
          · omega
        have hnoA : ∀ e, cntHead ms.cfg.retry o = true → (ms.retd == 1) = true → e ≠ some 0 → PhaseA s e → False := by
          intro e hch h1 he hA
          have := phaseA_counted hA he
          simp only [pendFirst, hch, if_true] at hrd0
          simp at h1; omega
        cases o with
        | bo b =>
          cases b with
          | dur =>
            exact ⟨_, rfl, mk none ms.retd false ms.needS (fun e h => by cases h) hcnt (fun h => by cases h) hl.ns⟩
          | stop =>
            refine ⟨_, rfl, mk none ms.retd (ms.needCause || isErrExit ms.lastExit) ms.needS (fun e h => by cases h) hcnt ?_ hl.ns⟩
            intro hn
            cases hnc : ms.needCause with
            | true => exact hl.nc hnc
            | false =>
              rw [hnc, Bool.false_or] at hn
              cases hle : ms.lastExit with
              | none => rw [hle] at hn; cases hn
              | some e =>
                cases e with
                | none => rw [hle] at hn; cases hn
                | some e' =>
                  refine credit_done hl hg (some e') hle ?_ (fun r' h => by rw [hlq] at h; cases h) false (by simp)
                  intro hA
                  obtain ⟨n, y, _, _, _, _, r, x, g1, g2, _, g4⟩ := hA
                  obtain ⟨q, x', f1, f2, f3⟩ := hl.bq .stop rest hlq (by simp)
                  rw [g1] at f1; cases f1; rw [g2] at f2; cases f2; rw [g4] at f3; cases f3
          | reset =>
            refine ⟨_, rfl, mk none (if ms.retd == 1 then 0 else ms.retd) ms.needCause
              (ms.needS || (ms.retd == 1 && ms.lastExit == some none)) (fun e h => by cases h) (hsettle rfl) hl.nc ?_⟩
            intro hn
            cases hns : ms.needS with
            | true => exact hl.ns hns
            | false =>
              rw [hns, Bool.false_or, Bool.and_eq_true] at hn
              have hle : ms.lastExit = some none := by simpa using hn.2
              exact credit_done hl hg none hle (hnoA none rfl hn.1 (by simp)) (fun r' h => by rw [hlq] at h; cases h) true rfl
        | exitcb j e =>
          by_cases hj : (j == 0 && !ms.cfg.retry) = true
          · by_cases he0 : (e == some 0) = true
            · refine ⟨_, by simp only [monC14rc, hj, he0, if_true], mk none ms.retd ms.needCause ms.needS (fun e h => by cases h) hcnt hl.nc hl.ns⟩
            · have hch : cntHead ms.cfg.retry (.exitcb j e) = true := by
                simp only [cntHead, Bool.and_eq_true] at hj ⊢
                exact ⟨hj, by simpa using he0⟩
              have hne : e ≠ some 0 := by simpa using he0
              refine ⟨_, by simp only [monC14rc, hj, he0, if_true, Bool.false_eq_true, if_false]; rfl,
                mk none (if ms.retd == 1 then 0 else ms.retd)
                  (ms.needCause || (ms.retd == 1 && e.isSome && ms.lastExit == some e))
                  (ms.needS || (ms.retd == 1 && e.isNone && ms.lastExit == some e)) (fun e h => by cases h) (hsettle hch) ?_ ?_⟩
              · intro hn
                cases hnc : ms.needCause with
                | true => exact hl.nc hnc
                | false =>
                  rw [hnc, Bool.false_or, Bool.and_eq_true, Bool.and_eq_true] at hn
                  have hle : ms.lastExit = some e := by simpa using hn.2
                  refine credit_done hl hg e hle (hnoA e hch hn.1.1 hne) (fun r' h => by rw [hlq] at h; cases h) false ?_
                  simp only [Bool.false_eq_true, if_false]
                  intro h; rw [h] at hn; simp at hn
              · intro hn
                cases hns : ms.needS with
                | true => exact hl.ns hns
                | false =>
                  rw [hns, Bool.false_or, Bool.and_eq_true, Bool.and_eq_true] at hn
                  have hle : ms.lastExit = some e := by simpa using hn.2
                  refine credit_done hl hg e hle (hnoA e hch hn.1.1 hne) (fun r' h => by rw [hlq] at h; cases h) true ?_
                  simp only [if_true]
                  simpa using hn.1.2
          · have hh : isHead ms.cfg.retry (.exitcb j e) = false := by simpa [isHead] using hj
            refine ⟨ms, by simp only [monC14rc, hj, Bool.false_eq_true, if_false], ?_⟩
            exact mk ms.lastExit ms.retd ms.needCause ms.needS (fun e he => hkeep e he hh) hcnt hl.nc hl.ns
        | _ => simp [Obs.isLine] at hline
      · cases hs
    · cases hs
  | record n dur =>
    have hs0 := hs
    simp only [step, stepI] at hs
    split at hs
    · rename_i cf x hcf hx
      split at hs
      · rename_i hgd
        obtain ⟨hcl, hrec, hq0⟩ := hgd
        have hins := recordCS_insts s s' cf n x dur hs
        have hfa := faeq_recordCS s s' cf n x dur hs
        have hcfg : s'.cfg = s.cfg := hfa.cf
        have hrt : s'.routine = s.routine := hfa.rt
        have hent := recordCS_ent s s' cf n x dur hs
        have hcalls : CallsOK s s' := (step_keep s s' (.record n dur) ha hs0 rfl).calls
        have hmc : ms.cfg = cf := hl.cf cf hcf
        have hself : s'.insts[n]? = some { x with recorded := true } := by rw [hins]; simp [get_lt hx]
        have hget : ∀ (n' : Nat) (z : Inst), n' ≠ n → s.insts[n']? = some z → s'.insts[n']? = some z := by
          intro n' z hne hz
          rw [hins, List.getElem?_set_ne (fun h => hne h.symm)]; exact hz
        have hinv : ∀ (n' : Nat) (z : Inst), s'.insts[n']? = some z →
            (n' = n ∧ z = { x with recorded := true }) ∨ (n' ≠ n ∧ s.insts[n']? = some z) := by
          intro n' z hz
          by_cases hnn : n' = n
          · subst hnn; rw [hself] at hz; cases hz; exact Or.inl ⟨rfl, rfl⟩
          · rw [hins, List.getElem?_set_ne (fun h => hnn h.symm)] at hz; exact Or.inr ⟨hnn, hz⟩
        have hcnt : cntU s' + (if pendU (gI x) then 1 else 0) = cntU s := by
          have h1 := cntU_setInst s n x { x with recorded := true } hx
          have h2 : pendU (gI { x with recorded := true }) = false := by simp [pendU, gI]
          have h3 : cntU s' = cntU (setInst s n { x with recorded := true }) := by simp [cntU, hins, setInst]
          rw [h2] at h1; rw [h3]; simpa using h1
        have hclF : ∀ (a : Nat) (c' : Call), s'.calls[a]? = some c' → c'.op.quiet = false → c'.st = .finished ∨ a ∈ ms.pendMut := by
          intro a c' hc' hqq
          obtain ⟨c, g1, g2, g3⟩ := hcalls a c' hc'
          rcases hl.cl a c g1 (by rw [g2]; exact hqq) with e | e
          · exact Or.inl (g3 e)
          · exact Or.inr e
        have hnl : s'.cfg = none → s'.lockq = [] ∧ s'.insts = [] ∧ s'.timers = [] := by
          intro h; rw [hcfg, hcf] at h; cases h
        have hrunning : ∀ (n' : Nat) (z : Inst), s.insts[n']? = some z → z.st = .running → n' ≠ n := by
          intro n' z hz hst hnn; subst hnn; rw [hx] at hz; cases hz; rw [hcl] at hst; cases hst
        cases hrr : s.recs[x.rid]? with
        | none => simp [recordCS, hrr] at hs
        | some r =>
          by_cases hrc : r.rctx = some n
          · -- the real final section
            obtain ⟨rt, hrecs, hrtc, hdur, hlq'⟩ := recordCS_real s s' cf n x dur r hs hrr hrc
            have hridlt : x.rid < s.recs.length := get_lt hrr
            have hnew : s'.recs[x.rid]? = some { r with err := x.out, success := x.out.isNone, exited := true, exitedCh := none, retry := rt } := by
              rw [hrecs]; simp [hridlt]
            have hother : ∀ q, q ≠ x.rid → s'.recs[q]? = s.recs[q]? := by
              intro q hqq; rw [hrecs, List.getElem?_set_ne (fun h => hqq h.symm)]
            have hcl' : ∀ n', n' ≠ n → CurLive s n' → CurLive s' n' := by
              intro n' hne ⟨r0, x0, g1, g2, g3, g4⟩
              have hr0 : r0 ≠ x.rid := by
                intro h; subst h; rw [hrr] at g2; cases g2; rw [hrc] at g3; cases g3; exact hne rfl
              exact ⟨r0, x0, by rw [hrt]; exact g1, by rw [hother r0 hr0]; exact g2, g3, g4⟩
            have hdead : ∀ b, Dead s b → Dead s' b := by
              intro b ⟨r0, x0, g1, g2, g3, g4, g5, g6, g7⟩
              have hr0 : r0 ≠ x.rid := by
                intro h; subst h; rw [hrr] at g2; cases g2
                obtain ⟨y, hy, hyr⟩ := g6 n hrc
                rw [hx] at hy; cases hy; rw [hrec] at hyr; cases hyr
              refine ⟨r0, x0, by rw [hrt]; exact g1, by rw [hother r0 hr0]; exact g2, g3, g4, g5, ?_, ?_⟩
              · intro n0 hn0
                obtain ⟨y, hy, hyr⟩ := g6 n0 hn0
                by_cases hnn : n0 = n
                · subst hnn; exact ⟨_, hself, rfl⟩
                · exact ⟨y, hget n0 y hnn hy, hyr⟩
              · intro n' z hz
                rcases hinv n' z hz with ⟨_, g⟩ | ⟨_, g⟩
                · subst g; exact hcl
                · exact g7 n' z g
            refine ⟨by rw [hcfg]; exact hl.cf, hnl, hclF, ?_, ?_, ?_, ?_, ?_, ?_, ?_, ?_, ?_⟩
            · intro k hk
              obtain ⟨a, n', z, b1, b2, b3⟩ := hl.fr k hk
              exact ⟨a, n', z, by rw [hent]; exact b1, hget n' z (hrunning n' z b2 b3) b2, b3⟩
            · intro k hk
              obtain ⟨a, n', z, b1, b2, b3, b4⟩ := hl.ok k hk
              have hne := hrunning n' z b2 b3
              exact ⟨a, n', z, by rw [hent]; exact b1, hget n' z hne b2, b3, hcl' n' hne b4⟩
            · intro n' z hz
              rcases hinv n' z hz with ⟨_, g⟩ | ⟨_, g⟩
              · subst g; exact ⟨fun _ => hcl, fun _ h => by cases h⟩
              · obtain ⟨f1, f2⟩ := hl.fl n' z g
                refine ⟨f1, fun h1 h2 => ?_⟩
                obtain ⟨r1, hr1⟩ := f2 h1 h2
                by_cases hq1 : z.rid = x.rid
                · rw [hq1]; exact ⟨_, hnew⟩
                · exact ⟨r1, by rw [hother _ hq1]; exact hr1⟩
            · intro e he
              obtain ⟨a, a', b⟩ := hl.le e he
              refine ⟨a, a', ?_⟩
              rcases b with ⟨n', y, b1, b2, b3, b4, b5⟩ | ⟨⟨o, rest, b1, _⟩, _⟩
              · by_cases hnn : n' = n
                · subst hnn
                  rw [hx] at b1; cases b1
                  obtain ⟨xr, g1, g2, g3, g4⟩ := b5.rid ha hx
                  have hcur : (s.routine == some x.rid) = true := by simp [g1]
                  rw [hcur] at hlq'
                  right
                  refine ⟨?_, x.rid, _, by rw [hrt]; exact g1, hnew, rfl, rfl, b4, by simp [b4], ?_, ?_⟩
                  · rw [hlq', hmc]
                    exact head_record cf _ dur x.out (by rw [← hmc]; exact a')
                  · rcases hrtc with g | ⟨gr, gd⟩ | ⟨gr, g⟩
                    · exact Or.inl g
                    · right
                      obtain ⟨_, d2, _⟩ := hdur gd
                      rw [hlq', gd, d2]
                      simp [boLines, gr]
                    · left
                      rw [g]
                      exact (hq x.rid r hrr).q3 (fun cf' h => by rw [hcf] at h; cases h; exact gr)
                  · intro n0 hn0
                    simp only at hn0
                    rw [hrc] at hn0; cases hn0
                    exact ⟨_, hself, rfl⟩
                · exact Or.inl ⟨n', y, hget n' y hnn b1, b2, b3, b4, hcl' n' hnn b5⟩
              · rw [hq0] at b1; cases b1
            · rw [hlq', hmc]
              have hrd := hl.rd
              rw [hq0] at hrd
              simp only [pendFirst, Nat.add_zero] at hrd
              have hpf := pendFirst_le cf.retry (boLines cf x.out.isNone (s.routine == some x.rid) dur ++ cbLines cf x.out)
              by_cases hp1 : pendFirst cf.retry (boLines cf x.out.isNone (s.routine == some x.rid) dur ++ cbLines cf x.out) = 1
              · have hne := pf_record cf x.out.isNone (s.routine == some x.rid) dur x.out rfl hp1
                have hpx : pendU (gI x) = true := by simp [pendU, gI, hcl, hrec, hne]
                rw [hpx] at hcnt; simp only [if_true] at hcnt
                omega
              · split at hcnt <;> omega
            · rw [hlq', hmc]; exact lqok_record cf _ _ dur x.out
            · intro b rest hb hbn
              rw [hlq'] at hb
              obtain ⟨_, _, g3, _⟩ := bo_record cf _ _ dur x.out b rest hb hbn
              exact ⟨x.rid, _, by rw [hrt]; simpa using g3, hnew, rfl⟩
            · intro hn; exact ⟨hdead _ (hl.nc hn).1, (hl.nc hn).2.of_callsOK hcalls⟩
            · intro hn; exact ⟨hdead _ (hl.ns hn).1, (hl.ns hn).2.of_callsOK hcalls⟩
          · -- the final section of an instance that is no longer its record's current one: no effect
            obtain ⟨hrecs, hlq'⟩ := recordCS_noop s s' cf n x dur r hs hrr hrc
            have hnotcur : ¬ CurLive s n := by
              intro h
              obtain ⟨xr, _, g2, g3, _⟩ := h.rid ha hx
              rw [hrr] at g2; cases g2; exact hrc g3
            have hdead : ∀ b, Dead s b → Dead s' b := by
              intro b ⟨r0, x0, g1, g2, g3, g4, g5, g6, g7⟩
              refine ⟨r0, x0, by rw [hrt]; exact g1, by rw [hrecs]; exact g2, g3, g4, g5, ?_, ?_⟩
              · intro n0 hn0
                obtain ⟨y, hy, hyr⟩ := g6 n0 hn0
                by_cases hnn : n0 = n
                · subst hnn; exact ⟨_, hself, rfl⟩
                · exact ⟨y, hget n0 y hnn hy, hyr⟩
              · intro n' z hz
                rcases hinv n' z hz with ⟨_, g⟩ | ⟨_, g⟩
                · subst g; exact hcl
                · exact g7 n' z g
            refine ⟨by rw [hcfg]; exact hl.cf, hnl, hclF, ?_, ?_, ?_, ?_, ?_, by rw [hlq']; exact hl.lq,
              hl.bq.frame hrt hrecs hlq', ?_, ?_⟩
            · intro k hk
              obtain ⟨a, n', z, b1, b2, b3⟩ := hl.fr k hk
              exact ⟨a, n', z, by rw [hent]; exact b1, hget n' z (hrunning n' z b2 b3) b2, b3⟩
            · intro k hk
              obtain ⟨a, n', z, b1, b2, b3, b4⟩ := hl.ok k hk
              exact ⟨a, n', z, by rw [hent]; exact b1, hget n' z (hrunning n' z b2 b3) b2, b3, b4.frame hrt hrecs⟩
            · intro n' z hz
              rw [hrecs]
              rcases hinv n' z hz with ⟨_, g⟩ | ⟨_, g⟩
              · subst g; exact ⟨fun _ => hcl, fun _ h => by cases h⟩
              · exact hl.fl n' z g
            · intro e he
              obtain ⟨a, a', b⟩ := hl.le e he
              refine ⟨a, a', ?_⟩
              rcases b with ⟨n', y, b1, b2, b3, b4, b5⟩ | ⟨⟨o, rest, b1, _⟩, _⟩
              · by_cases hnn : n' = n
                · subst hnn; exact (hnotcur b5).elim
                · exact Or.inl ⟨n', y, hget n' y hnn b1, b2, b3, b4, b5.frame hrt hrecs⟩
              · rw [hq0] at b1; cases b1
            · rw [hlq']
              have hrd := hl.rd
              split at hcnt <;> omega
            · intro hn; exact ⟨hdead _ (hl.nc hn).1, (hl.nc hn).2.of_callsOK hcalls⟩
            · intro hn; exact ⟨hdead _ (hl.ns hn).1, (hl.ns hn).2.of_callsOK hcalls⟩
      · cases hs
    · cases hs
  | timerCS t =>
    have hs0 := hs
    simp only [step, stepI] at hs
    split at hs
    · rename_i tm htm
      split at hs
      · rename_i hgd
        simp at hs; subst hs
        have hq0 : s.lockq = [] := hgd.2
        have hcn : s.cfg ≠ none := by
          intro h; have := (hl.nl h).2.2; rw [this] at htm; simp at htm
        have hcalls : CallsOK s (timerBody { s with timers := s.timers.set t { tm with st := .dead } } t tm.rid) :=
          (step_keep s _ (.timerCS t) ha hs0 rfl).calls
        have hcase : (∃ x, s.recs[tm.rid]? = some x ∧ x.retry = some t ∧ s.routine = some tm.rid ∧ x.exited = true) ∨
            (timerBody { s with timers := s.timers.set t { tm with st := .dead } } t tm.rid =
              St.bcastNow { s with timers := s.timers.set t { tm with st := .dead } }) := by
          cases hrec : s.recs[tm.rid]? with
          | none => right; simp [timerBody, hrec]
          | some x =>
            by_cases hcond : (x.retry == some t && s.ctx != 0 && s.routine == some tm.rid && x.exited) = true
            · left
              simp only [Bool.and_eq_true, beq_iff_eq] at hcond
              exact ⟨x, rfl, hcond.1.1.1, hcond.1.2, hcond.2⟩
            · right; simp [timerBody, hrec, hcond]
        rcases hcase with ⟨x, hrec, hretry, hrout, hex⟩ | hnoop
        · have hnolive : ∀ n, ¬ CurLive s n := by
            intro n ⟨r0, x0, g1, g2, _, g4⟩
            rw [hrout] at g1; cases g1; rw [hrec] at g2; cases g2; rw [hex] at g4; cases g4
          have hok : ms.ok = [] := by
            rw [List.eq_nil_iff_forall_not_mem]
            intro k hk
            obtain ⟨_, n, _, _, _, _, b4⟩ := hl.ok k hk
            exact hnolive n b4
          have hle : ms.lastExit = none := by
            cases hle : ms.lastExit with
            | none => rfl
            | some e =>
              obtain ⟨_, _, b⟩ := hl.le e hle
              rcases b with ⟨n, _, _, _, _, _, b5⟩ | ⟨⟨o, rest, b1, _⟩, _⟩
              · exact (hnolive n b5).elim
              · rw [hq0] at b1; cases b1
          have hnodead : ∀ b, ¬ Dead s b := by
            intro b ⟨r0, x0, g1, g2, g3, _⟩
            rw [hrout] at g1; cases g1; rw [hrec] at g2; cases g2; rw [hretry] at g3; cases g3
          refine hl.cs_generic hok hle
            ((GS.of_eq (s := s) (s' := { s with timers := s.timers.set t { tm with st := .dead } }) rfl).trans (gs_timerBody _ t tm.rid))
            ((InstsExt.of_eq (s := s) (s' := { s with timers := s.timers.set t { tm with st := .dead } }) rfl).trans (csok_timerBody _ t tm.rid).1)
            ((RecsFa.of_eq (s := s) (s' := { s with timers := s.timers.set t { tm with st := .dead } }) rfl).trans (RecsFa.of_faeq (faeq_timerBody _ t tm.rid)))
            (by simp) (by rw [(faeq_timerBody _ t tm.rid).cf]) (by simp) hcalls ?_ hcn
            (fun hn => (hnodead _ (hl.nc hn).1).elim) (fun hn => (hnodead _ (hl.ns hn).1).elim)
          intro b rest hb _
          simp [hq0] at hb
        · rw [hnoop] at hcalls ⊢
          exact hl.frame rfl rfl rfl rfl rfl rfl (fun h => absurd h hcn) hcalls
      · cases hs
    · cases hs

theorem rc_run (s0 s : St) (ms0 : C14rcSt) (es : List Ev) (hl : RcLink s0 ms0) (hg : Good s0) (hc : Cur s0)
    (hq : AllQ s0) (hr : model.run s0 es = some s) :
    ∃ ms, monC14rc.run ms0 (es.filterMap model.obs) = some ms ∧ RcLink s ms := by
  induction es generalizing s0 ms0 with
  | nil => simp [OLTS.run] at hr; subst hr; exact ⟨ms0, rfl, hl⟩
  | cons e es ih =>
    simp only [OLTS.run] at hr
    cases hst : model.step s0 e with
    | none => simp [hst] at hr
    | some s1 =>
      simp [hst] at hr
      have hstep := rc_step s0 s1 e ms0 hl hg hc hq hst
      have hg1 : Good s1 := good_run s0 s1 [e] hg (by simp [OLTS.run, hst])
      have hc1 : Cur s1 := cur_run s0 s1 [e] hc hg.recs (by simp [OLTS.run, hst])
      have hq1 : AllQ s1 := allQ_run s0 s1 [e] hq (by simp [OLTS.run, hst])
      cases hob : Ev.obs e with
      | none =>
        rw [hob] at hstep
        obtain ⟨ms, h1, h2⟩ := ih s1 ms0 hstep hg1 hc1 hq1 hr
        refine ⟨ms, ?_, h2⟩
        have : model.obs e = none := hob
        simpa [List.filterMap_cons, this] using h1
      | some o =>
        rw [hob] at hstep
        obtain ⟨ms1, hm1, hl1⟩ := hstep
        obtain ⟨ms, h1, h2⟩ := ih s1 ms1 hl1 hg1 hc1 hq1 hr
        refine ⟨ms, ?_, h2⟩
        have : model.obs e = some o := hob
        simp [List.filterMap_cons, this, ObsMonitor.run, hm1, h1]

end UtilModel.Routine
