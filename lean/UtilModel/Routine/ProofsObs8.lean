import UtilModel.Routine.ProofsObs7
/-!
# routine: the "moved to a new context" clause of C14 (`monC14hb`, clauses 1 and 2 of `monC14h`)

`step_stable`: what events other than the critical section of a mutating call leave alone — the current instance
of the container (as long as it has not exited) and every waiting instance whose context is live.
`XLink`: the monitor's bookkeeping against the model.
-/
namespace UtilModel.Routine
open UtilModel

theorem curInst_frame {s s' : St} (h1 : s'.routine = s.routine) (h2 : s'.recs = s.recs) : curInst s' = curInst s := by
  simp [curInst, curRec, h1, h2]

/-- replacing a record by one with the same current instance does not change the container's current instance -/
theorem curInst_set (s : St) (q : Nat) (r y : Rec) (hr : s.recs[q]? = some r) (h : y.rctx = r.rctx) :
    curInst { s with recs := s.recs.set q y } = curInst s := by
  cases hrt : s.routine with
  | none => simp [curInst, curRec, hrt]
  | some p =>
    by_cases hpq : q = p
    · subst hpq
      simp [curInst, curRec, hrt, get_lt hr, h]
      rw [getElem_of_get hr (get_lt hr)]
    · simp [curInst, curRec, hrt, List.getElem?_set, hpq]

theorem recordCS_curInst (s s' : St) (cf : Cfg) (n : Nat) (x : Inst) (dur : Bool)
    (h : recordCS s cf n x dur = some s') : curInst s' = curInst s := by
  simp only [recordCS] at h
  split at h
  · cases h
  · rename_i r hr
    split at h
    · split at h
      · cases h
      · simp only [Option.some.injEq] at h; subst h
        by_cases hret : cf.retry = true
        · simp only [hret, if_true]
          have hr' : (killTimer (setInst s n { x with recorded := true }) r.retry).recs[x.rid]? = some r := by
            simpa [setInst] using hr
          have h1 := curInst_set (killTimer (setInst s n { x with recorded := true }) r.retry) x.rid r
            { r with err := x.out, success := x.out.isNone, exited := true, exitedCh := none,
                     retry := if dur = true then some (killTimer (setInst s n { x with recorded := true }) r.retry).timers.length else none }
            hr' rfl
          have h2 : curInst (killTimer (setInst s n { x with recorded := true }) r.retry) = curInst s :=
            curInst_frame (by simp [setInst]) (by simp [setInst])
          rw [← h2, ← h1]
          exact curInst_frame rfl rfl
        · have hret' : cf.retry = false := by simpa using hret
          simp only [hret', Bool.false_eq_true, if_false]
          have hr' : (setInst s n { x with recorded := true }).recs[x.rid]? = some r := by simpa [setInst] using hr
          have h1 := curInst_set (setInst s n { x with recorded := true }) x.rid r
            { r with err := x.out, success := x.out.isNone, exited := true, exitedCh := none } hr' rfl
          have h2 : curInst (setInst s n { x with recorded := true }) = curInst s := curInst_frame rfl rfl
          rw [← h2, ← h1]
          exact curInst_frame rfl rfl
    · split at h
      · cases h
      · simp only [Option.some.injEq] at h; subst h; exact curInst_frame rfl rfl

/-- a retry timer acts only on a record that has exited: while the current instance has not exited its critical
section changes nothing but the wake-up flags -/
theorem timerBody_noop (s : St) (ha : AllRec s) (t r n : Nat) (x : Inst) (hcur : curInst s = some n)
    (hx : s.insts[n]? = some x) (hnc : x.st ≠ .closed) : timerBody s t r = s.bcastNow := by
  simp only [timerBody]
  split
  · rename_i y hy
    split
    · rename_i hcond
      exfalso
      simp only [Bool.and_eq_true, beq_iff_eq] at hcond
      obtain ⟨⟨⟨_, _⟩, hrt⟩, hex⟩ := hcond
      have := (curInst_of hrt hy).1
      rw [hcur] at this
      obtain ⟨z, hz, hzc⟩ := (ha r y hy).kx (Or.inr hex) n this.symm
      rw [hx] at hz; cases hz; exact hnc hzc
    · rfl
  · rfl

/-- what events other than the critical section of a mutating call leave alone -/
theorem step_stable (s s' : St) (e : Ev) (ha : AllRec s) (hs : step s e = some s')
    (hq : ∀ a, e = .cs a → ∀ c, s.calls[a]? = some c → c.st = .invoked → c.op.quiet = true) :
    (∀ n x, curInst s = some n → s.insts[n]? = some x → x.st ≠ .closed → curInst s' = some n) ∧
    (∀ n' x', s.insts[n']? = some x' → x'.st = .waiting → s.isCancelled x' = false →
      (∀ k f a r, e ≠ .cbin k n' f a r) → s'.insts[n']? = some x') := by
  have fr : ∀ T : St, T.routine = s.routine → T.recs = s.recs → T.insts = s.insts →
      (∀ n x, curInst s = some n → s.insts[n]? = some x → x.st ≠ .closed → curInst T = some n) ∧
      (∀ n' x', s.insts[n']? = some x' → x'.st = .waiting → s.isCancelled x' = false →
        (∀ k f a r, e ≠ .cbin k n' f a r) → T.insts[n']? = some x') := by
    intro T h1 h2 h3
    exact ⟨fun n x hc _ _ => by rw [curInst_frame h1 h2]; exact hc, fun n' x' hx' _ _ _ => by rw [h3]; exact hx'⟩
  -- an event that rewrites one instance `m` which is not a live waiter
  have fi : ∀ (m : Nat) (y z : Inst), s.insts[m]? = some y → (y.st = .waiting → s.isCancelled y = true) →
      (∀ n x, curInst s = some n → s.insts[n]? = some x → x.st ≠ .closed → curInst (setInst s m z) = some n) ∧
      (∀ n' x', s.insts[n']? = some x' → x'.st = .waiting → s.isCancelled x' = false →
        (∀ k f a r, e ≠ .cbin k n' f a r) → (setInst s m z).insts[n']? = some x') := by
    intro m y z hy hg
    refine ⟨fun n x hc _ _ => by rw [curInst_frame (s' := setInst s m z) rfl rfl]; exact hc, ?_⟩
    intro n' x' hx' hw hl _
    by_cases hmn : m = n'
    · subst hmn; rw [hy] at hx'; cases hx'
      have := hg hw; rw [this] at hl; cases hl
    · simp [setInst, List.getElem?_set, hmn, hx']
  cases e with
  | cs a =>
    simp only [step, stepI] at hs
    split at hs
    · rename_i cf c hcf hc
      split at hs
      · rename_i hinv
        split at hs
        · split at hs
          · rename_i rinr _ _
            simp at hs; subst hs
            exact fr _ (by simp [setCall, waitSample, normCtx]; split <;> rfl)
              (by simp [setCall, waitSample, normCtx]; split <;> rfl) (by simp [setCall, waitSample])
          · cases hs
        · split at hs
          · cases hs
          · split at hs
            · rename_i r hr
              simp at hs; subst hs
              have := apiCS_quiet s cf _ r hr (hq a rfl c hc hinv)
              exact fr _ (by simp [setCall, this]) (by simp [setCall, this]) (by simp [setCall, this])
            · cases hs
      · cases hs
    · cases hs
  | giveUp m =>
    simp only [step, stepI] at hs
    split at hs
    · rename_i y hy
      split at hs
      · rename_i hg
        split at hs
        · simp at hs; subst hs; exact fi m y _ hy (fun _ => hg.2.1)
        · simp at hs; subst hs; exact fi m y _ hy (fun _ => hg.2.1)
      · cases hs
    · cases hs
  | drained m =>
    simp only [step, stepI] at hs
    split at hs
    · rename_i y hy
      split at hs
      · rename_i hg
        simp at hs; subst hs; exact fi m y _ hy (fun h => by rw [hg.1] at h; cases h)
      · cases hs
    · cases hs
  | cbin k m f arg root =>
    simp only [step, stepI] at hs
    split at hs
    · rename_i y hy
      split at hs
      · split at hs
        · simp at hs; subst hs
          refine ⟨fun n x hc _ _ => by rw [curInst_frame (s' := { (setInst s m { y with st := .running }) with ent := s.ent ++ [m] }) rfl rfl]; exact hc, ?_⟩
          intro n' x' hx' _ _ hne
          have hmn : m ≠ n' := by intro e0; subst e0; exact hne k f arg root rfl
          simp [setInst, List.getElem?_set, hmn, hx']
        · cases hs
      · cases hs
    · cases hs
  | cbout k o =>
    simp only [step, stepI] at hs
    split at hs
    · rename_i m hm
      split at hs
      · rename_i y hy
        split at hs
        · rename_i hg
          simp at hs; subst hs; exact fi m y _ hy (fun h => by rw [hg] at h; cases h)
        · cases hs
      · cases hs
    · cases hs
  | closeExit m =>
    simp only [step, stepI] at hs
    split at hs
    · rename_i y hy
      split at hs
      · rename_i hg
        simp at hs; subst hs; exact fi m y _ hy (fun h => by rw [hg] at h; cases h)
      · cases hs
    · cases hs
  | record m dur =>
    simp only [step, stepI] at hs
    split at hs
    · rename_i cf y _ hy
      split at hs
      · rename_i hgd
        refine ⟨fun n x hc _ _ => by rw [recordCS_curInst s s' cf m y dur hs]; exact hc, ?_⟩
        intro n' x' hx' hw _ _
        rw [recordCS_insts s s' cf m y dur hs]
        have hmn : m ≠ n' := by
          intro e0; subst e0; rw [hy] at hx'; cases hx'; rw [hgd.1] at hw; cases hw
        simp [List.getElem?_set, hmn, hx']
      · cases hs
    · cases hs
  | timerCS t =>
    simp only [step, stepI] at hs
    split at hs
    · rename_i tm htm
      split at hs
      · simp at hs; subst hs
        have ha1 : AllRec { s with timers := s.timers.set t { tm with st := .dead } } := allRec_frame ha rfl rfl
        refine ⟨?_, ?_⟩
        · intro n x hc hx hnc
          have hc1 : curInst { s with timers := s.timers.set t { tm with st := .dead } } = some n := by
            rw [curInst_frame (s' := { s with timers := s.timers.set t { tm with st := .dead } }) rfl rfl]; exact hc
          rw [timerBody_noop _ ha1 t tm.rid n x hc1 hx hnc]
          rw [curInst_frame (s' := St.bcastNow { s with timers := s.timers.set t { tm with st := .dead } }) rfl rfl]
          exact hc
        · intro n' x' hx' hw _ _
          exact timerBody_keep _ ha1 t tm.rid n' x' hx' (by rw [hw]; simp)
      · cases hs
    · cases hs
  | cfg c =>
    simp only [step, stepI] at hs
    split at hs
    · simp at hs; subst hs; exact fr _ rfl rfl rfl
    · cases hs
  | inv a op =>
    simp only [step, stepI] at hs
    split at hs
    · simp at hs; subst hs; exact fr _ rfl rfl rfl
    · cases hs
  | ret a r =>
    simp only [step, stepI] at hs
    split at hs
    · split at hs
      · simp at hs; subst hs; exact fr _ rfl rfl rfl
      · split at hs
        · simp at hs; subst hs; exact fr _ rfl rfl rfl
        · cases hs
    · cases hs
  | wake a =>
    simp only [step, stepI] at hs
    split at hs
    · split at hs
      · split at hs
        · simp at hs; subst hs; exact fr _ rfl rfl rfl
        · cases hs
      · cases hs
    · cases hs
  | wctx a =>
    simp only [step, stepI] at hs
    split at hs
    · split at hs
      · split at hs
        · simp at hs; subst hs; exact fr _ rfl rfl rfl
        · cases hs
      · cases hs
    · cases hs
  | envCancel c =>
    simp only [step, stepI] at hs
    split at hs
    · simp at hs; subst hs; exact fr _ rfl rfl rfl
    · cases hs
  | envDo c =>
    simp only [step, stepI] at hs
    split at hs
    · simp at hs; subst hs; exact fr _ rfl rfl rfl
    · cases hs
  | envCancelW a =>
    simp only [step, stepI] at hs
    split at hs
    · split at hs
      · simp at hs; subst hs; exact fr _ rfl rfl rfl
      all_goals cases hs
    · cases hs
  | envErr a e0 =>
    simp only [step, stepI] at hs
    split at hs
    · split at hs
      · simp at hs; subst hs; exact fr _ rfl rfl rfl
      all_goals cases hs
    · cases hs
  | emit o =>
    simp only [step, stepI] at hs
    split at hs
    · split at hs
      · simp at hs; subst hs; exact fr _ rfl rfl rfl
      · cases hs
    · cases hs
  | fire t =>
    simp only [step, stepI] at hs
    split at hs
    · split at hs
      · simp at hs; subst hs; exact fr _ rfl rfl rfl
      · cases hs
    · cases hs
  | probeCtx k b =>
    simp only [step, stepI] at hs
    split at hs
    · split at hs
      · simp at hs; subst hs; exact fr _ rfl rfl rfl
      · cases hs
    · cases hs
  | probeW a b =>
    simp only [step, stepI] at hs
    split at hs
    · split at hs
      · split at hs
        · simp at hs; subst hs; exact fr _ rfl rfl rfl
        · cases hs
      · cases hs
    · cases hs
  | quiesce p r l =>
    simp only [step] at hs
    split at hs
    · simp at hs; subst hs; exact fr _ rfl rfl rfl
    · cases hs

/-! ## a successor waits for instance `n` -/

/-- some instance with a live context waits for the exit of instance `n` (and nothing has announced the
cancellation of its root context) -/
def WaitOn (s : St) (n : Nat) : Prop :=
  ∃ (n' : Nat) (x' : Inst), s.insts[n']? = some x' ∧ x'.st = .waiting ∧ x'.waitOn = some n ∧
    s.isCancelled x' = false ∧ s.pcancel.contains x'.root = false

/-- cancelled and announced roots only grow through `envCancel` -/
theorem step_cr_back (s s' : St) (e : Ev) (ha : AllRec s) (hs : step s e = some s') (hne : ∀ c, e ≠ .envCancel c) :
    ∀ c, s'.croots.contains c = true ∨ s'.pcancel.contains c = true →
      s.croots.contains c = true ∨ s.pcancel.contains c = true := by
  cases hsp : e.special with
  | false => exact (step_keep s s' e ha hs hsp).cr
  | true =>
    cases e with
    | inv a op =>
      simp only [step, stepI] at hs
      split at hs
      · simp at hs; subst hs; exact fun _ h => h
      · cases hs
    | cbin k n f a r =>
      simp only [step, stepI] at hs
      split at hs
      · split at hs
        · split at hs
          · simp at hs; subst hs; exact fun _ h => h
          · cases hs
        · cases hs
      · cases hs
    | cbout k o =>
      simp only [step, stepI] at hs
      split at hs
      · split at hs
        · split at hs
          · simp at hs; subst hs; exact fun _ h => h
          · cases hs
        · cases hs
      · cases hs
    | envCancel c => exact absurd rfl (hne c)
    | _ => simp [Ev.special] at hsp

theorem WaitOn.keep {s s' : St} {e : Ev} {n : Nat} (h : WaitOn s n) (ha : AllRec s) (hs : step s e = some s')
    (hq : ∀ a, e = .cs a → ∀ c, s.calls[a]? = some c → c.st = .invoked → c.op.quiet = true)
    (hne : ∀ c, e ≠ .envCancel c)
    (hcb : ∀ k m f a r, e = .cbin k m f a r → ∀ x, s.insts[m]? = some x → x.waitOn ≠ some n) : WaitOn s' n := by
  obtain ⟨n', x', hx', hw, hwo, hlive, hpc⟩ := h
  have hst := (step_stable s s' e ha hs hq).2 n' x' hx' hw hlive (by
    intro k f a r e0
    exact hcb k n' f a r e0 x' hx' hwo)
  have hback := step_cr_back s s' e ha hs hne x'.root
  simp only [St.isCancelled, Bool.or_eq_false_iff] at hlive
  have h1 : s'.croots.contains x'.root = false := by
    cases hc : s'.croots.contains x'.root with
    | false => rfl
    | true =>
      rcases hback (Or.inl hc) with g | g
      · rw [hlive.2] at g; cases g
      · rw [hpc] at g; cases g
  have h2 : s'.pcancel.contains x'.root = false := by
    cases hc : s'.pcancel.contains x'.root with
    | false => rfl
    | true =>
      rcases hback (Or.inr hc) with g | g
      · rw [hlive.2] at g; cases g
      · rw [hpc] at g; cases g
  exact ⟨n', x', hst, hw, hwo, by simp only [St.isCancelled, hlive.1, h1, Bool.or_self], h2⟩

theorem startRec_spawnW (S : St) (r c : Nat) (w : Option Nat) (y : Rec) (hy : S.recs[r]? = some y)
    (hskip : startSkips S y false = false) :
    (startRec S r c w false).insts = (stopRec S r).insts ++
        [{ rid := r, root := c, waitOn := w, born := S.croots.contains c }] ∧
    (startRec S r c w false).croots = S.croots ∧ (startRec S r c w false).pcancel = S.pcancel := by
  unfold startRec
  simp only [hy, hskip, Bool.false_eq_true, if_false]
  refine ⟨?_, ?_, ?_⟩ <;> simp

/-- **SetContext(ctx ≠ nil, restart = false) that reports a change while the current instance executes starts a
successor under the new context**, which waits for that instance -/
theorem setContextCS_spawn (s : St) (hg : Good s) (ctx : Nat) (hctx : ctx ≠ 0) (n : Nat) (x : Inst)
    (hcur : curInst s = some n) (hx : s.insts[n]? = some x) (hrun : x.st = .running)
    (hcr : s.croots.contains ctx = false) (hpc : s.pcancel.contains ctx = false)
    (hres : (setContextCS s ctx false).2 = true) : WaitOn (setContextCS s ctx false).1 n := by
  cases hrt : s.routine with
  | none => simp [curInst, curRec, hrt] at hcur
  | some r =>
    cases hrr : s.recs[r]? with
    | none => simp [curInst, curRec, hrt, hrr] at hcur
    | some rr =>
      have hrc : rr.rctx = some n := by simpa [curInst, curRec, hrt, hrr] using hcur
      have hinv := hg.recs r rr hrr
      have hnc : x.st ≠ .closed := by rw [hrun]; simp
      have herr : rr.err = none := by
        cases he : rr.err with
        | none => rfl
        | some v =>
          obtain ⟨z, hz, hzc⟩ := hinv.kx (Or.inl (by rw [he]; simp)) n hrc
          rw [hx] at hz; cases hz; exact absurd hzc hnc
      have hsucc : rr.success = false := by
        cases hsu : rr.success with
        | false => rfl
        | true =>
          obtain ⟨z, hz, hzc⟩ := hinv.kx (Or.inr (hinv.ks hsu)) n hrc
          rw [hx] at hz; cases hz; exact absurd hzc hnc
      have hech : rr.exitedCh = some n := by
        rcases hinv.j1 n hrc with e | e
        · exact e
        · exfalso
          have hl : lastOf s = none := by rw [lastOf_of hrt hrr]; exact e
          have := hg.chain.topNone (by simp [proj, hl]) n (by simp [proj]; exact get_lt hx)
          rw [isClosed_proj] at this
          simp [instClosed, hx, hrun] at this
      -- unfold the critical section
      simp only [setContextCS, hrt, hrr, herr] at hres ⊢
      by_cases hsame : (s.ctx == ctx) = true
      · simp [hsame] at hres
      · simp only [hsame, Bool.false_and, Bool.false_eq_true, if_false, Option.isNone_none, Option.isSome_none,
          Bool.true_or, Bool.true_and, bne_iff_ne, ne_eq, hctx, not_false_eq_true, decide_true, if_true] at hres ⊢
        -- the record is stopped, then started under the new context
        have hs2 : ∀ T : St, T.recs = s.recs → (stopRec T r).recs[r]? = some rr.stopped := by
          intro T hT; rw [stopRec_recs_get]; simp [hT, hrr]
        have hskip : ∀ T : St, startSkips T rr.stopped false = false := by
          intro T; simp [startSkips, Rec.stopped, hsucc]
        obtain ⟨hI, hC, hP⟩ := startRec_spawnW (stopRec { s with ctx := ctx, routine := some r } r) r ctx rr.exitedCh
          rr.stopped (hs2 _ rfl) (hskip _)
        refine ⟨(stopRec (stopRec { s with ctx := ctx, routine := some r } r) r).insts.length,
          { rid := r, root := ctx, waitOn := rr.exitedCh,
            born := (stopRec { s with ctx := ctx, routine := some r } r).croots.contains ctx },
          ?_, rfl, hech, ?_, ?_⟩
        · show (startRec _ r ctx rr.exitedCh false).insts[_]? = _
          rw [hI]; simp
        · show ((false : Bool) || (startRec _ r ctx rr.exitedCh false).croots.contains ctx) = false
          rw [hC]; simpa using hcr
        · show (startRec _ r ctx rr.exitedCh false).pcancel.contains ctx = false
          rw [hP]; simpa using hpc

/-! ## the link -/

/-- the part of the monitor state that the healthy-instance clause uses -/
def toHa (ms : C14hbSt) : C14haSt :=
  { running := ms.running, pendMut := ms.pendMut, croots := ms.croots, roots := ms.roots, seenLive := ms.seenLive }

structure XRest (s : St) (ms : C14hbSt) : Prop where
  /-- an untouched instance that was seen live is (still) the container's current instance -/
  ck : ∀ p ∈ ms.running, p.2 = false → p.1 ∈ ms.seenLive → ∃ n, s.ent[p.1]? = some n ∧ curInst s = some n
  ml : ∀ a k, (a, k) ∈ ms.moved → a < s.calls.length ∧ k < s.ent.length
  /-- a qualifying SetContext call in flight: nothing else is in flight; before its critical section the instance
  is current, after a critical section that reported a change a successor waits for it -/
  mv : ∀ a k, (a, k) ∈ ms.moved → ∀ c, s.calls[a]? = some c → c.st ≠ .finished →
         ms.pendMut = [a] ∧ ∃ ctx, c.op = .setContext ctx false ∧ ctx ≠ 0 ∧ s.croots.contains ctx = false ∧
           s.pcancel.contains ctx = false ∧
           ((∃ b, (k, b) ∈ ms.running) →
              ((∀ r, c.st ≠ .done r) → ∃ n, s.ent[k]? = some n ∧ curInst s = some n) ∧
              (c.st = .done (.bool true) → ∃ n, s.ent[k]? = some n ∧ WaitOn s n))
  ex : ms.expectRun = true → ms.pendMut = [] ∧ ∃ (k n : Nat), s.ent[k]? = some n ∧ WaitOn s n

structure XLink (s : St) (ms : C14hbSt) : Prop where
  hl : HLink s (toHa ms)
  xr : XRest s ms

theorem xlink_init : XLink {} {} :=
  ⟨hlink_init, ⟨(by intro p hp; cases hp), (by intro a k h; cases h), (by intro a k h; cases h), (by intro h; cases h)⟩⟩

/-- events that are neither the critical section of a mutating call, nor `envCancel`, nor `cbin`, nor move a call -/
theorem xrest_keep {s s' : St} {e : Ev} {ms : C14hbSt} (hl : XLink s ms) (ha : AllRec s) (hs : step s e = some s')
    (hq : ∀ a, e = .cs a → ∀ c, s.calls[a]? = some c → c.st = .invoked → c.op.quiet = true)
    (hne : ∀ c, e ≠ .envCancel c) (hcb : ∀ k m f a r, e ≠ .cbin k m f a r)
    (a0 : Nat) (hx : CallsExcept s s' a0) (hlen : s'.calls.length = s.calls.length)
    (hno : ∀ k, (a0, k) ∉ ms.moved) : XRest s' ms := by
  have hent : s'.ent = s.ent := step_ent s s' e ha hs hcb
  have hst := step_stable s s' e ha hs hq
  have hback := step_cr_back s s' e ha hs hne
  have hcb' : ∀ (n : Nat) k m f a r, e = .cbin k m f a r → ∀ x, s.insts[m]? = some x → x.waitOn ≠ some n :=
    fun n k m f a r e0 => absurd e0 (hcb k m f a r)
  have hcur : ∀ k b, (k, b) ∈ ms.running → ∀ n, s.ent[k]? = some n → curInst s = some n → curInst s' = some n := by
    intro k b hkb n hn hc
    obtain ⟨m, x, h1, h2, h3, _⟩ := hl.hl.run (k, b) hkb
    rw [hn] at h1; cases h1
    exact hst.1 n x hc h2 (by rw [h3]; simp)
  refine ⟨?_, ?_, ?_, ?_⟩
  · intro p hp hp2 hsl
    obtain ⟨n, hn, hc⟩ := hl.xr.ck p hp hp2 hsl
    exact ⟨n, by rw [hent]; exact hn, hcur p.1 p.2 hp n hn hc⟩
  · intro a k hm
    have := hl.xr.ml a k hm
    rw [hlen, hent]; exact this
  · intro a k hm c' hc' hnf
    have hane : a ≠ a0 := by intro e0; subst e0; exact hno k hm
    obtain ⟨c, hc, hrel⟩ := hx.bw a c' hane hc'
    obtain ⟨h1, ctx, h2, h3, h4, h5, h6⟩ := hl.xr.mv a k hm c hc (fun h => hnf (hrel.2.2.1.2 h))
    refine ⟨h1, ctx, by rw [hrel.1]; exact h2, h3, ?_, ?_, ?_⟩
    · cases hcc : s'.croots.contains ctx with
      | false => rfl
      | true =>
        rcases hback ctx (Or.inl hcc) with g | g
        · rw [h4] at g; cases g
        · rw [h5] at g; cases g
    · cases hcc : s'.pcancel.contains ctx with
      | false => rfl
      | true =>
        rcases hback ctx (Or.inr hcc) with g | g
        · rw [h4] at g; cases g
        · rw [h5] at g; cases g
    · rintro ⟨b, hkb⟩
      obtain ⟨g1, g2⟩ := h6 ⟨b, hkb⟩
      refine ⟨?_, ?_⟩
      · intro hnd
        obtain ⟨n, hn, hcn⟩ := g1 (fun r h => hnd r ((hrel.2.1 r).2 h))
        exact ⟨n, by rw [hent]; exact hn, hcur k b hkb n hn hcn⟩
      · intro hd
        obtain ⟨n, hn, hwn⟩ := g2 ((hrel.2.1 _).1 hd)
        exact ⟨n, by rw [hent]; exact hn, hwn.keep ha hs hq hne (hcb' n)⟩
  · intro he
    obtain ⟨h1, k, n, hn, hwn⟩ := hl.xr.ex he
    exact ⟨h1, k, n, by rw [hent]; exact hn, hwn.keep ha hs hq hne (hcb' n)⟩

/-- monitor-side changes that only shrink the obligations -/
theorem XRest.weaken {s : St} {ms ms' : C14hbSt} (h : XRest s ms)
    (h1 : ∀ p ∈ ms'.running, p.2 = false → p ∈ ms.running)
    (h2 : ∀ k b, (k, b) ∈ ms'.running → ∃ b', (k, b') ∈ ms.running)
    (h3 : ∀ k, k ∈ ms'.seenLive → k ∈ ms.seenLive)
    (h4 : ms'.moved = ms.moved) (h5 : ms'.pendMut = ms.pendMut) (h6 : ms'.expectRun = ms.expectRun) :
    XRest s ms' := by
  refine ⟨?_, ?_, ?_, ?_⟩
  · intro p hp hp2 hsl
    exact h.ck p (h1 p hp hp2) hp2 (h3 _ hsl)
  · intro a k hm; rw [h4] at hm; exact h.ml a k hm
  · intro a k hm c hc hnf
    rw [h4] at hm
    obtain ⟨g1, ctx, g2, g3, g4, g5, g6⟩ := h.mv a k hm c hc hnf
    refine ⟨by rw [h5]; exact g1, ctx, g2, g3, g4, g5, ?_⟩
    rintro ⟨b, hkb⟩
    exact g6 (h2 k b hkb)
  · intro he; rw [h6] at he; rw [h5]; exact h.ex he

theorem xrest_keep_w {s s' : St} {e : Ev} {ms : C14hbSt} (hl : XLink s ms) (ha : AllRec s) (hs : step s e = some s')
    (hq : ∀ a, e = .cs a → ∀ c, s.calls[a]? = some c → c.st = .invoked → c.op.quiet = true)
    (hne : ∀ c, e ≠ .envCancel c) (hcb : ∀ k m f a r, e ≠ .cbin k m f a r)
    (hw : WrSame s s') : XRest s' ms :=
  xrest_keep hl ha hs hq hne hcb s.calls.length (callsExcept_of_wrSame hw _) hw.len
    (by intro k hm; have := (hl.xr.ml _ k hm).1; omega)

theorem movedOf_mem {running : List (Nat × Bool)} {croots seenLive pendMut : List Nat} {a : Nat} {op : Op}
    {a1 k1 : Nat} (h : (a1, k1) ∈ movedOf running croots seenLive pendMut a op) :
    a1 = a ∧ ∃ c, op = .setContext c false ∧ running = [(k1, false)] ∧ c ≠ 0 ∧ croots.contains c = false ∧
      k1 ∈ seenLive ∧ pendMut = [] := by
  unfold movedOf at h
  split at h
  · rename_i c k
    split at h
    · rename_i hcond
      simp only [List.mem_singleton, Prod.mk.injEq] at h
      obtain ⟨e1, e2⟩ := h
      subst e1; subst e2
      simp only [Bool.and_eq_true, bne_iff_ne, ne_eq, Bool.not_eq_true', List.contains_iff_mem,
        List.isEmpty_iff] at hcond
      exact ⟨rfl, c, rfl, rfl, hcond.1.1.1, hcond.1.1.2, hcond.1.2, hcond.2⟩
    · cases h
  · cases h

theorem expOf_true {moved : List (Nat × Nat)} {running : List (Nat × Bool)} {pm : List Nat} {a : Nat} {r : Res}
    (h : expOf moved running pm a r = true) :
    r = .bool true ∧ ∃ k, (a, k) ∈ moved ∧ (∃ b, (k, b) ∈ running) ∧ pm = [] := by
  unfold expOf at h
  split at h
  · rename_i p hf
    simp only [Bool.and_eq_true, List.any_eq_true, beq_iff_eq, List.isEmpty_iff] at h
    obtain ⟨⟨q, hq, hqk⟩, hpm⟩ := h
    have hmem := List.mem_of_find?_eq_some hf
    have hp1 : p.1 = a := by simpa using List.find?_some hf
    refine ⟨rfl, p.2, by rw [← hp1]; exact hmem, ⟨q.2, by rw [← hqk]; exact hq⟩, hpm⟩
  · cases h

theorem ite_none_some {α : Type} {c : Bool} {x y : α} (h : (if c = true then none else some x) = some y) :
    c = false ∧ x = y := by
  cases c with
  | true => simp at h
  | false => simpa using h

theorem WaitOn.setCall {s : St} {n : Nat} (h : WaitOn s n) (a : Nat) (c : Call) : WaitOn (setCall s a c) n := h

/-- one step of the model against `monC14hb` -/
theorem xl_step (s s' : St) (e : Ev) (ms : C14hbSt) (msA : C04St) (hl : XLink s ms) (hA : LinkA s msA)
    (hg : Good s) (hc : Cur s) (hs : step s e = some s') :
    match Ev.obs e with
    | none => XLink s' ms
    | some o => ∃ ms', monC14hb.step ms o = some ms' ∧ XLink s' ms' := by
  have ha := hg.recs
  have hha := hl_step s s' e (toHa ms) msA hl.hl hA ha hs
  have hnq : ∀ e' : Ev, (∀ a, e' ≠ .cs a) → ∀ a, e' = .cs a → ∀ c, s.calls[a]? = some c → c.st = .invoked →
      c.op.quiet = true := fun e' h a e0 => absurd e0 (h a)
  -- events that do not move a call, are not `envCancel` and not `cbin`
  have hgen : e.callEv = false → (∀ c, e ≠ .envCancel c) → (∀ k m f a r, e ≠ .cbin k m f a r) → XRest s' ms := by
    intro h1 h2 h3
    exact xrest_keep_w hl ha hs (by intro a e0; subst e0; simp [Ev.callEv] at h1) h2 h3 (step_wrSame s s' e hs h1)
  cases e with
  | cs a =>
    have hshape : ∃ (S : St) (cf : Cfg) (c c'' : Call), s.cfg = some cf ∧ WrSame s S ∧ s.calls[a]? = some c ∧
        c.st = .invoked ∧ s' = setCall S a c'' ∧
        ((∃ b, c.op = .waitExited b) ∨
         (∃ r, apiCS s cf c.op = some r ∧ S = r.1 ∧ c'' = { c with st := .done r.2.1, wr := r.2.2 })) := by
      simp only [step, stepI] at hs
      split at hs
      · rename_i cf c hcf hc0
        split at hs
        · rename_i hinv
          split at hs
          · rename_i rinr hop
            split at hs
            · simp at hs
              exact ⟨(waitSample s rinr).1, cf, c, _, hcf, WrSame.of_eq (by simp [waitSample]), hc0, hinv, hs.symm,
                Or.inl ⟨rinr, hop⟩⟩
            · cases hs
          · split at hs
            · cases hs
            · split at hs
              · rename_i r hr
                simp at hs
                exact ⟨r.1, cf, c, _, hcf, wrSame_apiCS s cf _ r hr, hc0, hinv, hs.symm, Or.inr ⟨r, hr, rfl, rfl⟩⟩
              · cases hs
        · cases hs
      · cases hs
    obtain ⟨S, cf, c, c'', hcf, hw, hc0, hinv, hs', hkind⟩ := hshape
    have hx : CallsExcept s s' a := by rw [hs']; exact callsExcept_setCall hw a c''
    have hlen : s'.calls.length = s.calls.length := by rw [hs']; simp [setCall, hw.len]
    cases hqu : c.op.quiet with
    | true =>
      -- the critical section of GetState / WaitExited
      have hq : ∀ a', Ev.cs a = .cs a' → ∀ c', s.calls[a']? = some c' → c'.st = .invoked → c'.op.quiet = true := by
        intro a' e0 c' hc' _; cases e0; rw [hc0] at hc'; cases hc'; exact hqu
      refine ⟨hha, xrest_keep hl ha hs hq (by intro c h; cases h) (by intro _ _ _ _ _ h; cases h) a hx hlen ?_⟩
      intro k hm
      obtain ⟨_, ctx, hop, _⟩ := hl.xr.mv a k hm c hc0 (by rw [hinv]; simp)
      rw [hop] at hqu; simp [Op.quiet] at hqu
    | false =>
      -- the critical section of a mutating call: it is in flight for the monitor
      have hmem : a ∈ ms.pendMut := by
        rcases hl.hl.cl a c hc0 hqu with h | h
        · rw [hinv] at h; cases h
        · exact h
      have hne : ms.pendMut ≠ [] := by intro h; rw [h] at hmem; cases hmem
      have hapi : ∃ r, apiCS s cf c.op = some r ∧ s' = setCall r.1 a { c with st := .done r.2.1, wr := r.2.2 } := by
        rcases hkind with ⟨b, hop⟩ | ⟨r, hr, e1, e2⟩
        · rw [hop] at hqu; simp [Op.quiet] at hqu
        · subst e1; subst e2; exact ⟨r, hr, hs'⟩
      obtain ⟨r, hr, hs''⟩ := hapi
      have hlt : a < r.1.calls.length := by rw [(wrSame_apiCS s cf _ r hr).len]; exact get_lt hc0
      have hget : s'.calls[a]? = some { c with st := .done r.2.1, wr := r.2.2 } := by
        rw [hs'']; exact setCall_get a _ hlt
      refine ⟨hha, ?_, ?_, ?_, ?_⟩
      · intro p hp hp2 _
        exact absurd (hl.hl.pm p hp hp2) hne
      · intro a1 k hm
        have := hl.xr.ml a1 k hm
        rw [hlen, hs'']
        simpa [setCall, apiCS_ent s cf _ r hr] using this
      · intro a1 k hm c' hc' hnf
        have ha1 : a1 = a := by
          apply Classical.byContradiction
          intro hne1
          obtain ⟨c1, hc1, hrel⟩ := hx.bw a1 c' hne1 hc'
          have := (hl.xr.mv a1 k hm c1 hc1 (fun h => hnf (hrel.2.2.1.2 h))).1
          rw [this] at hmem
          simp only [List.mem_singleton] at hmem
          exact hne1 hmem.symm
        subst ha1
        rw [hget] at hc'; cases hc'
        obtain ⟨h1, ctx, h2, h3, h4, h5, h6⟩ := hl.xr.mv a1 k hm c hc0 (by rw [hinv]; simp)
        refine ⟨h1, ctx, h2, h3, ?_, ?_, ?_⟩
        · rw [hs'']; simpa [setCall, apiCS_croots s cf _ r hr] using h4
        · rw [hs'']; simpa [setCall, apiCS_pcancel s cf _ r hr] using h5
        · rintro ⟨b, hkb⟩
          refine ⟨fun hnd => absurd rfl (hnd r.2.1), ?_⟩
          intro hd
          simp only [CallSt.done.injEq] at hd
          obtain ⟨n, hn, hcn⟩ := (h6 ⟨b, hkb⟩).1 (by intro r0 h0; rw [hinv] at h0; cases h0)
          obtain ⟨m, x, g1, g2, g3, _⟩ := hl.hl.run (k, b) hkb
          rw [hn] at g1; cases g1
          refine ⟨n, by rw [hs'']; simpa [setCall, apiCS_ent s cf _ r hr] using hn, ?_⟩
          rw [h2] at hr
          simp only [apiCS, Option.some.injEq] at hr
          subst hr
          simp only [Res.bool.injEq] at hd
          rw [hs'']
          exact (setContextCS_spawn s hg ctx h3 n x hcn g2 g3 h4 h5 hd).setCall _ _
      · intro he
        exact absurd (hl.xr.ex he).1 hne
  | inv a op =>
    simp only [step, stepI] at hs
    split at hs
    · rename_i hcfg
      simp at hs; subst hs
      have haeq : a = s.calls.length := hcfg.2
      subst haeq
      have hget : ({ s with calls := s.calls ++ [({ op := op } : Call)] } : St).calls[s.calls.length]? =
          some ({ op := op } : Call) := by simp
      have hold : ∀ a1, a1 < s.calls.length →
          ({ s with calls := s.calls ++ [({ op := op } : Call)] } : St).calls[a1]? = s.calls[a1]? := by
        intro a1 h1; simp only; rw [List.getElem?_append_left h1]
      obtain ⟨msa', hm1, hH⟩ := hha
      cases hqu : op.quiet with
      | true =>
        have : msa' = toHa ms := by simp [Ev.obs, monC14ha, hqu, toHa] at hm1; exact hm1.symm
        subst this
        refine ⟨ms, by simp [Ev.obs, monC14hb, hqu], hH, ?_, ?_, ?_, ?_⟩
        · intro p hp hp2 hsl; exact hl.xr.ck p hp hp2 hsl
        · intro a1 k hm
          have := hl.xr.ml a1 k hm
          simp only [List.length_append, List.length_singleton]
          exact ⟨by omega, this.2⟩
        · intro a1 k hm c' hc' hnf
          rw [hold a1 (hl.xr.ml a1 k hm).1] at hc'
          exact hl.xr.mv a1 k hm c' hc' hnf
        · exact hl.xr.ex
      | false =>
        have : msa' = toHa { ms with running := ms.running.map (fun p => (p.1, true)), pendMut := s.calls.length :: ms.pendMut, expectRun := false, moved := movedOf ms.running ms.croots ms.seenLive ms.pendMut s.calls.length op } := by
          simp [Ev.obs, monC14ha, hqu, toHa] at hm1; exact hm1.symm
        subst this
        refine ⟨_, by simp only [Ev.obs, monC14hb, hqu]; rfl, hH, ?_, ?_, ?_, ?_⟩
        · intro p hp hp2 _
          simp only [List.mem_map] at hp
          obtain ⟨p0, _, e0⟩ := hp
          subst e0; cases hp2
        · intro a1 k hm
          obtain ⟨e1, ctx, _, hrun, _⟩ := movedOf_mem hm
          subst e1
          obtain ⟨m, x, g1, _⟩ := hl.hl.run (k, false) (by simp [toHa, hrun])
          exact ⟨by simp, get_lt g1⟩
        · intro a1 k hm c' hc' hnf
          obtain ⟨e1, ctx, hop, hrun, hc0, hcr, hsl, hpm⟩ := movedOf_mem hm
          subst e1
          rw [hget] at hc'; cases hc'
          have hnc : s.croots.contains ctx = false ∧ s.pcancel.contains ctx = false := by
            constructor
            · cases h0 : s.croots.contains ctx with
              | false => rfl
              | true => have := hl.hl.cr ctx (Or.inl h0); simp only [toHa] at this; rw [hcr] at this; cases this
            · cases h0 : s.pcancel.contains ctx with
              | false => rfl
              | true => have := hl.hl.cr ctx (Or.inr h0); simp only [toHa] at this; rw [hcr] at this; cases this
          refine ⟨by simp [hpm], ctx, hop, hc0, hnc.1, hnc.2, ?_⟩
          intro _
          refine ⟨fun _ => ?_, fun h => by cases h⟩
          exact hl.xr.ck (k, false) (by simp [hrun]) rfl hsl
        · intro h; cases h
    · cases hs
  | ret a r =>
    have hshape : ∃ c : Call, s.calls[a]? = some c ∧ (c.st = .done r ∨ (c.st = .wcancel ∧ wxOK s a r = true)) ∧
        s' = setCall s a { c with st := .finished } := by
      simp only [step, stepI] at hs
      split at hs
      · rename_i c hc0
        split at hs
        · rename_i h; simp at hs; exact ⟨c, hc0, Or.inl h, hs.symm⟩
        · split at hs
          · rename_i h; simp at hs; exact ⟨c, hc0, Or.inr h, hs.symm⟩
          · cases hs
      · cases hs
    obtain ⟨c, hc0, hst, hs'⟩ := hshape
    subst hs'
    have hgetne : ∀ a1, a1 ≠ a → (setCall s a { c with st := .finished }).calls[a1]? = s.calls[a1]? := by
      intro a1 h1; simp [setCall, List.getElem?_set, Ne.symm h1]
    have hget := setCall_get (S := s) a { c with st := .finished } (get_lt hc0)
    obtain ⟨msa', hm1, hH⟩ := hha
    have : msa' = toHa { ms with pendMut := ms.pendMut.filter (· != a), expectRun := ms.expectRun || expOf ms.moved ms.running (ms.pendMut.filter (· != a)) a r } := by
      simp [Ev.obs, monC14ha, toHa] at hm1; exact hm1.symm
    subst this
    refine ⟨_, rfl, hH, ?_, ?_, ?_, ?_⟩
    · intro p hp hp2 hsl; exact hl.xr.ck p hp hp2 hsl
    · intro a1 k hm
      have := hl.xr.ml a1 k hm
      simpa [setCall] using this
    · intro a1 k hm c' hc' hnf
      have ha1 : a1 ≠ a := by
        intro e0; subst e0; rw [hget] at hc'; cases hc'; exact hnf rfl
      rw [hgetne a1 ha1] at hc'
      obtain ⟨h1, rest⟩ := hl.xr.mv a1 k hm c' hc' hnf
      refine ⟨?_, rest⟩
      simp only [toHa] at h1 ⊢
      rw [h1]; simp [ha1]
    · intro he
      simp only [Bool.or_eq_true] at he
      rcases he with he | he
      · obtain ⟨h1, rest⟩ := hl.xr.ex he
        exact ⟨by simp [h1], rest⟩
      · obtain ⟨hr, k, hm, hkb, hpm⟩ := expOf_true he
        subst hr
        have hdone : c.st = .done (.bool true) := by
          rcases hst with h | h
          · exact h
          · simp [wxOK] at h
        obtain ⟨_, ctx, _, _, _, _, h6⟩ := hl.xr.mv a k hm c hc0 (by rw [hdone]; simp)
        obtain ⟨n, hn, hw⟩ := (h6 hkb).2 hdone
        exact ⟨hpm, k, n, hn, hw⟩
  | cbin k m f arg root =>
    simp only [step, stepI] at hs
    split at hs
    · rename_i x hx
      split at hs
      · split at hs
        · rename_i r hr hgd
          simp at hs; subst hs
          obtain ⟨hw, hpc, _, hk, _, _, hroot⟩ := hgd
          subst hk
          obtain ⟨msa', hm1, hH⟩ := hha
          have : msa' = toHa { ms with running := ms.running ++ [(s.ent.length, !ms.pendMut.isEmpty)], roots := (s.ent.length, root) :: ms.roots, expectRun := false } := by
            simp [Ev.obs, monC14ha, toHa] at hm1; exact hm1.symm
          subst this
          have hentold : ∀ (k1 n : Nat), s.ent[k1]? = some n → (s.ent ++ [m])[k1]? = some n := by
            intro k1 n h; rw [List.getElem?_append_left (get_lt h)]; exact h
          refine ⟨_, rfl, hH, ?_, ?_, ?_, ?_⟩
          · intro p hp hp2 hsl
            simp only [List.mem_append, List.mem_singleton] at hp
            rcases hp with hp | hp
            · obtain ⟨n, hn, hcn⟩ := hl.xr.ck p hp hp2 hsl
              exact ⟨n, hentold _ _ hn, by rw [curInst_frame (s' := { (setInst s m { x with st := .running }) with ent := s.ent ++ [m] }) rfl rfl]; exact hcn⟩
            · subst hp
              have := hl.hl.sl _ hsl
              simp at this
          · intro a1 k1 hm
            have := hl.xr.ml a1 k1 hm
            exact ⟨this.1, by simp; omega⟩
          · intro a1 k1 hm c' hc' hnf
            obtain ⟨h1, ctx, h2, h3, h4, h5, h6⟩ := hl.xr.mv a1 k1 hm c' hc' hnf
            refine ⟨h1, ctx, h2, h3, h4, h5, ?_⟩
            rintro ⟨b, hkb⟩
            have hkb' : ∃ b', (k1, b') ∈ ms.running := by
              simp only [List.mem_append, List.mem_singleton, Prod.mk.injEq] at hkb
              rcases hkb with h | h
              · exact ⟨b, h⟩
              · have := (hl.xr.ml a1 k1 hm).2; omega
            obtain ⟨b', hkb2⟩ := hkb'
            obtain ⟨g1, g2⟩ := h6 ⟨b', hkb2⟩
            refine ⟨?_, ?_⟩
            · intro hnd
              obtain ⟨n, hn, hcn⟩ := g1 hnd
              exact ⟨n, hentold _ _ hn, by rw [curInst_frame (s' := { (setInst s m { x with st := .running }) with ent := s.ent ++ [m] }) rfl rfl]; exact hcn⟩
            · intro hd
              obtain ⟨n, hn, n', x', q1, q2, q3, q4, q5⟩ := g2 hd
              obtain ⟨mm, y, r1, r2, r3, _⟩ := hl.hl.run (k1, b') hkb2
              rw [hn] at r1; cases r1
              have hmn : m ≠ n' := by
                intro e0; subst e0
                rw [hx] at q1; cases q1
                simp only [predClosed, q3, instClosed, r2, r3] at hpc
                simp at hpc
              exact ⟨n, hentold _ _ hn, n', x', by simp [setInst, List.getElem?_set, hmn, q1], q2, q3, q4, q5⟩
          · intro h; cases h
        · cases hs
      · cases hs
    · cases hs
  | cbout k o =>
    have hxr := hgen rfl (by intro c h; cases h) (by intro _ _ _ _ _ h; cases h)
    obtain ⟨msa', hm1, hH⟩ := hha
    have : msa' = toHa { ms with running := ms.running.filter (·.1 != k) } := by
      simp [Ev.obs, monC14ha, toHa] at hm1; exact hm1.symm
    subst this
    refine ⟨_, rfl, hH, hxr.weaken ?_ ?_ (fun _ h => h) rfl rfl rfl⟩
    · intro p hp _; simp only [List.mem_filter] at hp; exact hp.1
    · intro k1 b hp; simp only [List.mem_filter] at hp; exact ⟨b, hp.1⟩
  | envCancel c =>
    simp only [step, stepI] at hs
    split at hs
    · simp at hs; subst hs
      obtain ⟨msa', hm1, hH⟩ := hha
      have : msa' = toHa { ms with croots := c :: ms.croots, expectRun := false, moved := [] } := by
        simp [Ev.obs, monC14ha, toHa] at hm1; exact hm1.symm
      subst this
      refine ⟨_, rfl, hH, ?_, ?_, ?_, ?_⟩
      · intro p hp hp2 hsl; exact hl.xr.ck p hp hp2 hsl
      · intro a k h; cases h
      · intro a k h; cases h
      · intro h; cases h
    · cases hs
  | probeCtx k b =>
    simp only [step, stepI] at hs
    split at hs
    · rename_i n hn
      split at hs
      · rename_i hb
        simp at hs; subst hs
        obtain ⟨msa', hm1, hH⟩ := hha
        cases b with
        | false =>
          have : msa' = toHa { ms with seenLive := k :: ms.seenLive } := by
            simp [Ev.obs, monC14ha, toHa] at hm1; exact hm1.symm
          subst this
          refine ⟨_, rfl, hH, ?_, hl.xr.ml, hl.xr.mv, hl.xr.ex⟩
          intro p hp hp2 hsl
          simp only [List.mem_cons] at hsl
          rcases hsl with e0 | hsl
          · -- seen live now: it is the current instance
            refine ⟨n, by rw [e0]; exact hn, ?_⟩
            cases hx : s.insts[n]? with
            | none => simp [ctxErrOf, hx] at hb
            | some x =>
              have hlive : s.isCancelled x = false := by simpa [ctxErrOf, hx] using hb
              cases hd : decide (curInst s = some n) with
              | true => simpa using hd
              | false =>
                have : curInst s ≠ some n := by simpa using hd
                have := hc.1.sc n x hx this
                rw [this] at hlive; cases hlive
          · exact hl.xr.ck p hp hp2 hsl
        | true =>
          simp only [Ev.obs, monC14ha, toHa] at hm1
          obtain ⟨hh, hmm⟩ := ite_none_some hm1
          subst hmm
          refine ⟨{ ms with running := ms.running.map fun p => if p.1 == k then (p.1, true) else p }, ?_, hH, ?_⟩
          · simp only [Ev.obs, monC14hb]
            rw [hh]; rfl
          · refine hl.xr.weaken ?_ ?_ (fun _ h => h) rfl rfl rfl
            · intro p hp hp2
              simp only [List.mem_map] at hp
              obtain ⟨p0, hp0, e0⟩ := hp
              by_cases hk : (p0.1 == k) = true
              · simp only [hk, if_true] at e0; subst e0; cases hp2
              · simp only [hk] at e0; subst e0; exact hp0
            · intro k1 b hp
              simp only [List.mem_map] at hp
              obtain ⟨p0, hp0, e0⟩ := hp
              by_cases hk : (p0.1 == k) = true
              · simp only [hk, if_true, Prod.mk.injEq] at e0; exact ⟨p0.2, by rw [← e0.1]; exact hp0⟩
              · simp only [hk] at e0; subst e0; exact ⟨_, hp0⟩
      · cases hs
    · cases hs
  | quiesce p r l =>
    have hxr := hgen rfl (by intro c h; cases h) (by intro _ _ _ _ _ h; cases h)
    obtain ⟨msa', hm1, hH⟩ := hha
    have : msa' = toHa ms := by simp [Ev.obs, monC14ha, toHa] at hm1; exact hm1.symm
    subst this
    refine ⟨ms, ?_, hH, hxr⟩
    simp only [step] at hs
    split at hs
    · rename_i hq
      simp at hs; subst hs
      have hrun : r = runningKs s := hq.2.2.1
      have hnot : (ms.expectRun && r.isEmpty) = false := by
        cases he : (ms.expectRun && r.isEmpty) with
        | false => rfl
        | true =>
          exfalso
          simp only [Bool.and_eq_true, List.isEmpty_iff] at he
          obtain ⟨_, k, n, hn, n', x', q1, q2, q3, _, _⟩ := hl.xr.ex he.1
          have hqs := hq.1
          simp only [quiescent, Bool.and_eq_true, List.all_eq_true] at hqs
          -- the waiter's predecessor has not exited
          have hw := hqs.2 x' (List.mem_of_getElem? q1)
          have hpn : instClosed s n = false := by
            simpa [q2, predClosed, q3] using hw
          obtain ⟨y, hy, hy1, hy2⟩ := hA.l3 k n hn
          -- … and it does not execute
          have hnr : y.st ≠ .running := by
            intro hr0
            have : k ∈ runningKs s := by
              simp only [runningKs, List.mem_filter, List.mem_range]
              exact ⟨get_lt hn, by simp [hn, hy, hr0]⟩
            rw [← hrun, he.2] at this; cases this
          have hret : y.st = .returned := by
            cases hst : y.st with
            | waiting => exact absurd hst hy1
            | draining => exact absurd hst hy2
            | running => exact absurd hst hnr
            | returned => rfl
            | closed => simp [instClosed, hy, hst] at hpn
          -- so its `closeExit` is enabled: the state is not quiescent
          have hcand := hqs.1.1.2 (.closeExit n) (by
            simp only [cands, List.mem_append]
            exact Or.inl (Or.inl (Or.inr (by
              simp only [List.mem_flatMap, List.mem_range]
              exact ⟨n, get_lt hy, by simp⟩))))
          simp [stepI, hy, hret] at hcand
      simp only [Ev.obs, monC14hb]
      rw [hnot]; rfl
    · cases hs
  | emit o =>
    have hxr := hgen rfl (by intro c h; cases h) (by intro _ _ _ _ _ h; cases h)
    have hline : o.isLine = true := by
      simp only [step, stepI] at hs
      split at hs
      · split at hs
        · rename_i h0; exact h0.2
        · cases hs
      · cases hs
    cases o <;> simp [Obs.isLine] at hline
    all_goals
      obtain ⟨msa', hm1, hH⟩ := hha
      have : msa' = toHa ms := by simp [Ev.obs, monC14ha, toHa] at hm1; exact hm1.symm
      subst this
      exact ⟨ms, rfl, hH, hxr⟩
  | _ =>
    have hxr := hgen rfl (by intro c h; cases h) (by intro _ _ _ _ _ h; cases h)
    first
    | exact ⟨hha, hxr⟩
    | (obtain ⟨msa', hm1, hH⟩ := hha
       have : msa' = toHa ms := by simp [Ev.obs, monC14ha, toHa] at hm1; exact hm1.symm
       subst this
       exact ⟨ms, rfl, hH, hxr⟩)

theorem xl_run (s0 s : St) (es : List Ev) (hg : Good s0) (hc : Cur s0) (ms0 : C14hbSt) (hl : XLink s0 ms0)
    (msA : C04St) (hA : LinkA s0 msA) (hr : model.run s0 es = some s) :
    ∃ ms, monC14hb.run ms0 (es.filterMap model.obs) = some ms ∧ XLink s ms := by
  induction es generalizing s0 ms0 msA with
  | nil => simp [OLTS.run] at hr; subst hr; exact ⟨ms0, rfl, hl⟩
  | cons e es ih =>
    simp only [OLTS.run] at hr
    cases hst : model.step s0 e with
    | none => simp [hst] at hr
    | some s1 =>
      simp [hst] at hr
      have hk := step_ok s0 s1 e hg.recs hst
      have hg1 : Good s1 := ⟨hk.1, hk.2.inv hg.chain⟩
      have hc1 := step_cur s0 s1 e hc hg.recs hst
      have hA1 := link_step s0 s1 e msA hA hg.recs hst hg1
      have hstep := xl_step s0 s1 e ms0 msA hl hA hg hc hst
      cases hob : Ev.obs e with
      | none =>
        rw [hob] at hA1 hstep
        obtain ⟨ms, h1, h2⟩ := ih s1 hg1 hc1 ms0 hstep msA hA1 hr
        refine ⟨ms, ?_, h2⟩
        have : model.obs e = none := hob
        simpa [List.filterMap_cons, this] using h1
      | some o =>
        rw [hob] at hA1 hstep
        obtain ⟨msA', _, hA'⟩ := hA1
        obtain ⟨ms1, hm1, hl1⟩ := hstep
        obtain ⟨ms, h1, h2⟩ := ih s1 hg1 hc1 ms1 hl1 msA' hA' hr
        refine ⟨ms, ?_, h2⟩
        have : model.obs e = some o := hob
        simp [List.filterMap_cons, this, ObsMonitor.run, hm1, h1]

end UtilModel.Routine
