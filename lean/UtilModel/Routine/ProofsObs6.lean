import UtilModel.Routine.ProofsObs5
import UtilModel.Routine.ProofsK4
/-!
# routine: the routine-function and stored-state registers against the model; the lineage clauses of C05

`step_faeq`: what an event does to the stored state, the state function and the function/argument of the records:
nothing, unless it is the critical section of an API call (`apiCS_*` lemmas below).
`fnVal` / `svVal`: the model side of the `fnR` / `svR` registers of `monC05`.
-/
namespace UtilModel.Routine
open UtilModel

theorem step_faeq (s s' : St) (e : Ev) (hs : step s e = some s') :
    (FAeq s s' ∧ ∀ a, e = .cs a → ∃ c b, s.calls[a]? = some c ∧ c.op = .waitExited b) ∨
    (s.cfg = none ∧ ∃ c, e = .cfg c ∧ s' = { s with cfg := some c }) ∨
    (∃ (a : Nat) (c : Call) (cf : Cfg) (r : St × Res × Option Nat), e = .cs a ∧ s.cfg = some cf ∧
      s.calls[a]? = some c ∧ c.st = .invoked ∧ apiCS s cf c.op = some r ∧ FAeq r.1 s' ∧
      ∃ c', s'.calls[a]? = some c' ∧ c'.st = .done r.2.1) := by
  cases e with
  | cfg c =>
    simp only [step, stepI] at hs
    split at hs
    · rename_i hn
      simp at hs; subst hs
      exact Or.inr (Or.inl ⟨by simpa using hn, c, rfl, rfl⟩)
    · cases hs
  | inv a op =>
    simp only [step, stepI] at hs
    split at hs
    · simp at hs; subst hs; exact Or.inl ⟨FAeq.of_recs rfl rfl rfl rfl rfl, by intro a' h'; cases h'⟩
    · cases hs
  | cs a =>
    simp only [step, stepI] at hs
    split at hs
    · rename_i cf c hcf hc
      split at hs
      · rename_i hinv
        split at hs
        · split at hs
          · rename_i rinr hop _
            simp at hs; subst hs
            left
            have h1 : FAeq s (waitSample s rinr).1 := by simp only [waitSample]; exact faeq_normCtx s
            exact ⟨h1.trans (FAeq.of_recs rfl rfl rfl rfl rfl), by intro a' h'; cases h'; exact ⟨c, rinr, hc, hop⟩⟩
          · cases hs
        · split at hs
          · cases hs
          · split at hs
            · rename_i r hr
              simp at hs; subst hs
              right; right
              have hlt : a < r.1.calls.length := by rw [(wrSame_apiCS s cf _ r hr).len]; exact get_lt hc
              exact ⟨a, c, cf, r, rfl, hcf, hc, hinv, hr, FAeq.of_recs rfl rfl rfl rfl rfl,
                _, setCall_get a _ hlt, rfl⟩
            · cases hs
      · cases hs
    · cases hs
  | ret a r =>
    simp only [step, stepI] at hs
    split at hs
    · split at hs
      · simp at hs; subst hs; exact Or.inl ⟨FAeq.of_recs rfl rfl rfl rfl rfl, by intro a' h'; cases h'⟩
      · split at hs
        · simp at hs; subst hs; exact Or.inl ⟨FAeq.of_recs rfl rfl rfl rfl rfl, by intro a' h'; cases h'⟩
        · cases hs
    · cases hs
  | wake a =>
    simp only [step, stepI] at hs
    split at hs
    · split at hs
      · split at hs
        · simp at hs; subst hs; exact Or.inl ⟨FAeq.of_recs rfl rfl rfl rfl rfl, by intro a' h'; cases h'⟩
        · cases hs
      · cases hs
    · cases hs
  | wctx a =>
    simp only [step, stepI] at hs
    split at hs
    · split at hs
      · split at hs
        · simp at hs; subst hs; exact Or.inl ⟨FAeq.of_recs rfl rfl rfl rfl rfl, by intro a' h'; cases h'⟩
        · cases hs
      · cases hs
    · cases hs
  | envCancel c =>
    simp only [step, stepI] at hs
    split at hs
    · simp at hs; subst hs; exact Or.inl ⟨FAeq.of_recs rfl rfl rfl rfl rfl, by intro a' h'; cases h'⟩
    · cases hs
  | envDo c =>
    simp only [step, stepI] at hs
    split at hs
    · simp at hs; subst hs; exact Or.inl ⟨FAeq.of_recs rfl rfl rfl rfl rfl, by intro a' h'; cases h'⟩
    · cases hs
  | envCancelW a =>
    simp only [step, stepI] at hs
    split at hs
    · split at hs
      · simp at hs; subst hs; exact Or.inl ⟨FAeq.of_recs rfl rfl rfl rfl rfl, by intro a' h'; cases h'⟩
      all_goals cases hs
    · cases hs
  | envErr a e0 =>
    simp only [step, stepI] at hs
    split at hs
    · split at hs
      · simp at hs; subst hs; exact Or.inl ⟨FAeq.of_recs rfl rfl rfl rfl rfl, by intro a' h'; cases h'⟩
      all_goals cases hs
    · cases hs
  | giveUp n =>
    simp only [step, stepI] at hs
    split at hs
    · split at hs
      · split at hs
        · simp at hs; subst hs; exact Or.inl ⟨FAeq.of_recs rfl rfl rfl rfl rfl, by intro a' h'; cases h'⟩
        · simp at hs; subst hs; exact Or.inl ⟨FAeq.of_recs rfl rfl rfl rfl rfl, by intro a' h'; cases h'⟩
      · cases hs
    · cases hs
  | drained n =>
    simp only [step, stepI] at hs
    split at hs
    · split at hs
      · simp at hs; subst hs; exact Or.inl ⟨FAeq.of_recs rfl rfl rfl rfl rfl, by intro a' h'; cases h'⟩
      · cases hs
    · cases hs
  | cbin k n f arg root =>
    simp only [step, stepI] at hs
    split at hs
    · split at hs
      · split at hs
        · simp at hs; subst hs; exact Or.inl ⟨FAeq.of_recs rfl rfl rfl rfl rfl, by intro a' h'; cases h'⟩
        · cases hs
      · cases hs
    · cases hs
  | cbout k o =>
    simp only [step, stepI] at hs
    split at hs
    · split at hs
      · split at hs
        · simp at hs; subst hs; exact Or.inl ⟨FAeq.of_recs rfl rfl rfl rfl rfl, by intro a' h'; cases h'⟩
        · cases hs
      · cases hs
    · cases hs
  | closeExit n =>
    simp only [step, stepI] at hs
    split at hs
    · split at hs
      · simp at hs; subst hs; exact Or.inl ⟨FAeq.of_recs rfl rfl rfl rfl rfl, by intro a' h'; cases h'⟩
      · cases hs
    · cases hs
  | record n dur =>
    simp only [step, stepI] at hs
    split at hs
    · rename_i cf x _ hx
      split at hs
      · exact Or.inl ⟨faeq_recordCS s s' cf n x dur hs, by intro a' h'; cases h'⟩
      · cases hs
    · cases hs
  | emit o =>
    simp only [step, stepI] at hs
    split at hs
    · split at hs
      · simp at hs; subst hs; exact Or.inl ⟨FAeq.of_recs rfl rfl rfl rfl rfl, by intro a' h'; cases h'⟩
      · cases hs
    · cases hs
  | fire t =>
    simp only [step, stepI] at hs
    split at hs
    · split at hs
      · simp at hs; subst hs; exact Or.inl ⟨FAeq.of_recs rfl rfl rfl rfl rfl, by intro a' h'; cases h'⟩
      · cases hs
    · cases hs
  | timerCS t =>
    simp only [step, stepI] at hs
    split at hs
    · rename_i tm htm
      split at hs
      · simp at hs; subst hs
        exact Or.inl ⟨(FAeq.of_recs (s := s) (s' := { s with timers := s.timers.set t { tm with st := .dead } }) rfl rfl rfl rfl rfl).trans
          (faeq_timerBody _ t tm.rid), by intro a' h'; cases h'⟩
      · cases hs
    · cases hs
  | probeCtx k b =>
    simp only [step, stepI] at hs
    split at hs
    · split at hs
      · simp at hs; subst hs; exact Or.inl ⟨FAeq.refl _, by intro a' h'; cases h'⟩
      · cases hs
    · cases hs
  | probeW a b =>
    simp only [step, stepI] at hs
    split at hs
    · split at hs
      · split at hs
        · simp at hs; subst hs; exact Or.inl ⟨FAeq.refl _, by intro a' h'; cases h'⟩
        · cases hs
      · cases hs
    · cases hs
  | quiesce p r l =>
    simp only [step] at hs
    split at hs
    · simp at hs; subst hs; exact Or.inl ⟨FAeq.refl _, by intro a' h'; cases h'⟩
    · cases hs


/-! ## records keep their function and argument -/

def RecsFa (s s' : St) : Prop :=
  ∀ (q : Nat) (y : Rec), s.recs[q]? = some y → ∃ y', s'.recs[q]? = some y' ∧ fa y' = fa y

theorem RecsFa.refl (s : St) : RecsFa s s := fun _ y h => ⟨y, h, rfl⟩
theorem RecsFa.trans {a b c : St} (h1 : RecsFa a b) (h2 : RecsFa b c) : RecsFa a c := by
  intro q y hy
  obtain ⟨y1, g1, g2⟩ := h1 q y hy
  obtain ⟨y2, f1, f2⟩ := h2 q y1 g1
  exact ⟨y2, f1, f2.trans g2⟩
theorem RecsFa.of_eq {s s' : St} (h : s'.recs = s.recs) : RecsFa s s' := fun _ y hy => ⟨y, by rw [h]; exact hy, rfl⟩
theorem RecsFa.of_append {s s' : St} (l : List Rec) (h : s'.recs = s.recs ++ l) : RecsFa s s' := by
  intro q y hy
  exact ⟨y, by rw [h, List.getElem?_append_left (get_lt hy)]; exact hy, rfl⟩
theorem RecsFa.of_faeq {s s' : St} (h : FAeq s s') : RecsFa s s' := by
  intro q y hy
  have := h.rc q
  rw [hy] at this
  cases hy' : s'.recs[q]? with
  | none => rw [hy'] at this; cases this
  | some y' =>
    rw [hy'] at this
    simp only [Option.map_some, Option.some.injEq] at this
    exact ⟨y', rfl, this⟩

theorem detachPrev_fa (s : St) : RecsFa s (detachPrev s).1 := by
  cases hr : s.routine with
  | none => simp only [detachPrev, hr]; exact RecsFa.of_eq rfl
  | some p =>
    cases hx : s.recs[p]? with
    | none => simp only [detachPrev, hr, hx]; exact RecsFa.of_eq rfl
    | some pr =>
      simp only [detachPrev, hr, hx]
      have h1 : RecsFa s (cancelOpt s pr.cancelOf) := RecsFa.of_faeq (faeq_cancelOpt s pr.cancelOf)
      have hx' : (cancelOpt s pr.cancelOf).recs[p]? = some pr := by simpa using hx
      have h2 := RecsFa.of_faeq (faeq_set (cancelOpt s pr.cancelOf) p pr { pr with cancelOf := none } hx' rfl rfl)
      exact (h1.trans h2).trans (RecsFa.of_eq rfl)

theorem setRoutineLocked_fa (s : St) (f arg : Nat) : RecsFa s (setRoutineLocked s f arg).1 := by
  have h0 : RecsFa s (detachPrev (normCtx s)).1 :=
    (RecsFa.of_faeq (faeq_normCtx s)).trans (detachPrev_fa (normCtx s))
  simp only [setRoutineLocked]
  split
  · split
    · refine h0.trans ?_
      have h1 : RecsFa (detachPrev (normCtx s)).1 { (detachPrev (normCtx s)).1 with
          recs := (detachPrev (normCtx s)).1.recs ++ [{ fn := f, arg := arg }],
          routine := some (detachPrev (normCtx s)).1.recs.length } := RecsFa.of_append [{ fn := f, arg := arg }] rfl
      exact h1.trans ((RecsFa.of_faeq (faeq_startRec _ _ _ _ _)).trans (RecsFa.of_eq rfl))
    · refine h0.trans ?_
      have h1 : RecsFa (detachPrev (normCtx s)).1 { (detachPrev (normCtx s)).1 with
          recs := (detachPrev (normCtx s)).1.recs ++ [{ fn := f, arg := arg, exitedCh := (detachPrev (normCtx s)).2.1 }],
          routine := some (detachPrev (normCtx s)).1.recs.length } :=
        RecsFa.of_append [{ fn := f, arg := arg, exitedCh := (detachPrev (normCtx s)).2.1 }] rfl
      exact h1.trans (RecsFa.of_eq rfl)
  · split
    · exact h0.trans (RecsFa.of_eq rfl)
    · exact h0.trans (RecsFa.of_eq rfl)

theorem setStateCS_fa (s : St) (cmp v : Nat) : RecsFa s (setStateCS s cmp v).1 := by
  simp only [setStateCS]
  split
  · simp only [updateStateRoutine]
    exact (RecsFa.of_eq (s := s) (s' := { s with sval := v }) rfl).trans (setRoutineLocked_fa _ _ _)
  · exact RecsFa.refl s

theorem apiCS_fa (s : St) (cf : Cfg) (op : Op) (r : St × Res × Option Nat) (h : apiCS s cf op = some r) :
    RecsFa s r.1 := by
  cases op with
  | setContext c restart => simp [apiCS] at h; subst h; exact RecsFa.of_faeq (faeq_setContextCS s c restart)
  | setRoutine f =>
    simp only [apiCS] at h
    split at h
    · cases h
    · simp at h; subst h; exact setRoutineLocked_fa s f 0
  | restart => simp [apiCS] at h; subst h; exact RecsFa.of_faeq (faeq_restartCS s)
  | setState v =>
    simp only [apiCS] at h
    split at h
    · cases h
    · simp at h; subst h; exact setStateCS_fa s cf.cmp v
  | setStateRoutine f =>
    simp only [apiCS] at h
    split at h
    · cases h
    · simp at h; subst h
      simp only [updateStateRoutine]
      exact (RecsFa.of_eq (s := s) (s' := { s with sfn := f }) rfl).trans (setRoutineLocked_fa _ _ _)
  | swap k =>
    simp only [apiCS] at h
    split at h
    · cases h
    · split at h
      · split at h
        · simp only [Option.some.injEq] at h; subst h; exact setStateCS_fa s cf.cmp _
        · simp only [Option.some.injEq] at h; subst h; exact RecsFa.refl s
      · simp at h; subst h; exact RecsFa.refl s
  | getState =>
    simp only [apiCS] at h
    split at h
    · cases h
    · simp at h; subst h; exact RecsFa.refl s
  | waitExited _ => simp [apiCS] at h

/-- **a record keeps its function and argument for ever** -/
theorem step_fa (s s' : St) (e : Ev) (hs : step s e = some s') : RecsFa s s' := by
  rcases step_faeq s s' e hs with ⟨h, _⟩ | ⟨_, c, _, h⟩ | ⟨a, c, cf, r, _, _, _, _, hr, h, _⟩
  · exact RecsFa.of_faeq h
  · subst h; exact RecsFa.of_eq rfl
  · exact (apiCS_fa s cf _ r hr).trans (RecsFa.of_faeq h)

/-! ## the routine-function register -/

def plainMode (s : St) : Prop := ∃ cf, s.cfg = some cf ∧ cf.state = false
def stateMode (s : St) : Prop := ∃ cf, s.cfg = some cf ∧ cf.state = true

/-- model side of the `fnR` register: `cur` is the function last given to SetRoutine / SetStateRoutine -/
structure FnVal (s : St) (cur : Nat) : Prop where
  /-- StateRoutineContainer: it is the stored state function -/
  sf : ¬ plainMode s → s.sfn = cur
  /-- RoutineContainer: it is the function of the current record -/
  rc : ¬ stateMode s → ∀ r y, s.routine = some r → s.recs[r]? = some y → y.fn = cur
  nz : ∀ r y, s.routine = some r → s.recs[r]? = some y → y.fn ≠ 0

theorem faeq_back {s s' : St} (e : FAeq s s') (r : Nat) (y' : Rec) (hy' : s'.recs[r]? = some y') :
    ∃ y, s.recs[r]? = some y ∧ fa y = fa y' := by
  have := e.rc r
  rw [hy'] at this
  cases hy : s.recs[r]? with
  | none => rw [hy] at this; cases this
  | some y =>
    rw [hy] at this
    simp only [Option.map_some, Option.some.injEq] at this
    exact ⟨y, rfl, this.symm⟩

theorem FnVal.transfer {s s' : St} {cur : Nat} (h : FnVal s cur) (e : FAeq s s') : FnVal s' cur := by
  have hp : plainMode s' → plainMode s := by rintro ⟨cf, h1, h2⟩; exact ⟨cf, by rw [← e.cf]; exact h1, h2⟩
  have hq : stateMode s' → stateMode s := by rintro ⟨cf, h1, h2⟩; exact ⟨cf, by rw [← e.cf]; exact h1, h2⟩
  have hp' : plainMode s → plainMode s' := by rintro ⟨cf, h1, h2⟩; exact ⟨cf, by rw [e.cf]; exact h1, h2⟩
  have hq' : stateMode s → stateMode s' := by rintro ⟨cf, h1, h2⟩; exact ⟨cf, by rw [e.cf]; exact h1, h2⟩
  refine ⟨?_, ?_, ?_⟩
  · intro hn; rw [e.sf]; exact h.sf (fun hh => hn (hp' hh))
  · intro hn r y' hr hy'
    rw [e.rt] at hr
    obtain ⟨y, hy, hfa⟩ := faeq_back e r y' hy'
    have := h.rc (fun hh => hn (hq' hh)) r y hr hy
    simp only [fa, Prod.mk.injEq] at hfa
    rw [← hfa.1]; exact this
  · intro r y' hr hy'
    rw [e.rt] at hr
    obtain ⟨y, hy, hfa⟩ := faeq_back e r y' hy'
    have := h.nz r y hr hy
    simp only [fa, Prod.mk.injEq] at hfa
    rw [← hfa.1]; exact this

theorem not_plain_of_state {s : St} {cf : Cfg} (h1 : s.cfg = some cf) (h2 : cf.state = true) : ¬ plainMode s := by
  rintro ⟨cf', g1, g2⟩; rw [h1] at g1; cases g1; rw [h2] at g2; cases g2
theorem not_state_of_plain {s : St} {cf : Cfg} (h1 : s.cfg = some cf) (h2 : cf.state = false) : ¬ stateMode s := by
  rintro ⟨cf', g1, g2⟩; rw [h1] at g1; cases g1; rw [h2] at g2; cases g2

/-- the current record after `setRoutineLocked(f)` in a container of either kind -/
theorem fnVal_setRoutineLocked (s : St) (f arg v : Nat)
    (h1 : ¬ plainMode s → s.sfn = v) (h2 : ¬ stateMode s → f = v ∨ f = 0) : FnVal (setRoutineLocked s f arg).1 v := by
  obtain ⟨_, g2, g3, g4⟩ := setRoutineLocked_cur s f arg
  have hp : plainMode (setRoutineLocked s f arg).1 → plainMode s := by
    rintro ⟨cf, a1, a2⟩; exact ⟨cf, by rw [← g3]; exact a1, a2⟩
  have hq : stateMode (setRoutineLocked s f arg).1 → stateMode s := by
    rintro ⟨cf, a1, a2⟩; exact ⟨cf, by rw [← g3]; exact a1, a2⟩
  have hp' : plainMode s → plainMode (setRoutineLocked s f arg).1 := by
    rintro ⟨cf, a1, a2⟩; exact ⟨cf, by rw [g3]; exact a1, a2⟩
  have hq' : stateMode s → stateMode (setRoutineLocked s f arg).1 := by
    rintro ⟨cf, a1, a2⟩; exact ⟨cf, by rw [g3]; exact a1, a2⟩
  refine ⟨?_, ?_, ?_⟩
  · intro hn; rw [g2]; exact h1 (fun hh => hn (hp' hh))
  · intro hn r y hr hy
    rcases g4 with e | ⟨hf0, q, y0, e1, e2, e3, _⟩
    · rw [e] at hr; cases hr
    · rw [e1] at hr; cases hr
      rw [e2] at hy; cases hy
      rcases h2 (fun hh => hn (hq' hh)) with e | e
      · rw [e3]; exact e
      · exact absurd e hf0
  · intro r y hr hy
    rcases g4 with e | ⟨hf0, q, y0, e1, e2, e3, _⟩
    · rw [e] at hr; cases hr
    · rw [e1] at hr; cases hr
      rw [e2] at hy; cases hy
      rw [e3]; exact hf0

theorem fnVal_setStateCS {s : St} {cur : Nat} (hv : FnVal s cur) (cf : Cfg) (hcf : s.cfg = some cf)
    (hst : cf.state = true) (cmp v : Nat) : FnVal (setStateCS s cmp v).1 cur := by
  simp only [setStateCS]
  split
  · simp only [updateStateRoutine]
    apply fnVal_setRoutineLocked
    · intro _; exact hv.sf (not_plain_of_state hcf hst)
    · intro hn; exact absurd ⟨cf, hcf, hst⟩ hn
  · exact hv

/-- what a critical section does to the routine-function register -/
theorem apiCS_fnVal (s : St) (cf : Cfg) (op : Op) (r : St × Res × Option Nat) (h : apiCS s cf op = some r)
    (hcf : s.cfg = some cf) (cur : Nat) (hv : FnVal s cur) :
    FnVal r.1 (match fnSpec.isW op with
               | some v => v
               | none => cur) := by
  cases op with
  | setContext c restart =>
    simp [apiCS] at h; subst h
    exact hv.transfer (faeq_setContextCS s c restart)
  | setRoutine f =>
    simp only [apiCS] at h
    split at h
    · cases h
    · rename_i hst
      simp at h; subst h
      have hst' : cf.state = false := by simpa using hst
      simp only [fnSpec]
      apply fnVal_setRoutineLocked
      · intro hn; exact absurd ⟨cf, hcf, hst'⟩ hn
      · intro _; exact Or.inl rfl
  | restart =>
    simp [apiCS] at h; subst h
    exact hv.transfer (faeq_restartCS s)
  | setState v =>
    simp only [apiCS] at h
    split at h
    · cases h
    · rename_i hst
      simp at h; subst h
      exact fnVal_setStateCS hv cf hcf (by simpa using hst) cf.cmp v
  | setStateRoutine f =>
    simp only [apiCS] at h
    split at h
    · cases h
    · rename_i hst
      simp at h; subst h
      have hst' : cf.state = true := by simpa using hst
      simp only [fnSpec, updateStateRoutine]
      apply fnVal_setRoutineLocked
      · intro _; rfl
      · intro hn; exact absurd ⟨cf, hcf, hst'⟩ hn
  | swap k =>
    simp only [apiCS] at h
    split at h
    · cases h
    · rename_i hst
      split at h
      · split at h
        · simp only [Option.some.injEq] at h; subst h
          exact fnVal_setStateCS hv cf hcf (by simpa using hst) cf.cmp _
        · simp only [Option.some.injEq] at h; subst h; exact hv
      · simp at h; subst h; exact hv
  | getState =>
    simp only [apiCS] at h
    split at h
    · cases h
    · simp at h; subst h; exact hv
  | waitExited _ => simp [apiCS] at h

theorem fnVal_init : FnVal {} 0 :=
  ⟨fun _ => rfl, (by intro _ r y h; cases h), (by intro r y h; cases h)⟩

/-- the routine-function register against the model: one step -/
theorem fn_reg_step (s s' : St) (e : Ev) (reg : Reg) (hl : RegLink fnSpec FnVal s reg) (hs : step s e = some s') :
    match Ev.obs e with
    | none => RegLink fnSpec FnVal s' reg
    | some o => ∃ reg', (monReg fnSpec).step reg o = some reg' ∧ RegLink fnSpec FnVal s' reg' := by
  refine reglink_step fnSpec FnVal s s' e reg hl hs (fun _ => rfl) ?_ ?_
  · intro cur hv hnw
    rcases step_faeq s s' e hs with ⟨h, _⟩ | ⟨hn, c, _, h⟩ | ⟨a, c, cf, r, e0, hcf, hc, _, hr, h, _⟩
    · exact hv.transfer h
    · subst h
      have hp : ¬ plainMode s := by rintro ⟨cf, g, _⟩; rw [hn] at g; cases g
      have hq : ¬ stateMode s := by rintro ⟨cf, g, _⟩; rw [hn] at g; cases g
      exact ⟨fun _ => hv.sf hp, fun _ => hv.rc hq, hv.nz⟩
    · have h1 := apiCS_fnVal s cf _ r hr hcf cur hv
      rw [hnw a c e0 hc] at h1
      exact h1.transfer h
  · intro cur a c v c' r e0 hc hw _ _ hv
    refine ⟨fun _ => ?_, fun h => by simp [fnSpec] at h⟩
    rcases step_faeq s s' e hs with ⟨_, h⟩ | ⟨_, c0, e1, _⟩ | ⟨a', c0, cf, r0, e1, hcf, hc0, _, hr, h, _⟩
    · obtain ⟨c0, b, hc0, hop⟩ := h a e0
      rw [hc] at hc0; cases hc0
      rw [hop] at hw; simp [fnSpec] at hw
    · rw [e0] at e1; cases e1
    · rw [e0] at e1; cases e1
      rw [hc] at hc0; cases hc0
      have h1 := apiCS_fnVal s cf _ r0 hr hcf cur hv
      rw [hw] at h1
      exact h1.transfer h

/-! ## the stored-state register -/

def svVal (s : St) (cur : Nat) : Prop := s.sval = cur

theorem setStateCS_sval (s : St) (cmp v : Nat) :
    ((setStateCS s cmp v).2.2.1 = true ∧ (setStateCS s cmp v).1.sval = v) ∨
    ((setStateCS s cmp v).2.2.1 = false ∧ (setStateCS s cmp v).1.sval = s.sval) := by
  simp only [setStateCS]
  split
  · left
    refine ⟨rfl, ?_⟩
    simp only [updateStateRoutine]
    exact (setRoutineLocked_cur { s with sval := v } _ _).1
  · exact Or.inr ⟨rfl, rfl⟩

/-- what a critical section does to the stored state -/
theorem apiCS_sval (s : St) (cf : Cfg) (op : Op) (r : St × Res × Option Nat) (h : apiCS s cf op = some r) :
    match svSpec.isW op with
    | some v => (svSpec.eff r.2.1 = true ∧ r.1.sval = v) ∨ (svSpec.eff r.2.1 = false ∧ r.1.sval = s.sval)
    | none => r.1.sval = s.sval := by
  cases op with
  | setContext c restart =>
    simp [apiCS] at h; subst h
    exact (faeq_setContextCS s c restart).sv
  | setRoutine f =>
    simp only [apiCS] at h
    split at h
    · cases h
    · simp at h; subst h
      exact (setRoutineLocked_cur s f 0).1
  | restart =>
    simp [apiCS] at h; subst h
    exact (faeq_restartCS s).sv
  | setState v =>
    simp only [apiCS] at h
    split at h
    · cases h
    · simp at h; subst h
      simpa [svSpec] using setStateCS_sval s cf.cmp v
  | setStateRoutine f =>
    simp only [apiCS] at h
    split at h
    · cases h
    · simp at h; subst h
      simp only [svSpec, updateStateRoutine]
      exact (setRoutineLocked_cur { s with sfn := f } _ _).1
  | swap k =>
    cases k with
    | none =>
      simp only [apiCS] at h
      split at h
      · cases h
      · simp at h; subst h; rfl
    | some v =>
      simp only [apiCS] at h
      split at h
      · cases h
      · split at h
        · simp only [Option.some.injEq] at h; subst h
          simpa [svSpec] using setStateCS_sval s cf.cmp v
        · simp only [Option.some.injEq] at h; subst h
          simp [svSpec]
  | getState =>
    simp only [apiCS] at h
    split at h
    · cases h
    · simp at h; subst h; rfl
  | waitExited _ => simp [apiCS] at h

/-- the stored-state register against the model: one step -/
theorem sv_reg_step (s s' : St) (e : Ev) (reg : Reg) (hl : RegLink svSpec svVal s reg) (hs : step s e = some s') :
    match Ev.obs e with
    | none => RegLink svSpec svVal s' reg
    | some o => ∃ reg', (monReg svSpec).step reg o = some reg' ∧ RegLink svSpec svVal s' reg' := by
  refine reglink_step svSpec svVal s s' e reg hl hs (fun _ => rfl) ?_ ?_
  · intro cur hv hnw
    rcases step_faeq s s' e hs with ⟨h, _⟩ | ⟨hn, c, _, h⟩ | ⟨a, c, cf, r, e0, hcf, hc, _, hr, h, _⟩
    · exact h.sv.trans hv
    · subst h; exact hv
    · have h1 := apiCS_sval s cf _ r hr
      rw [hnw a c e0 hc] at h1
      exact (h.sv.trans h1).trans hv
  · intro cur a c v c' r e0 hc hw hc' hst hv
    rcases step_faeq s s' e hs with ⟨_, h⟩ | ⟨_, c0, e1, _⟩ | ⟨a', c0, cf, r0, e1, hcf, hc0, _, hr, h, c'', hc'', hst''⟩
    · obtain ⟨c0, b, hc0, hop⟩ := h a e0
      rw [hc] at hc0; cases hc0
      rw [hop] at hw; simp [svSpec] at hw
    · rw [e0] at e1; cases e1
    · rw [e0] at e1; cases e1
      rw [hc] at hc0; cases hc0
      rw [hc'] at hc''; cases hc''
      rw [hst] at hst''; cases hst''
      have h1 := apiCS_sval s cf _ r0 hr
      rw [hw] at h1
      rcases h1 with ⟨g1, g2⟩ | ⟨g1, g2⟩
      · exact ⟨fun _ => h.sv.trans g2, fun g => (by rw [g1] at g; cases g)⟩
      · exact ⟨fun g => (by rw [g1] at g; cases g), fun _ => (h.sv.trans g2).trans hv⟩

/-! ## the lineage clause -/

theorem apiCS_cfg (s : St) (cf : Cfg) (op : Op) (r : St × Res × Option Nat) (h : apiCS s cf op = some r) :
    r.1.cfg = s.cfg := by
  cases op with
  | setContext c restart => simp [apiCS] at h; subst h; exact (faeq_setContextCS s c restart).cf
  | setRoutine f =>
    simp only [apiCS] at h
    split at h
    · cases h
    · simp at h; subst h; exact (setRoutineLocked_cur s f 0).2.2.1
  | restart => simp [apiCS] at h; subst h; exact (faeq_restartCS s).cf
  | setState v =>
    simp only [apiCS] at h
    split at h
    · cases h
    · simp at h; subst h
      simp only [setStateCS]
      split
      · simp only [updateStateRoutine]; exact (setRoutineLocked_cur { s with sval := v } _ _).2.2.1
      · rfl
  | setStateRoutine f =>
    simp only [apiCS] at h
    split at h
    · cases h
    · simp at h; subst h
      simp only [updateStateRoutine]; exact (setRoutineLocked_cur { s with sfn := f } _ _).2.2.1
  | swap k =>
    simp only [apiCS] at h
    split at h
    · cases h
    · split at h
      · split at h
        · simp only [Option.some.injEq] at h; subst h
          simp only [setStateCS]
          split
          · simp only [updateStateRoutine]; exact (setRoutineLocked_cur { s with sval := _ } _ _).2.2.1
          · rfl
        · simp only [Option.some.injEq] at h; subst h; rfl
      · simp at h; subst h; rfl
  | getState =>
    simp only [apiCS] at h
    split at h
    · cases h
    · simp at h; subst h; rfl
  | waitExited _ => simp [apiCS] at h

theorem step_cfg (s s' : St) (e : Ev) (hs : step s e = some s') (hne : ∀ c, e ≠ .cfg c) : s'.cfg = s.cfg := by
  rcases step_faeq s s' e hs with ⟨h, _⟩ | ⟨_, c, e0, _⟩ | ⟨a, c, cf, r, _, _, _, _, hr, h, _⟩
  · exact h.cf
  · exact absurd e0 (hne c)
  · exact h.cf.trans (apiCS_cfg s cf _ r hr)

/-- roots whose cancellation was announced stay announced or cancelled -/
theorem step_crs (s s' : St) (e : Ev) (hs : step s e = some s') :
    ∀ c, s.croots.contains c = true ∨ s.pcancel.contains c = true →
      s'.croots.contains c = true ∨ s'.pcancel.contains c = true := by
  have fr : ∀ T : St, T.croots = s.croots → T.pcancel = s.pcancel →
      ∀ c, s.croots.contains c = true ∨ s.pcancel.contains c = true →
        T.croots.contains c = true ∨ T.pcancel.contains c = true := by
    intro T h1 h2 c h; rw [h1, h2]; exact h
  cases e with
  | cs a =>
    simp only [step, stepI] at hs
    split at hs
    · rename_i cf c hcf hc
      split at hs
      · split at hs
        · split at hs
          · simp at hs; subst hs; exact fr _ (by simp [setCall, waitSample]) (by simp [setCall, waitSample])
          · cases hs
        · split at hs
          · cases hs
          · split at hs
            · rename_i r hr
              simp at hs; subst hs
              exact fr _ (by simp [setCall, apiCS_croots s cf _ r hr]) (by simp [setCall, apiCS_pcancel s cf _ r hr])
            · cases hs
      · cases hs
    · cases hs
  | envCancel c =>
    simp only [step, stepI] at hs
    split at hs
    · simp at hs; subst hs
      intro d h
      simp only [List.contains_cons, Bool.or_eq_true] at h ⊢
      rcases h with h | h
      · exact Or.inl h
      · exact Or.inr (Or.inr h)
    · cases hs
  | envDo c =>
    simp only [step, stepI] at hs
    split at hs
    · simp at hs; subst hs
      intro d h
      simp only [List.contains_cons, Bool.or_eq_true, beq_iff_eq] at h ⊢
      rcases h with h | h
      · exact Or.inl (Or.inr h)
      · by_cases hdc : d = c
        · exact Or.inl (Or.inl hdc)
        · right
          have hm : d ∈ s.pcancel := by simpa using h
          have : d ∈ s.pcancel.erase c := (List.mem_erase_of_ne hdc).2 hm
          simpa using this
    · cases hs
  | record n dur =>
    simp only [step, stepI] at hs
    split at hs
    · rename_i cf x _ hx
      split at hs
      · exact fr _ (recordCS_croots s s' cf n x dur hs) (recordCS_pcancel s s' cf n x dur hs)
      · cases hs
    · cases hs
  | timerCS t =>
    simp only [step, stepI] at hs
    split at hs
    · split at hs
      · simp at hs; subst hs; exact fr _ (by simp) (by simp)
      · cases hs
    · cases hs
  | cfg c =>
    simp only [step, stepI] at hs
    split at hs
    · simp at hs; subst hs; exact fr _ rfl rfl
    · cases hs
  | inv a op =>
    simp only [step, stepI] at hs
    split at hs
    · simp at hs; subst hs; exact fr _ rfl rfl
    · cases hs
  | ret a r =>
    simp only [step, stepI] at hs
    split at hs
    · split at hs
      · simp at hs; subst hs; exact fr _ rfl rfl
      · split at hs
        · simp at hs; subst hs; exact fr _ rfl rfl
        · cases hs
    · cases hs
  | wake a =>
    simp only [step, stepI] at hs
    split at hs
    · split at hs
      · split at hs
        · simp at hs; subst hs; exact fr _ rfl rfl
        · cases hs
      · cases hs
    · cases hs
  | wctx a =>
    simp only [step, stepI] at hs
    split at hs
    · split at hs
      · split at hs
        · simp at hs; subst hs; exact fr _ rfl rfl
        · cases hs
      · cases hs
    · cases hs
  | envCancelW a =>
    simp only [step, stepI] at hs
    split at hs
    · split at hs
      · simp at hs; subst hs; exact fr _ rfl rfl
      all_goals cases hs
    · cases hs
  | envErr a e0 =>
    simp only [step, stepI] at hs
    split at hs
    · split at hs
      · simp at hs; subst hs; exact fr _ rfl rfl
      all_goals cases hs
    · cases hs
  | giveUp n =>
    simp only [step, stepI] at hs
    split at hs
    · split at hs
      · split at hs
        · simp at hs; subst hs; exact fr _ rfl rfl
        · simp at hs; subst hs; exact fr _ rfl rfl
      · cases hs
    · cases hs
  | drained n =>
    simp only [step, stepI] at hs
    split at hs
    · split at hs
      · simp at hs; subst hs; exact fr _ rfl rfl
      · cases hs
    · cases hs
  | cbin k n f arg root =>
    simp only [step, stepI] at hs
    split at hs
    · split at hs
      · split at hs
        · simp at hs; subst hs; exact fr _ rfl rfl
        · cases hs
      · cases hs
    · cases hs
  | cbout k o =>
    simp only [step, stepI] at hs
    split at hs
    · split at hs
      · split at hs
        · simp at hs; subst hs; exact fr _ rfl rfl
        · cases hs
      · cases hs
    · cases hs
  | closeExit n =>
    simp only [step, stepI] at hs
    split at hs
    · split at hs
      · simp at hs; subst hs; exact fr _ rfl rfl
      · cases hs
    · cases hs
  | emit o =>
    simp only [step, stepI] at hs
    split at hs
    · split at hs
      · simp at hs; subst hs; exact fr _ rfl rfl
      · cases hs
    · cases hs
  | fire t =>
    simp only [step, stepI] at hs
    split at hs
    · split at hs
      · simp at hs; subst hs; exact fr _ rfl rfl
      · cases hs
    · cases hs
  | probeCtx k b =>
    simp only [step, stepI] at hs
    split at hs
    · split at hs
      · simp at hs; subst hs; exact fr _ rfl rfl
      · cases hs
    · cases hs
  | probeW a b =>
    simp only [step, stepI] at hs
    split at hs
    · split at hs
      · split at hs
        · simp at hs; subst hs; exact fr _ rfl rfl
        · cases hs
      · cases hs
    · cases hs
  | quiesce p r l =>
    simp only [step] at hs
    split at hs
    · simp at hs; subst hs; exact fr _ rfl rfl
    · cases hs

/-- at a quiescence point every announced cancellation has been performed -/
theorem quiescent_pcancel {s : St} (h : quiescent s = true) : s.pcancel = [] := by
  cases hp : s.pcancel with
  | nil => rfl
  | cons c t =>
    exfalso
    simp only [quiescent, Bool.and_eq_true, List.all_eq_true] at h
    have hall := h.1.1.2 (.envDo c) (by
      simp only [cands, List.mem_append, List.mem_map]
      exact Or.inr ⟨c, by rw [hp]; simp, rfl⟩)
    simp [stepI, hp] at hall

structure LinLink (s : St) (ms : C05lSt) : Prop where
  ctx : RegLink ctxSpec ctxVal s ms.ctxR
  fn : RegLink fnSpec FnVal s ms.fnR
  sv : RegLink svSpec svVal s ms.svR
  cf : ∀ cf, s.cfg = some cf → ms.cfg = cf
  inf : ∀ k n, s.ent[k]? = some n → ∃ x y, s.insts[n]? = some x ∧ s.recs[x.rid]? = some y ∧
          lookupInfo ms.info k = some (y.fn, y.arg, x.root)
  crs : ∀ c, ms.croots.contains c = true → s.croots.contains c = true ∨ s.pcancel.contains c = true

theorem linLink_init : LinLink {} {} :=
  ⟨reglink_init _ _ (Or.inl rfl), reglink_init _ _ fnVal_init, reglink_init _ _ rfl,
   (by intro cf h; simp at h), (by intro k n h; simp at h), (by intro c h; simp at h)⟩

theorem lookupInfo_cons_ne {k k' : Nat} {p : Nat × Nat × Nat} {l : List (Nat × Nat × Nat × Nat)} (h : k ≠ k') :
    lookupInfo ((k, p) :: l) k' = lookupInfo l k' := by
  simp [lookupInfo, List.find?_cons, h]

theorem lookupInfo_cons_self {k : Nat} {p : Nat × Nat × Nat} {l : List (Nat × Nat × Nat × Nat)} :
    lookupInfo ((k, p) :: l) k = some p := by
  simp [lookupInfo, List.find?_cons]

/-- what the monitor knows about an instance whose context is live -/
theorem lin_facts {s : St} {ms : C05lSt} (hl : LinLink s ms) (ha : AllRec s) (hc : Cur s) (hi : I1 s) (hk : K4 s)
    (k n : Nat) (hn : s.ent[k]? = some n) (hb : ctxErrOf s n = false) :
    ∃ f arg root, lookupInfo ms.info k = some (f, arg, root) ∧ (root != 0) = true ∧ root ∈ ms.ctxR.vals ∧
      s.croots.contains root = false ∧ (f != 0) = true ∧ f ∈ ms.fnR.vals ∧
      (ms.cfg.state = true → (arg != 0) = true ∧ arg ∈ ms.svR.vals) := by
  obtain ⟨x, y, hx, hy, hf⟩ := hl.inf k n hn
  have hlive : s.isCancelled x = false := by simpa [ctxErrOf, hx] using hb
  obtain ⟨g1, g2, r, y0, g3, g4, _, g6⟩ := live_current hc ha hi n x hx hlive
  subst g6
  rw [hy] at g4; cases g4
  refine ⟨y.fn, y.arg, x.root, hf, ?_, ?_, ?_, ?_, ?_, ?_⟩
  · rw [g1]; simpa using g2
  · obtain ⟨Lc, curC, hokC, hvC⟩ := hl.ctx.ok
    have hcurC : s.ctx = curC := by
      rcases hvC with h | h
      · exact h
      · exact absurd h g2
    have := hokC.cur_mem; rw [← hcurC, ← g1] at this; simpa using this
  · simp only [St.isCancelled, Bool.or_eq_false_iff] at hlive; exact hlive.2
  · obtain ⟨Lf, curF, hokF, hvF⟩ := hl.fn.ok
    simpa using hvF.nz x.rid y g3 hy
  · obtain ⟨Lf, curF, hokF, hvF⟩ := hl.fn.ok
    have hcurF : y.fn = curF := by
      by_cases hsm : stateMode s
      · obtain ⟨cf, hcf, hst⟩ := hsm
        have := (hk.lnk cf hcf hst x.rid y g3 hy).1
        rw [this]; exact hvF.sf (not_plain_of_state hcf hst)
      · exact hvF.rc hsm x.rid y g3 hy
    have := hokF.cur_mem; rw [← hcurF] at this; simpa using this
  · intro hsm
    cases hcfg0 : s.cfg with
    | none => have := hk.pre hcfg0; rw [g3] at this; cases this
    | some cf =>
      rw [hl.cf cf hcfg0] at hsm
      obtain ⟨_, k2, k3, _⟩ := hk.lnk cf hcfg0 hsm x.rid y g3 hy
      obtain ⟨Lv, curV, hokV, hvV⟩ := hl.sv.ok
      refine ⟨by rw [k2]; simpa using k3, ?_⟩
      have := hokV.cur_mem
      have e1 : curV = y.arg := by rw [k2]; exact hvV.symm
      rw [e1] at this; simpa using this

/-- one step of the model against the lineage monitor -/
theorem lin_step (s s' : St) (e : Ev) (ms : C05lSt) (msA : C04St) (hl : LinLink s ms) (hA : LinkA s msA)
    (ha : AllRec s) (hc : Cur s) (hi : I1 s) (hk : K4 s) (hs : step s e = some s') :
    match Ev.obs e with
    | none => LinLink s' ms
    | some o => ∃ ms', monC05l.step ms o = some ms' ∧ LinLink s' ms' := by
  have hctx := ctx_reg_step s s' e ms.ctxR hl.ctx hs
  have hfn := fn_reg_step s s' e ms.fnR hl.fn hs
  have hsv := sv_reg_step s s' e ms.svR hl.sv hs
  have hm := step_mono s s' e ha hs
  have hfa := step_fa s s' e hs
  have hcrs : ∀ c, ms.croots.contains c = true → s'.croots.contains c = true ∨ s'.pcancel.contains c = true :=
    fun c h => step_crs s s' e hs c (hl.crs c h)
  have hcfg : (∀ c, e ≠ .cfg c) → ∀ cf, s'.cfg = some cf → ms.cfg = cf := by
    intro hne cf h; rw [step_cfg s s' e hs hne] at h; exact hl.cf cf h
  have hinf0 : ∀ k n, s.ent[k]? = some n → ∃ x y, s'.insts[n]? = some x ∧ s'.recs[x.rid]? = some y ∧
      lookupInfo ms.info k = some (y.fn, y.arg, x.root) := by
    intro k n hk'
    obtain ⟨x, y, hx, hy, hf⟩ := hl.inf k n hk'
    obtain ⟨x1, hx1, hr1, _⟩ := hm.old n x hx
    obtain ⟨x2, hx2, hr2⟩ := hm.rid n x hx
    rw [hx1] at hx2; cases hx2
    obtain ⟨y', hy', hfa'⟩ := hfa x.rid y hy
    simp only [fa, Prod.mk.injEq] at hfa'
    exact ⟨x1, y', hx1, by rw [hr2]; exact hy', by rw [hfa'.1, hfa'.2, hr1]; exact hf⟩
  have hinf : (∀ k n f a r, e ≠ .cbin k n f a r) → ∀ k n, s'.ent[k]? = some n → ∃ x y, s'.insts[n]? = some x ∧
      s'.recs[x.rid]? = some y ∧ lookupInfo ms.info k = some (y.fn, y.arg, x.root) := by
    intro hne k n hk'
    rw [step_ent s s' e ha hs hne] at hk'
    exact hinf0 k n hk'
  cases e with
  | cfg c =>
    have hinf' := hinf (by intro _ _ _ _ _ h; cases h)
    obtain ⟨c1, h1c, h2c⟩ := hctx
    obtain ⟨f1, h1f, h2f⟩ := hfn
    obtain ⟨v1, h1v, h2v⟩ := hsv
    refine ⟨{ cfg := c, info := ms.info, croots := ms.croots, ctxR := c1, fnR := f1, svR := v1 }, ?_,
      h2c, h2f, h2v, ?_, hinf', hcrs⟩
    · simp only [Ev.obs, monC05l] at h1c h1f h1v ⊢
      simp [h1c, h1f, h1v]
    · simp only [step, stepI] at hs
      split at hs
      · simp at hs; subst hs
        intro cf h; simpa using h
      · cases hs
  | cbin k n f arg root =>
    have hcf' := hcfg (by intro c h; cases h)
    obtain ⟨c1, h1c, h2c⟩ := hctx
    obtain ⟨f1, h1f, h2f⟩ := hfn
    obtain ⟨v1, h1v, h2v⟩ := hsv
    refine ⟨{ ms with info := (k, f, arg, root) :: ms.info, ctxR := c1, fnR := f1, svR := v1 }, ?_,
      h2c, h2f, h2v, hcf', ?_, hcrs⟩
    · simp only [Ev.obs, monC05l] at h1c h1f h1v ⊢
      simp [h1c, h1f, h1v]
    · simp only [step, stepI] at hs
      split at hs
      · rename_i x hx
        split at hs
        · split at hs
          · rename_i r hr hg
            simp at hs; subst hs
            obtain ⟨_, _, _, hk', hf', harg, hroot⟩ := hg
            subst hk'
            intro k' n' hk''
            by_cases hlt : k' < s.ent.length
            · have hk0 : s.ent[k']? = some n' := by
                simpa [List.getElem?_append_left hlt] using hk''
              obtain ⟨x1, y1, g1, g2, g3⟩ := hinf0 k' n' hk0
              refine ⟨x1, y1, g1, g2, ?_⟩
              rw [lookupInfo_cons_ne (by omega)]; exact g3
            · have hk1 : k' = s.ent.length := by
                have := get_lt hk''
                simp at this; omega
              subst hk1
              simp at hk''; subst hk''
              refine ⟨{ x with st := .running }, r, by simp [setInst, get_lt hx], by simpa [setInst] using hr, ?_⟩
              rw [lookupInfo_cons_self, hf', harg, hroot]
          · cases hs
        · cases hs
      · cases hs
  | envCancel c =>
    have hinf' := hinf (by intro _ _ _ _ _ h; cases h)
    have hcf' := hcfg (by intro c h; cases h)
    obtain ⟨c1, h1c, h2c⟩ := hctx
    obtain ⟨f1, h1f, h2f⟩ := hfn
    obtain ⟨v1, h1v, h2v⟩ := hsv
    refine ⟨{ cfg := ms.cfg, info := ms.info, croots := c :: ms.croots, ctxR := c1, fnR := f1, svR := v1 }, ?_,
      h2c, h2f, h2v, hcf', hinf', ?_⟩
    · simp only [Ev.obs, monC05l] at h1c h1f h1v ⊢
      simp [h1c, h1f, h1v]
    · simp only [step, stepI] at hs
      split at hs
      · simp at hs; subst hs
        intro d h
        simp only [List.contains_cons, Bool.or_eq_true] at h ⊢
        rcases h with h | h
        · exact Or.inr (Or.inl h)
        · rcases hl.crs d h with g | g
          · exact Or.inl g
          · exact Or.inr (Or.inr g)
      · cases hs
  | probeCtx k b =>
    have hinf' := hinf (by intro _ _ _ _ _ h; cases h)
    have hcf' := hcfg (by intro c h; cases h)
    obtain ⟨c1, h1c, h2c⟩ := hctx
    obtain ⟨f1, h1f, h2f⟩ := hfn
    obtain ⟨v1, h1v, h2v⟩ := hsv
    refine ⟨{ cfg := ms.cfg, info := ms.info, croots := ms.croots, ctxR := c1, fnR := f1, svR := v1 }, ?_,
      h2c, h2f, h2v, hcf', hinf', hcrs⟩
    cases b with
    | true =>
      simp only [Ev.obs, monC05l] at h1c h1f h1v ⊢
      simp [h1c, h1f, h1v]
    | false =>
      simp only [step, stepI] at hs
      split at hs
      · rename_i n hn
        split at hs
        · rename_i hb
          simp at hs; subst hs
          obtain ⟨f, arg, root, hf, q1, q2, _, q4, q5, q6⟩ := lin_facts hl ha hc hi hk k n hn hb
          simp only [Ev.obs, monC05l] at h1c h1f h1v ⊢
          simp only [hf]
          simp [h1c, h1f, h1v, q1, q2, q4, q5]
          intro hsm
          have := q6 hsm
          exact ⟨by simpa using this.1, this.2⟩
        · cases hs
      · cases hs
  | quiesce p r l =>
    have hinf' := hinf (by intro _ _ _ _ _ h; cases h)
    have hcf' := hcfg (by intro c h; cases h)
    obtain ⟨c1, h1c, h2c⟩ := hctx
    obtain ⟨f1, h1f, h2f⟩ := hfn
    obtain ⟨v1, h1v, h2v⟩ := hsv
    refine ⟨{ cfg := ms.cfg, info := ms.info, croots := ms.croots, ctxR := c1, fnR := f1, svR := v1 }, ?_,
      h2c, h2f, h2v, hcf', hinf', hcrs⟩
    simp only [step] at hs
    split at hs
    · rename_i hq
      simp at hs; subst hs
      have hlive : l = liveKs s := hq.2.2.2
      subst hlive
      have hle := liveKs_le_one s msA hc hA
      have hpc := quiescent_pcancel hq.1
      cases hlk : liveKs s with
      | nil =>
        simp only [Ev.obs, monC05l, hlk] at h1c h1f h1v ⊢
        simp [h1c, h1f, h1v]
      | cons k t =>
        cases t with
        | cons k2 t2 => rw [hlk] at hle; simp at hle
        | nil =>
          have hkm : k ∈ liveKs s := by rw [hlk]; simp
          simp only [liveKs, List.mem_filter] at hkm
          obtain ⟨_, hlv⟩ := hkm
          cases hn : s.ent[k]? with
          | none => simp [hn] at hlv
          | some n =>
            simp only [hn] at hlv
            have hb : ctxErrOf s n = false := by simpa using hlv
            obtain ⟨f, arg, root, hf, q1, q2, q3, q4, q5, q6⟩ := lin_facts hl ha hc hi hk k n hn hb
            have hnc : ms.croots.contains root = false := by
              cases hcc : ms.croots.contains root with
              | false => rfl
              | true =>
                rcases hl.crs root hcc with g | g
                · rw [q3] at g; cases g
                · rw [hpc] at g; simp at g
            simp only [Ev.obs, monC05l, hlk] at h1c h1f h1v ⊢
            simp only [hf]
            simp [h1c, h1f, h1v, q1, q2, q4, q5]
            refine ⟨by simpa using hnc, ?_⟩
            intro hsm
            simpa using (q6 hsm).1
    · cases hs
  | emit o =>
    have hinf' := hinf (by intro _ _ _ _ _ h; cases h)
    have hcf' := hcfg (by intro c h; cases h)
    have hline : o.isLine = true := by
      simp only [step, stepI] at hs
      split at hs
      · split at hs
        · rename_i h0; exact h0.2
        · cases hs
      · cases hs
    cases o <;> simp [Obs.isLine] at hline
    all_goals
      obtain ⟨c1, h1c, h2c⟩ := hctx
      obtain ⟨f1, h1f, h2f⟩ := hfn
      obtain ⟨v1, h1v, h2v⟩ := hsv
      refine ⟨{ cfg := ms.cfg, info := ms.info, croots := ms.croots, ctxR := c1, fnR := f1, svR := v1 }, ?_,
        h2c, h2f, h2v, hcf', hinf', hcrs⟩
      simp only [Ev.obs, monC05l] at h1c h1f h1v ⊢
      simp [h1c, h1f, h1v]
  | _ =>
    have hinf' := hinf (by intro _ _ _ _ _ h; cases h)
    have hcf' := hcfg (by intro c h; cases h)
    first
    | exact ⟨hctx, hfn, hsv, hcf', hinf', hcrs⟩
    | (obtain ⟨c1, h1c, h2c⟩ := hctx
       obtain ⟨f1, h1f, h2f⟩ := hfn
       obtain ⟨v1, h1v, h2v⟩ := hsv
       refine ⟨{ cfg := ms.cfg, info := ms.info, croots := ms.croots, ctxR := c1, fnR := f1, svR := v1 }, ?_,
         h2c, h2f, h2v, hcf', hinf', hcrs⟩
       simp only [Ev.obs, monC05l] at h1c h1f h1v ⊢
       simp [h1c, h1f, h1v])

theorem lin_run (s0 s : St) (ms0 : C05lSt) (es : List Ev) (hg : Good s0) (hc : Cur s0) (hi : I1 s0) (hk : K4 s0)
    (hl : LinLink s0 ms0) (msA : C04St) (hA : LinkA s0 msA) (hr : model.run s0 es = some s) :
    ∃ ms, monC05l.run ms0 (es.filterMap model.obs) = some ms ∧ LinLink s ms := by
  induction es generalizing s0 ms0 msA with
  | nil => simp [OLTS.run] at hr; subst hr; exact ⟨ms0, rfl, hl⟩
  | cons e es ih =>
    simp only [OLTS.run] at hr
    cases hst : model.step s0 e with
    | none => simp [hst] at hr
    | some s1 =>
      simp [hst] at hr
      have hok := step_ok s0 s1 e hg.recs hst
      have hg1 : Good s1 := ⟨hok.1, hok.2.inv hg.chain⟩
      have hc1 := step_cur s0 s1 e hc hg.recs hst
      have hi1 := i1_step hi (step_mono s0 s1 e hg.recs hst)
      have hk1 := step_k4 s0 s1 e hk hst
      have hA1 := link_step s0 s1 e msA hA hg.recs hst hg1
      have hstep := lin_step s0 s1 e ms0 msA hl hA hg.recs hc hi hk hst
      cases hob : Ev.obs e with
      | none =>
        rw [hob] at hstep hA1
        obtain ⟨ms, h1, h2⟩ := ih s1 ms0 hg1 hc1 hi1 hk1 hstep msA hA1 hr
        refine ⟨ms, ?_, h2⟩
        have : model.obs e = none := hob
        simpa [List.filterMap_cons, this] using h1
      | some o =>
        rw [hob] at hstep hA1
        obtain ⟨msA', _, hA'⟩ := hA1
        obtain ⟨ms1, hm1, hl1⟩ := hstep
        obtain ⟨ms, h1, h2⟩ := ih s1 ms1 hg1 hc1 hi1 hk1 hl1 msA' hA' hr
        refine ⟨ms, ?_, h2⟩
        have : model.obs e = some o := hob
        simp [List.filterMap_cons, this, ObsMonitor.run, hm1, h1]

end UtilModel.Routine
