import UtilModel.Routine.ProofsObs4
import UtilModel.Routine.ProofsReg
/-!
# routine: the register bookkeeping of the monitors against the model (C05, lineage clauses)

`RegLink sp val s reg`: the monitor register `reg` (fed by `monReg sp`: invocations and returns of the calls that
write the register) records the call whose critical section wrote the register last, with the value `cur` it wrote,
and the model state satisfies `val s cur`. `reglink_step`: kept by every event of the model, given what critical
sections do to `val` — whatever the number of concurrent callers (`ProofsReg.lean`: a returning call only removes
writers that had returned before it was invoked, hence wrote before it did).
-/
namespace UtilModel.Routine
open UtilModel

/-! ## what an event does to the call table -/

def CallRel (c c' : Call) : Prop :=
  c'.op = c.op ∧ (∀ r, c'.st = .done r ↔ c.st = .done r) ∧ (c'.st = .finished ↔ c.st = .finished) ∧
  (c.st = .invoked → c'.st = .invoked)

theorem CallRel.refl (c : Call) : CallRel c c := ⟨rfl, fun _ => Iff.rfl, Iff.rfl, id⟩

/-- all calls but call `a` are where they were -/
structure CallsExcept (s s' : St) (a : Nat) : Prop where
  fw : ∀ (b : Nat) (cb : Call), b ≠ a → s.calls[b]? = some cb → ∃ cb', s'.calls[b]? = some cb' ∧ CallRel cb cb'
  bw : ∀ (b : Nat) (cb' : Call), b ≠ a → s'.calls[b]? = some cb' → ∃ cb, s.calls[b]? = some cb ∧ CallRel cb cb'

theorem wrSame_rel {s s' : St} (hw : WrSame s s') (b : Nat) (cb cb' : Call) (h1 : s.calls[b]? = some cb)
    (h2 : s'.calls[b]? = some cb') : CallRel cb cb' := by
  obtain ⟨c1, g1, g2, g3⟩ := hw.dn b cb' h2
  obtain ⟨c2, f1, f2⟩ := hw.fin b cb' h2
  obtain ⟨c3, e1, e2⟩ := hw.iv b cb' h2
  rw [h1] at g1 f1 e1; cases g1; cases f1; cases e1
  exact ⟨g2.symm, g3, f2, e2⟩

theorem wrSame_fw {s s' : St} (hw : WrSame s s') (b : Nat) (cb : Call) (h1 : s.calls[b]? = some cb) :
    ∃ cb', s'.calls[b]? = some cb' ∧ CallRel cb cb' := by
  have hlt : b < s'.calls.length := by rw [hw.len]; exact get_lt h1
  exact ⟨_, List.getElem?_eq_getElem hlt, wrSame_rel hw b cb _ h1 (List.getElem?_eq_getElem hlt)⟩

theorem wrSame_bw {s s' : St} (hw : WrSame s s') (b : Nat) (cb' : Call) (h2 : s'.calls[b]? = some cb') :
    ∃ cb, s.calls[b]? = some cb ∧ CallRel cb cb' := by
  obtain ⟨c1, g1, _⟩ := hw.dn b cb' h2
  exact ⟨c1, g1, wrSame_rel hw b c1 cb' g1 h2⟩

theorem callsExcept_of_wrSame {s s' : St} (hw : WrSame s s') (a : Nat) : CallsExcept s s' a :=
  ⟨fun b cb _ h => wrSame_fw hw b cb h, fun b cb' _ h => wrSame_bw hw b cb' h⟩

/-- a critical section followed by the update of the call's own entry -/
theorem callsExcept_setCall {s S : St} (hw : WrSame s S) (a : Nat) (c : Call) : CallsExcept s (setCall S a c) a := by
  refine ⟨?_, ?_⟩
  · intro b cb hne h
    obtain ⟨cb', h1, h2⟩ := wrSame_fw hw b cb h
    exact ⟨cb', by simp [setCall, List.getElem?_set, Ne.symm hne, h1], h2⟩
  · intro b cb' hne h
    have : S.calls[b]? = some cb' := by simpa [setCall, List.getElem?_set, Ne.symm hne] using h
    exact wrSame_bw hw b cb' this

theorem setCall_get {S : St} (a : Nat) (c : Call) (h : a < S.calls.length) : (setCall S a c).calls[a]? = some c := by
  simp [setCall, h]

/-- `wake` / `wctx`: a parked call moves on -/
theorem wrSame_setCall_st (s : St) (a : Nat) (c : Call) (st : CallSt) (hc : s.calls[a]? = some c)
    (h1 : ∀ r, c.st ≠ .done r) (h2 : c.st ≠ .finished) (h3 : c.st ≠ .invoked)
    (h4 : ∀ r, st ≠ .done r) (h5 : st ≠ .finished) : WrSame s (setCall s a { c with st := st }) := by
  have ho := wrSame_setCall s a c { c with st := st } hc rfl
  have hget : ∀ (i : Nat) (c' : Call), (setCall s a { c with st := st }).calls[i]? = some c' →
      (i = a ∧ c' = { c with st := st }) ∨ (i ≠ a ∧ s.calls[i]? = some c') := by
    intro i c' h
    by_cases hia : a = i
    · subst hia
      simp [setCall, get_lt hc] at h
      exact Or.inl ⟨rfl, h.symm⟩
    · right; exact ⟨Ne.symm hia, by simpa [setCall, List.getElem?_set, hia] using h⟩
  refine ⟨ho, ?_, ?_, ?_⟩
  · intro i c' h
    rcases hget i c' h with ⟨e1, e2⟩ | ⟨_, e2⟩
    · subst e1; subst e2
      exact ⟨c, hc, rfl, fun r => ⟨fun h => absurd h (h4 r), fun h => absurd h (h1 r)⟩⟩
    · exact ⟨c', e2, rfl, fun _ => Iff.rfl⟩
  · intro i c' h
    rcases hget i c' h with ⟨e1, e2⟩ | ⟨_, e2⟩
    · subst e1; subst e2
      exact ⟨c, hc, ⟨fun h => absurd h h5, fun h => absurd h h2⟩⟩
    · exact ⟨c', e2, Iff.rfl⟩
  · intro i c' h
    rcases hget i c' h with ⟨e1, e2⟩ | ⟨_, e2⟩
    · subst e1; subst e2
      exact ⟨c, hc, fun h => absurd h h3⟩
    · exact ⟨c', e2, id⟩

/-- the events that move an API call forward themselves -/
def Ev.callEv : Ev → Bool
  | .inv _ _ | .cs _ | .ret _ _ => true
  | _ => false

/-- every other event leaves the calls where they are (it may wake parked `WaitExited` calls) -/
theorem step_wrSame (s s' : St) (e : Ev) (hs : step s e = some s') (hce : e.callEv = false) : WrSame s s' := by
  cases e with
  | cfg c =>
    simp only [step, stepI] at hs
    split at hs
    · simp at hs; subst hs; exact WrSame.of_eq rfl
    · cases hs
  | inv a op => simp [Ev.callEv] at hce
  | cs a => simp [Ev.callEv] at hce
  | ret a r => simp [Ev.callEv] at hce
  | wake a =>
    simp only [step, stepI] at hs
    split at hs
    · rename_i c hc
      split at hs
      · rename_i w hst
        split at hs
        · simp at hs; subst hs
          exact wrSame_setCall_st s a c .invoked hc (by intro r h; rw [hst] at h; cases h)
            (by intro h; rw [hst] at h; cases h) (by intro h; rw [hst] at h; cases h)
            (by intro r h; cases h) (by intro h; cases h)
        · cases hs
      · cases hs
    · cases hs
  | wctx a =>
    simp only [step, stepI] at hs
    split at hs
    · rename_i c hc
      split at hs
      · rename_i w hst
        split at hs
        · simp at hs; subst hs
          exact wrSame_setCall_st s a c .wcancel hc (by intro r h; rw [hst] at h; cases h)
            (by intro h; rw [hst] at h; cases h) (by intro h; rw [hst] at h; cases h)
            (by intro r h; cases h) (by intro h; cases h)
        · cases hs
      · cases hs
    · cases hs
  | envCancel c =>
    simp only [step, stepI] at hs
    split at hs
    · simp at hs; subst hs; exact WrSame.of_eq rfl
    · cases hs
  | envDo c =>
    simp only [step, stepI] at hs
    split at hs
    · simp at hs; subst hs; exact WrSame.of_eq rfl
    · cases hs
  | envCancelW a =>
    simp only [step, stepI] at hs
    split at hs
    · split at hs
      · simp at hs; subst hs; exact WrSame.of_eq rfl
      all_goals cases hs
    · cases hs
  | envErr a e0 =>
    simp only [step, stepI] at hs
    split at hs
    · split at hs
      · simp at hs; subst hs; exact WrSame.of_eq rfl
      all_goals cases hs
    · cases hs
  | giveUp n =>
    simp only [step, stepI] at hs
    split at hs
    · split at hs
      · split at hs
        · simp at hs; subst hs; exact WrSame.of_eq rfl
        · simp at hs; subst hs; exact WrSame.of_eq rfl
      · cases hs
    · cases hs
  | drained n =>
    simp only [step, stepI] at hs
    split at hs
    · split at hs
      · simp at hs; subst hs; exact WrSame.of_eq rfl
      · cases hs
    · cases hs
  | cbin k n f arg root =>
    simp only [step, stepI] at hs
    split at hs
    · split at hs
      · split at hs
        · simp at hs; subst hs; exact WrSame.of_eq rfl
        · cases hs
      · cases hs
    · cases hs
  | cbout k o =>
    simp only [step, stepI] at hs
    split at hs
    · split at hs
      · split at hs
        · simp at hs; subst hs; exact WrSame.of_eq rfl
        · cases hs
      · cases hs
    · cases hs
  | closeExit n =>
    simp only [step, stepI] at hs
    split at hs
    · split at hs
      · simp at hs; subst hs; exact WrSame.of_eq rfl
      · cases hs
    · cases hs
  | record n dur =>
    simp only [step, stepI] at hs
    split at hs
    · rename_i cf x _ hx
      split at hs
      · exact wrSame_recordCS s s' cf n x dur hs
      · cases hs
    · cases hs
  | emit o =>
    simp only [step, stepI] at hs
    split at hs
    · split at hs
      · simp at hs; subst hs; exact WrSame.of_eq rfl
      · cases hs
    · cases hs
  | fire t =>
    simp only [step, stepI] at hs
    split at hs
    · split at hs
      · simp at hs; subst hs; exact WrSame.of_eq rfl
      · cases hs
    · cases hs
  | timerCS t =>
    simp only [step, stepI] at hs
    split at hs
    · rename_i tm htm
      split at hs
      · simp at hs; subst hs
        exact (WrSame.of_eq (s := s) (s' := { s with timers := s.timers.set t { tm with st := .dead } }) rfl).trans
          (wrSame_timerBody _ t tm.rid)
      · cases hs
    · cases hs
  | probeCtx k b =>
    simp only [step, stepI] at hs
    split at hs
    · split at hs
      · simp at hs; subst hs; exact WrSame.of_eq rfl
      · cases hs
    · cases hs
  | probeW a b =>
    simp only [step, stepI] at hs
    split at hs
    · split at hs
      · split at hs
        · simp at hs; subst hs; exact WrSame.of_eq rfl
        · cases hs
      · cases hs
    · cases hs
  | quiesce p r l =>
    simp only [step] at hs
    split at hs
    · simp at hs; subst hs; exact WrSame.of_eq rfl
    · cases hs

/-! ## the register link -/

/-- call `a` (id `a + 1`) has had its critical section, which wrote the register, and has not returned yet -/
def wroteM (sp : RegSpec) (s : St) (i : Nat) : Prop :=
  ∃ (a : Nat) (c : Call) (r : Res), i = a + 1 ∧ s.calls[a]? = some c ∧ c.st = .done r ∧ sp.eff r = true

/-- call `a` (id `a + 1`) has returned -/
def finM (s : St) (i : Nat) : Prop := ∃ (a : Nat) (c : Call), i = a + 1 ∧ s.calls[a]? = some c ∧ c.st = .finished

structure RegLink (sp : RegSpec) (val : St → Nat → Prop) (s : St) (reg : Reg) : Prop where
  ok : ∃ L cur, RegOK reg L cur (wroteM sp s) (finM s) ∧ val s cur
  /-- in-flight entries are writers that have not returned -/
  pd : ∀ b v S, (b, v, S) ∈ reg.pend → ∃ (a : Nat) (c : Call), b = a + 1 ∧ s.calls[a]? = some c ∧
        sp.isW c.op = some v ∧ (c.st = .invoked ∨ ∃ r, c.st = .done r)
  /-- writers that have not returned are in flight for the monitor -/
  pc : ∀ (a : Nat) (c : Call) (v : Nat), s.calls[a]? = some c → sp.isW c.op = some v → c.st ≠ .finished →
        ∃ S, (a + 1, v, S) ∈ reg.pend

theorem reglink_init (sp : RegSpec) (val : St → Nat → Prop) (h : val {} 0) :
    RegLink sp val {} { done := [(0, 0)] } := by
  refine ⟨⟨0, 0, regOK_init _ _, h⟩, ?_, ?_⟩
  · intro b v S hm; simp at hm
  · intro a c v hc; simp at hc

theorem wrote_iff_ne {sp : RegSpec} {s s' : St} {a : Nat} (hx : CallsExcept s s' a) (i : Nat) (hi : i ≠ a + 1) :
    wroteM sp s' i ↔ wroteM sp s i := by
  constructor
  · rintro ⟨b, c', r, e, hc', hst, heff⟩
    have hb : b ≠ a := by intro e0; subst e0; exact hi e
    obtain ⟨c, hc, hrel⟩ := hx.bw b c' hb hc'
    exact ⟨b, c, r, e, hc, (hrel.2.1 r).1 hst, heff⟩
  · rintro ⟨b, c, r, e, hc, hst, heff⟩
    have hb : b ≠ a := by intro e0; subst e0; exact hi e
    obtain ⟨c', hc', hrel⟩ := hx.fw b c hb hc
    exact ⟨b, c', r, e, hc', (hrel.2.1 r).2 hst, heff⟩

theorem fin_iff_ne {s s' : St} {a : Nat} (hx : CallsExcept s s' a) (i : Nat) (hi : i ≠ a + 1) :
    finM s' i ↔ finM s i := by
  constructor
  · rintro ⟨b, c', e, hc', hst⟩
    have hb : b ≠ a := by intro e0; subst e0; exact hi e
    obtain ⟨c, hc, hrel⟩ := hx.bw b c' hb hc'
    exact ⟨b, c, e, hc, hrel.2.2.1.1 hst⟩
  · rintro ⟨b, c, e, hc, hst⟩
    have hb : b ≠ a := by intro e0; subst e0; exact hi e
    obtain ⟨c', hc', hrel⟩ := hx.fw b c hb hc
    exact ⟨b, c', e, hc', hrel.2.2.1.2 hst⟩

theorem Reg.ret_pend (reg : Reg) (a : Nat) (e : Bool) : (reg.ret a e).pend = reg.pend.filter (·.1 != a) := by
  unfold Reg.ret
  split
  · split <;> rfl
  · rename_i hnone
    symm
    rw [List.filter_eq_self]
    intro p hp
    rw [List.find?_eq_none] at hnone
    have := hnone p hp
    simpa using this

/-- **scenario N**: the event moved call `a`, which is not recorded in flight and, if it is a writer, has returned -/
theorem RegLink.moveN {sp : RegSpec} {val : St → Nat → Prop} {s s' : St} {reg : Reg} (hl : RegLink sp val s reg)
    (a : Nat) (hx : CallsExcept s s' a)
    (hfresh : ∀ v S, (a + 1, v, S) ∉ reg.pend)
    (hfa : finM s (a + 1) → finM s' (a + 1))
    (ha' : ∀ c' v, s'.calls[a]? = some c' → sp.isW c'.op = some v → c'.st = .finished)
    (hv : ∀ cur, val s cur → val s' cur) : RegLink sp val s' reg := by
  obtain ⟨L, cur, hok, hval⟩ := hl.ok
  have hne : ∀ b v S, (b, v, S) ∈ reg.pend → b ≠ a + 1 := by
    intro b v S hm e; subst e; exact hfresh v S hm
  refine ⟨⟨L, cur, ?_, hv cur hval⟩, ?_, ?_⟩
  · refine hok.congr ?_ ?_ ?_
    · intro b v S hm; exact wrote_iff_ne hx b (hne b v S hm)
    · intro i hi
      by_cases e : i = a + 1
      · subst e; exact hfa hi
      · exact (fin_iff_ne hx i e).2 hi
    · intro b v S hm hf; exact (fin_iff_ne hx b (hne b v S hm)).1 hf
  · intro b v S hm
    obtain ⟨b0, c, e, hc, hw, hst⟩ := hl.pd b v S hm
    have hb : b0 ≠ a := by intro e0; subst e0; exact hne b v S hm e
    obtain ⟨c', hc', hrel⟩ := hx.fw b0 c hb hc
    refine ⟨b0, c', e, hc', by rw [hrel.1]; exact hw, ?_⟩
    rcases hst with h | ⟨r, h⟩
    · exact Or.inl (hrel.2.2.2 h)
    · exact Or.inr ⟨r, (hrel.2.1 r).2 h⟩
  · intro b c' v hc' hw hnf
    by_cases hb : b = a
    · subst hb; exact absurd (ha' c' v hc' hw) hnf
    · obtain ⟨c, hc, hrel⟩ := hx.bw b c' hb hc'
      exact hl.pc b c v hc (by rw [← hrel.1]; exact hw) (fun h => hnf (hrel.2.2.1.2 h))

/-- an event that is not the invocation, critical section or return of a call -/
theorem RegLink.same {sp : RegSpec} {val : St → Nat → Prop} {s s' : St} {reg : Reg} (hl : RegLink sp val s reg)
    (hw : WrSame s s') (hv : ∀ cur, val s cur → val s' cur) : RegLink sp val s' reg := by
  -- take a call index that does not exist as the exception
  have hx := callsExcept_of_wrSame hw s.calls.length
  refine hl.moveN s.calls.length hx ?_ ?_ ?_ hv
  · intro v S hm
    obtain ⟨b0, c, e, hc, _⟩ := hl.pd _ v S hm
    have : b0 = s.calls.length := by omega
    subst this
    have := get_lt hc; omega
  · rintro ⟨b, c, e, hc, _⟩
    have : b = s.calls.length := by omega
    subst this
    have := get_lt hc; omega
  · intro c' v hc'
    have := get_lt hc'
    rw [hw.len] at this; omega

theorem ite_ne_fin (p : Prop) [Decidable p] (x : Res) :
    (if p then CallSt.done x else CallSt.parked false) ≠ .finished := by
  split <;> simp

/-- one step of the model against the register bookkeeping, given what the step does to `val` -/
theorem reglink_step (sp : RegSpec) (val : St → Nat → Prop) (s s' : St) (e : Ev) (reg : Reg)
    (hl : RegLink sp val s reg) (hs : step s e = some s')
    (hwx : ∀ b, sp.isW (.waitExited b) = none)
    (hvo : ∀ cur, val s cur → (∀ a c, e = .cs a → s.calls[a]? = some c → sp.isW c.op = none) → val s' cur)
    (hvc : ∀ cur a c v c' r, e = .cs a → s.calls[a]? = some c → sp.isW c.op = some v →
      s'.calls[a]? = some c' → c'.st = .done r → val s cur →
      (sp.eff r = true → val s' v) ∧ (sp.eff r = false → val s' cur)) :
    match Ev.obs e with
    | none => RegLink sp val s' reg
    | some o => ∃ reg', (monReg sp).step reg o = some reg' ∧ RegLink sp val s' reg' := by
  have hgen : e.callEv = false → RegLink sp val s' reg := fun hce =>
    hl.same (step_wrSame s s' e hs hce) (fun cur h => hvo cur h (by
      intro a c e0; subst e0; simp [Ev.callEv] at hce))
  cases e with
  | inv a op =>
    simp only [step, stepI] at hs
    split at hs
    · rename_i hcfg
      simp at hs; subst hs
      have haeq : a = s.calls.length := hcfg.2
      subst haeq
      have hget : ({ s with calls := s.calls ++ [({ op := op } : Call)] } : St).calls[s.calls.length]? =
          some ({ op := op } : Call) := by simp
      have hx : CallsExcept s { s with calls := s.calls ++ [({ op := op } : Call)] } s.calls.length := by
        refine ⟨?_, ?_⟩
        · intro b cb _ h
          exact ⟨cb, by simp only; rw [List.getElem?_append_left (get_lt h)]; exact h, CallRel.refl cb⟩
        · intro b cb' hne h
          have hlt : b < s.calls.length := by
            have := get_lt h
            simp at this; omega
          refine ⟨cb', ?_, CallRel.refl cb'⟩
          simp only at h; rw [List.getElem?_append_left hlt] at h; exact h
      have hnone : s.calls[s.calls.length]? = none := by simp
      have hfresh : ∀ v S, (s.calls.length + 1, v, S) ∉ reg.pend := by
        intro v S hm
        obtain ⟨b0, c, e, hc, _⟩ := hl.pd _ v S hm
        have : b0 = s.calls.length := by omega
        subst this; rw [hnone] at hc; cases hc
      have hnf : ¬ finM s (s.calls.length + 1) := by
        rintro ⟨b, c, e, hc, _⟩
        have : b = s.calls.length := by omega
        subst this; rw [hnone] at hc; cases hc
      have hv : ∀ cur, val s cur → val { s with calls := s.calls ++ [({ op := op } : Call)] } cur :=
        fun cur h => hvo cur h (by intro a c e0; cases e0)
      cases hW : sp.isW op with
      | none =>
        refine ⟨reg, by simp [Ev.obs, monReg, hW], ?_⟩
        refine hl.moveN s.calls.length hx hfresh (fun h => absurd h hnf) ?_ hv
        intro c' v hc' hw
        rw [hget] at hc'; cases hc'
        rw [hW] at hw; cases hw
      | some v =>
        refine ⟨reg.inv (s.calls.length + 1) v, by simp [Ev.obs, monReg, hW], ?_⟩
        obtain ⟨L, cur, hok, hval⟩ := hl.ok
        have hnw : ¬ wroteM sp s (s.calls.length + 1) := by
          rintro ⟨b, c, r, e, hc, _⟩
          have : b = s.calls.length := by omega
          subst this; rw [hnone] at hc; cases hc
        have hok1 := hok.inv (s.calls.length + 1) v (by omega) hnf hnw hfresh
        -- the new call is neither done nor finished
        have hw_iff : ∀ i, wroteM sp { s with calls := s.calls ++ [({ op := op } : Call)] } i ↔ wroteM sp s i := by
          intro i
          by_cases e : i = s.calls.length + 1
          · subst e
            constructor
            · rintro ⟨b, c, r, e, hc, hst, _⟩
              have : b = s.calls.length := by omega
              subst this; rw [hget] at hc; cases hc; cases hst
            · intro h; exact absurd h hnw
          · exact wrote_iff_ne hx i e
        have hf_iff : ∀ i, finM { s with calls := s.calls ++ [({ op := op } : Call)] } i ↔ finM s i := by
          intro i
          by_cases e : i = s.calls.length + 1
          · subst e
            constructor
            · rintro ⟨b, c, e, hc, hst⟩
              have : b = s.calls.length := by omega
              subst this; rw [hget] at hc; cases hc; cases hst
            · intro h; exact absurd h hnf
          · exact fin_iff_ne hx i e
        refine ⟨⟨L, cur, hok1.congr (fun b _ _ _ => hw_iff b) (fun i h => (hf_iff i).2 h)
          (fun b _ _ _ h => (hf_iff b).1 h), hv cur hval⟩, ?_, ?_⟩
        · intro b v' S hm
          simp only [Reg.inv, List.mem_cons] at hm
          rcases hm with e | hm
          · cases e
            exact ⟨s.calls.length, { op := op }, rfl, hget, hW, Or.inl rfl⟩
          · obtain ⟨b0, c, e, hc, hw, hst⟩ := hl.pd b v' S hm
            exact ⟨b0, c, e, by simp only; rw [List.getElem?_append_left (get_lt hc)]; exact hc, hw, hst⟩
        · intro b c' v' hc' hw hnfin
          by_cases hb : b = s.calls.length
          · subst hb
            rw [hget] at hc'; cases hc'
            rw [hW] at hw; cases hw
            exact ⟨reg.done.map (·.1), by simp [Reg.inv]⟩
          · obtain ⟨c, hc, hrel⟩ := hx.bw b c' hb hc'
            obtain ⟨S, hm⟩ := hl.pc b c v' hc (by rw [← hrel.1]; exact hw) (fun h => hnfin (hrel.2.2.1.2 h))
            exact ⟨S, by simp only [Reg.inv]; exact List.mem_cons_of_mem _ hm⟩
    · cases hs
  | cs a =>
    -- the critical section: `s' = setCall S a c''` with the other calls where they were
    have hshape : ∃ (S : St) (c c'' : Call), WrSame s S ∧ s.calls[a]? = some c ∧ c.st = .invoked ∧
        s' = setCall S a c'' ∧ c''.op = c.op ∧ c''.st ≠ .finished ∧
        (sp.isW c.op ≠ none → ∃ r, c''.st = .done r) := by
      simp only [step, stepI] at hs
      split at hs
      · rename_i cf c hcf hc
        split at hs
        · rename_i hinv
          split at hs
          · rename_i rinr hop
            split at hs
            · simp at hs
              refine ⟨(waitSample s rinr).1, c, _, WrSame.of_eq (by simp [waitSample]), hc, hinv, hs.symm, rfl, ?_, ?_⟩
              · simp only [waitSample]
                exact ite_ne_fin _ _
              · intro h; rw [hop, hwx] at h; exact absurd rfl h
            · cases hs
          · split at hs
            · cases hs
            · split at hs
              · rename_i r hr
                simp at hs
                exact ⟨r.1, c, _, wrSame_apiCS s cf _ r hr, hc, hinv, hs.symm, rfl, by simp, fun _ => ⟨_, rfl⟩⟩
              · cases hs
        · cases hs
      · cases hs
    obtain ⟨S, c, c'', hw, hc, hinv, hs', hop, hnfin, hdone⟩ := hshape
    subst hs'
    have hx := callsExcept_setCall hw a c''
    have hlt : a < S.calls.length := by rw [hw.len]; exact get_lt hc
    have hget := setCall_get (S := S) a c'' hlt
    have hnf : ¬ finM s (a + 1) := by
      rintro ⟨b, c0, e, hc0, hst⟩
      have : b = a := by omega
      subst this; rw [hc] at hc0; cases hc0; rw [hinv] at hst; cases hst
    cases hW : sp.isW c.op with
    | none =>
      refine hl.moveN a hx ?_ (fun h => absurd h hnf) ?_ (fun cur h => hvo cur h ?_)
      · intro v S' hm
        obtain ⟨b0, c0, e, hc0, hw0, _⟩ := hl.pd _ v S' hm
        have : b0 = a := by omega
        subst this; rw [hc] at hc0; cases hc0; rw [hW] at hw0; cases hw0
      · intro c' v hc' hw'
        rw [hget] at hc'; cases hc'
        rw [hop, hW] at hw'; cases hw'
      · intro a' c0 e0 hc0
        cases e0; rw [hc] at hc0; cases hc0; exact hW
    | some v =>
      obtain ⟨r, hr⟩ := hdone (by rw [hW]; simp)
      obtain ⟨Sa, hmem⟩ := hl.pc a c v hc hW (by rw [hinv]; simp)
      obtain ⟨L, cur, hok, hval⟩ := hl.ok
      have hvals := hvc cur a c v c'' r rfl hc hW hget hr hval
      have hnw : ¬ wroteM sp s (a + 1) := by
        rintro ⟨b, c0, r0, e, hc0, hst, _⟩
        have : b = a := by omega
        subst this; rw [hc] at hc0; cases hc0; rw [hinv] at hst; cases hst
      have hf_iff : ∀ i, finM (setCall S a c'') i ↔ finM s i := by
        intro i
        by_cases e : i = a + 1
        · subst e
          constructor
          · rintro ⟨b, c0, e, hc0, hst⟩
            have : b = a := by omega
            subst this; rw [hget] at hc0; cases hc0; exact absurd hst hnfin
          · intro h; exact absurd h hnf
        · exact fin_iff_ne hx i e
      have hpd : ∀ b v' S', (b, v', S') ∈ reg.pend → ∃ (a0 : Nat) (c0 : Call), b = a0 + 1 ∧
          (setCall S a c'').calls[a0]? = some c0 ∧ sp.isW c0.op = some v' ∧ (c0.st = .invoked ∨ ∃ r, c0.st = .done r) := by
        intro b v' S' hm
        obtain ⟨b0, c0, e, hc0, hw0, hst⟩ := hl.pd b v' S' hm
        by_cases hb : b0 = a
        · subst hb
          rw [hc] at hc0; cases hc0
          exact ⟨b0, c'', e, hget, by rw [hop]; exact hw0, Or.inr ⟨r, hr⟩⟩
        · obtain ⟨c', hc', hrel⟩ := hx.fw b0 c0 hb hc0
          refine ⟨b0, c', e, hc', by rw [hrel.1]; exact hw0, ?_⟩
          rcases hst with h | ⟨r0, h⟩
          · exact Or.inl (hrel.2.2.2 h)
          · exact Or.inr ⟨r0, (hrel.2.1 r0).2 h⟩
      have hpc : ∀ (b : Nat) (c' : Call) (v' : Nat), (setCall S a c'').calls[b]? = some c' → sp.isW c'.op = some v' →
          c'.st ≠ .finished → ∃ S', (b + 1, v', S') ∈ reg.pend := by
        intro b c' v' hc' hw' hnf'
        by_cases hb : b = a
        · subst hb
          rw [hget] at hc'; cases hc'
          rw [hop, hW] at hw'; cases hw'
          exact ⟨Sa, hmem⟩
        · obtain ⟨c0, hc0, hrel⟩ := hx.bw b c' hb hc'
          exact hl.pc b c0 v' hc0 (by rw [← hrel.1]; exact hw') (fun h => hnf' (hrel.2.2.1.2 h))
      cases heff : sp.eff r with
      | true =>
        have hw_iff : ∀ i, wroteM sp (setCall S a c'') i ↔ (wroteM sp s i ∨ i = a + 1) := by
          intro i
          by_cases e : i = a + 1
          · subst e
            exact ⟨fun _ => Or.inr rfl, fun _ => ⟨a, c'', r, rfl, hget, hr, heff⟩⟩
          · rw [wrote_iff_ne hx i e]
            exact ⟨Or.inl, fun h => h.elim id (fun h => absurd h e)⟩
        have hok1 := hok.write (a + 1) v Sa hmem hw_iff
        exact ⟨⟨a + 1, v, hok1.congr (fun _ _ _ _ => Iff.rfl) (fun i h => (hf_iff i).2 h)
          (fun b _ _ _ h => (hf_iff b).1 h), hvals.1 heff⟩, hpd, hpc⟩
      | false =>
        have hw_iff : ∀ i, wroteM sp (setCall S a c'') i ↔ wroteM sp s i := by
          intro i
          by_cases e : i = a + 1
          · subst e
            constructor
            · rintro ⟨b, c0, r0, e, hc0, hst, heff0⟩
              have : b = a := by omega
              subst this; rw [hget] at hc0; cases hc0
              rw [hr] at hst; cases hst; rw [heff] at heff0; cases heff0
            · intro h; exact absurd h hnw
          · exact wrote_iff_ne hx i e
        exact ⟨⟨L, cur, hok.congr (fun b _ _ _ => hw_iff b) (fun i h => (hf_iff i).2 h)
          (fun b _ _ _ h => (hf_iff b).1 h), hvals.2 heff⟩, hpd, hpc⟩
  | ret a r =>
    have hshape : ∃ c : Call, s.calls[a]? = some c ∧ (c.st = .done r ∨ (c.st = .wcancel ∧ wxOK s a r = true)) ∧
        s' = setCall s a { c with st := .finished } := by
      simp only [step, stepI] at hs
      split at hs
      · rename_i c hc
        split at hs
        · rename_i h; simp at hs; exact ⟨c, hc, Or.inl h, hs.symm⟩
        · split at hs
          · rename_i h; simp at hs; exact ⟨c, hc, Or.inr h, hs.symm⟩
          · cases hs
      · cases hs
    obtain ⟨c, hc, hst, hs'⟩ := hshape
    subst hs'
    have hx := callsExcept_setCall (WrSame.refl s) a { c with st := .finished }
    have hget := setCall_get (S := s) a { c with st := .finished } (get_lt hc)
    have hv : ∀ cur, val s cur → val (setCall s a { c with st := .finished }) cur :=
      fun cur h => hvo cur h (by intro a c e0; cases e0)
    have hf_iff : ∀ i, finM (setCall s a { c with st := .finished }) i ↔ (finM s i ∨ i = a + 1) := by
      intro i
      by_cases e : i = a + 1
      · subst e
        exact ⟨fun _ => Or.inr rfl, fun _ => ⟨a, _, rfl, hget, rfl⟩⟩
      · rw [fin_iff_ne hx i e]
        exact ⟨Or.inl, fun h => h.elim id (fun h => absurd h e)⟩
    refine ⟨reg.ret (a + 1) (sp.eff r), rfl, ?_⟩
    obtain ⟨L, cur, hok, hval⟩ := hl.ok
    -- the three clauses about in-flight entries do not depend on the kind of return
    have hpd : ∀ b v' S', (b, v', S') ∈ (reg.ret (a + 1) (sp.eff r)).pend → ∃ (a0 : Nat) (c0 : Call), b = a0 + 1 ∧
        (setCall s a { c with st := .finished }).calls[a0]? = some c0 ∧ sp.isW c0.op = some v' ∧
        (c0.st = .invoked ∨ ∃ r, c0.st = .done r) := by
      intro b v' S' hm
      rw [Reg.ret_pend] at hm
      simp only [List.mem_filter, bne_iff_ne, ne_eq] at hm
      obtain ⟨b0, c0, e, hc0, hw0, hst0⟩ := hl.pd b v' S' hm.1
      have hb : b0 ≠ a := by intro e0; subst e0; exact hm.2 e
      obtain ⟨c', hc', hrel⟩ := hx.fw b0 c0 hb hc0
      refine ⟨b0, c', e, hc', by rw [hrel.1]; exact hw0, ?_⟩
      rcases hst0 with h | ⟨r0, h⟩
      · exact Or.inl (hrel.2.2.2 h)
      · exact Or.inr ⟨r0, (hrel.2.1 r0).2 h⟩
    have hpc : ∀ (b : Nat) (c' : Call) (v' : Nat), (setCall s a { c with st := .finished }).calls[b]? = some c' →
        sp.isW c'.op = some v' → c'.st ≠ .finished → ∃ S', (b + 1, v', S') ∈ (reg.ret (a + 1) (sp.eff r)).pend := by
      intro b c' v' hc' hw' hnf'
      by_cases hb : b = a
      · subst hb
        rw [hget] at hc'; cases hc'
        exact absurd rfl hnf'
      · obtain ⟨c0, hc0, hrel⟩ := hx.bw b c' hb hc'
        obtain ⟨S', hm⟩ := hl.pc b c0 v' hc0 (by rw [← hrel.1]; exact hw') (fun h => hnf' (hrel.2.2.1.2 h))
        refine ⟨S', ?_⟩
        rw [Reg.ret_pend]
        simp only [List.mem_filter, bne_iff_ne, ne_eq]
        exact ⟨hm, by omega⟩
    -- `wrote` for the calls still in flight
    have hcongr : ∀ {reg' : Reg} {fin' : Nat → Prop}, RegOK reg' L cur (wroteM sp s) fin' →
        (∀ b v S, (b, v, S) ∈ reg'.pend → b ≠ a + 1) →
        RegOK reg' L cur (wroteM sp (setCall s a { c with st := .finished })) fin' := by
      intro reg' fin' h hne
      exact h.congr (fun b v S hm => wrote_iff_ne hx b (hne b v S hm)) (fun _ h => h) (fun _ _ _ _ h => h)
    have hne' : ∀ b v S, (b, v, S) ∈ (reg.ret (a + 1) (sp.eff r)).pend → b ≠ a + 1 := by
      intro b v S hm
      rw [Reg.ret_pend] at hm
      simp only [List.mem_filter, bne_iff_ne, ne_eq] at hm
      exact hm.2
    cases hW : sp.isW c.op with
    | none =>
      have hfresh : ∀ v S, (a + 1, v, S) ∉ reg.pend := by
        intro v S hm
        obtain ⟨b0, c0, e, hc0, hw0, _⟩ := hl.pd _ v S hm
        have : b0 = a := by omega
        subst this; rw [hc] at hc0; cases hc0; rw [hW] at hw0; cases hw0
      have h1 := hok.ret_none (a + 1) (sp.eff r) hfresh hf_iff
      exact ⟨⟨L, cur, hcongr h1 hne', hv cur hval⟩, hpd, hpc⟩
    | some v =>
      have hnfin : c.st ≠ .finished := by
        rcases hst with h | h
        · rw [h]; simp
        · rw [h.1]; simp
      obtain ⟨Sa, hmem⟩ := hl.pc a c v hc hW hnfin
      -- a writer in flight is invoked or done: it returns with the result of its critical section
      have hdone : c.st = .done r := by
        obtain ⟨b0, c0, e, hc0, _, hst0⟩ := hl.pd _ v Sa hmem
        have : b0 = a := by omega
        subst this; rw [hc] at hc0; cases hc0
        rcases hst with h | h
        · exact h
        · rcases hst0 with h0 | ⟨r0, h0⟩
          · rw [h.1] at h0; cases h0
          · rw [h.1] at h0; cases h0
      cases heff : sp.eff r with
      | true =>
        have hwa : wroteM sp s (a + 1) := ⟨a, c, r, rfl, hc, hdone, heff⟩
        have h1 := hok.ret_eff (a + 1) v Sa hmem hwa hf_iff
        rw [heff] at hne' hpd hpc
        exact ⟨⟨L, cur, hcongr h1 hne', hv cur hval⟩, hpd, hpc⟩
      | false =>
        have hwa : ¬ wroteM sp s (a + 1) := by
          rintro ⟨b, c0, r0, e, hc0, hst0, heff0⟩
          have : b = a := by omega
          subst this; rw [hc] at hc0; cases hc0
          rw [hdone] at hst0; cases hst0; rw [heff] at heff0; cases heff0
        have h1 := hok.ret_ineff (a + 1) v Sa hmem hwa hf_iff
        rw [heff] at hne' hpd hpc
        exact ⟨⟨L, cur, hcongr h1 hne', hv cur hval⟩, hpd, hpc⟩
  | emit o =>
    have hl' := hgen rfl
    have hline : o.isLine = true := by
      simp only [step, stepI] at hs
      split at hs
      · split at hs
        · rename_i h0; exact h0.2
        · cases hs
      · cases hs
    cases o <;> simp [Obs.isLine] at hline
    all_goals exact ⟨reg, rfl, hl'⟩
  | cfg c => exact ⟨reg, rfl, hgen rfl⟩
  | wake a => exact hgen rfl
  | wctx a => exact hgen rfl
  | envCancel c => exact ⟨reg, rfl, hgen rfl⟩
  | envDo c => exact hgen rfl
  | envCancelW a => exact ⟨reg, rfl, hgen rfl⟩
  | envErr a e0 => exact ⟨reg, rfl, hgen rfl⟩
  | giveUp n => exact hgen rfl
  | drained n => exact hgen rfl
  | cbin k n f arg root => exact ⟨reg, rfl, hgen rfl⟩
  | cbout k o => exact ⟨reg, rfl, hgen rfl⟩
  | closeExit n => exact hgen rfl
  | record n dur => exact hgen rfl
  | fire t => exact hgen rfl
  | timerCS t => exact hgen rfl
  | probeCtx k b => exact ⟨reg, rfl, hgen rfl⟩
  | probeW a b => exact ⟨reg, rfl, hgen rfl⟩
  | quiesce p r l => exact ⟨reg, rfl, hgen rfl⟩

/-! ## the context register -/

@[simp] theorem cancelInst_ctx (s : St) (n : Nat) : (cancelInst s n).ctx = s.ctx := by
  unfold cancelInst; split <;> rfl
@[simp] theorem startRec_ctx (s : St) (r c : Nat) (w : Option Nat) (f : Bool) : (startRec s r c w f).ctx = s.ctx := by
  unfold startRec; split
  · rfl
  · split <;> simp
@[simp] theorem bcastNow_ctx (s : St) : s.bcastNow.ctx = s.ctx := rfl

theorem normCtx_ctx (s : St) : (normCtx s).ctx = s.ctx ∨ (normCtx s).ctx = 0 := by
  unfold normCtx; split
  · exact Or.inr rfl
  · exact Or.inl rfl

theorem setContextCS_ctx (s : St) (c : Nat) (r : Bool) : (setContextCS s c r).1.ctx = c := by
  simp only [setContextCS]
  split
  · rename_i h
    simp only [Bool.and_eq_true, beq_iff_eq] at h
    exact h.1
  · split
    · rfl
    · split
      · rfl
      · split
        · rfl
        · split
          · rfl
          · split <;> simp

theorem restartCS_ctx (s : St) : (restartCS s).1.ctx = (normCtx s).ctx := by
  simp only [restartCS]
  split
  · rfl
  · split
    · rfl
    · split <;> simp

theorem setRoutineLocked_ctx (s : St) (f arg : Nat) : (setRoutineLocked s f arg).1.ctx = (normCtx s).ctx := by
  simp only [setRoutineLocked]
  split
  · split <;> simp
  · split <;> simp

theorem setStateCS_ctx (s : St) (cmp v : Nat) : (setStateCS s cmp v).1.ctx = s.ctx ∨ (setStateCS s cmp v).1.ctx = 0 := by
  simp only [setStateCS]
  split
  · simp only [updateStateRoutine, setRoutineLocked_ctx]
    exact normCtx_ctx { s with sval := v }
  · exact Or.inl rfl

/-- the container's context after a critical section: what `SetContext` was given; otherwise what it was, or nil
(a cancelled context is dropped) -/
theorem apiCS_ctx (s : St) (cf : Cfg) (op : Op) (r : St × Res × Option Nat) (h : apiCS s cf op = some r) :
    (∃ c b, op = .setContext c b ∧ r.1.ctx = c) ∨
    ((∀ c b, op ≠ .setContext c b) ∧ (r.1.ctx = s.ctx ∨ r.1.ctx = 0)) := by
  cases op with
  | setContext c restart =>
    simp [apiCS] at h; subst h
    exact Or.inl ⟨c, restart, rfl, setContextCS_ctx s c restart⟩
  | setRoutine f =>
    simp only [apiCS] at h
    split at h
    · cases h
    · simp at h; subst h
      refine Or.inr ⟨(by intro c b e; cases e), ?_⟩
      simp only [setRoutineLocked_ctx]; exact normCtx_ctx s
  | restart =>
    simp [apiCS] at h; subst h
    refine Or.inr ⟨(by intro c b e; cases e), ?_⟩
    simp only [restartCS_ctx]; exact normCtx_ctx s
  | setState v =>
    simp only [apiCS] at h
    split at h
    · cases h
    · simp at h; subst h
      exact Or.inr ⟨(by intro c b e; cases e), setStateCS_ctx s cf.cmp v⟩
  | setStateRoutine f =>
    simp only [apiCS] at h
    split at h
    · cases h
    · simp at h; subst h
      refine Or.inr ⟨(by intro c b e; cases e), ?_⟩
      simp only [updateStateRoutine, setRoutineLocked_ctx]
      exact normCtx_ctx { s with sfn := f }
  | swap k =>
    simp only [apiCS] at h
    split at h
    · cases h
    · split at h
      · split at h
        · simp only [Option.some.injEq] at h; subst h
          exact Or.inr ⟨(by intro c b e; cases e), setStateCS_ctx s cf.cmp _⟩
        · simp only [Option.some.injEq] at h; subst h
          exact Or.inr ⟨(by intro c b e; cases e), Or.inl rfl⟩
      · simp at h; subst h
        exact Or.inr ⟨(by intro c b e; cases e), Or.inl rfl⟩
  | getState =>
    simp only [apiCS] at h
    split at h
    · cases h
    · simp at h; subst h
      exact Or.inr ⟨(by intro c b e; cases e), Or.inl rfl⟩
  | waitExited _ => simp [apiCS] at h

theorem timerBody_ctx (s : St) (t r : Nat) : (timerBody s t r).ctx = s.ctx := by
  simp only [timerBody, bcastNow_ctx]
  split
  · split <;> simp
  · rfl

theorem recordCS_ctx (s s' : St) (cf : Cfg) (n : Nat) (x : Inst) (dur : Bool)
    (h : recordCS s cf n x dur = some s') : s'.ctx = s.ctx := by
  simp only [recordCS] at h
  split at h
  · cases h
  · split at h
    · split at h
      · cases h
      · simp only [Option.some.injEq] at h; subst h
        simp only [bcastNow_ctx]
        split <;> simp [setInst]
    · split at h
      · cases h
      · simp only [Option.some.injEq] at h; subst h; simp [setInst]

/-- **the container's context is written by `SetContext` only** (and dropped when found cancelled) -/
theorem step_ctx (s s' : St) (e : Ev) (hs : step s e = some s') :
    (∃ a c v b, e = .cs a ∧ s.calls[a]? = some c ∧ c.op = .setContext v b ∧ s'.ctx = v) ∨
    ((∀ a c v b, e = .cs a → s.calls[a]? = some c → c.op ≠ .setContext v b) ∧ (s'.ctx = s.ctx ∨ s'.ctx = 0)) := by
  have hno : ∀ e' : Ev, (∀ a, e' ≠ .cs a) → ∀ (a : Nat) (c : Call) (v : Nat) (b : Bool), e' = .cs a → s.calls[a]? = some c →
      c.op ≠ .setContext v b := fun e' h a _ _ _ e0 => absurd e0 (h a)
  cases e with
  | cs a =>
    simp only [step, stepI] at hs
    split at hs
    · rename_i cf c hcf hc
      split at hs
      · rename_i hinv
        split at hs
        · rename_i rinr hop
          split at hs
          · simp at hs; subst hs
            right
            refine ⟨?_, ?_⟩
            · intro a' c' v b e0 hc' h
              cases e0; rw [hc] at hc'; cases hc'; rw [hop] at h; cases h
            · simpa [setCall, waitSample] using normCtx_ctx s
          · cases hs
        · split at hs
          · cases hs
          · split at hs
            · rename_i r hr
              simp at hs; subst hs
              rcases apiCS_ctx s cf _ r hr with ⟨v, b, h1, h2⟩ | ⟨h1, h2⟩
              · exact Or.inl ⟨a, c, v, b, rfl, hc, h1, by simpa [setCall] using h2⟩
              · right
                refine ⟨?_, by simpa [setCall] using h2⟩
                intro a' c' v b e0 hc' h
                cases e0; rw [hc] at hc'; cases hc'; exact h1 v b h
            · cases hs
      · cases hs
    · cases hs
  | cfg c =>
    simp only [step, stepI] at hs
    split at hs
    · simp at hs; subst hs; exact Or.inr ⟨hno _ (by intro a h; cases h), Or.inl rfl⟩
    · cases hs
  | inv a op =>
    simp only [step, stepI] at hs
    split at hs
    · simp at hs; subst hs; exact Or.inr ⟨hno _ (by intro a h; cases h), Or.inl rfl⟩
    · cases hs
  | ret a r =>
    simp only [step, stepI] at hs
    split at hs
    · split at hs
      · simp at hs; subst hs; exact Or.inr ⟨hno _ (by intro a h; cases h), Or.inl rfl⟩
      · split at hs
        · simp at hs; subst hs; exact Or.inr ⟨hno _ (by intro a h; cases h), Or.inl rfl⟩
        · cases hs
    · cases hs
  | wake a =>
    simp only [step, stepI] at hs
    split at hs
    · split at hs
      · split at hs
        · simp at hs; subst hs; exact Or.inr ⟨hno _ (by intro a h; cases h), Or.inl rfl⟩
        · cases hs
      · cases hs
    · cases hs
  | wctx a =>
    simp only [step, stepI] at hs
    split at hs
    · split at hs
      · split at hs
        · simp at hs; subst hs; exact Or.inr ⟨hno _ (by intro a h; cases h), Or.inl rfl⟩
        · cases hs
      · cases hs
    · cases hs
  | envCancel c =>
    simp only [step, stepI] at hs
    split at hs
    · simp at hs; subst hs; exact Or.inr ⟨hno _ (by intro a h; cases h), Or.inl rfl⟩
    · cases hs
  | envDo c =>
    simp only [step, stepI] at hs
    split at hs
    · simp at hs; subst hs; exact Or.inr ⟨hno _ (by intro a h; cases h), Or.inl rfl⟩
    · cases hs
  | envCancelW a =>
    simp only [step, stepI] at hs
    split at hs
    · split at hs
      · simp at hs; subst hs; exact Or.inr ⟨hno _ (by intro a h; cases h), Or.inl rfl⟩
      all_goals cases hs
    · cases hs
  | envErr a e0 =>
    simp only [step, stepI] at hs
    split at hs
    · split at hs
      · simp at hs; subst hs; exact Or.inr ⟨hno _ (by intro a h; cases h), Or.inl rfl⟩
      all_goals cases hs
    · cases hs
  | giveUp n =>
    simp only [step, stepI] at hs
    split at hs
    · split at hs
      · split at hs
        · simp at hs; subst hs; exact Or.inr ⟨hno _ (by intro a h; cases h), Or.inl rfl⟩
        · simp at hs; subst hs; exact Or.inr ⟨hno _ (by intro a h; cases h), Or.inl rfl⟩
      · cases hs
    · cases hs
  | drained n =>
    simp only [step, stepI] at hs
    split at hs
    · split at hs
      · simp at hs; subst hs; exact Or.inr ⟨hno _ (by intro a h; cases h), Or.inl rfl⟩
      · cases hs
    · cases hs
  | cbin k n f arg root =>
    simp only [step, stepI] at hs
    split at hs
    · split at hs
      · split at hs
        · simp at hs; subst hs; exact Or.inr ⟨hno _ (by intro a h; cases h), Or.inl rfl⟩
        · cases hs
      · cases hs
    · cases hs
  | cbout k o =>
    simp only [step, stepI] at hs
    split at hs
    · split at hs
      · split at hs
        · simp at hs; subst hs; exact Or.inr ⟨hno _ (by intro a h; cases h), Or.inl rfl⟩
        · cases hs
      · cases hs
    · cases hs
  | closeExit n =>
    simp only [step, stepI] at hs
    split at hs
    · split at hs
      · simp at hs; subst hs; exact Or.inr ⟨hno _ (by intro a h; cases h), Or.inl rfl⟩
      · cases hs
    · cases hs
  | record n dur =>
    simp only [step, stepI] at hs
    split at hs
    · rename_i cf x _ hx
      split at hs
      · exact Or.inr ⟨hno _ (by intro a h; cases h), Or.inl (recordCS_ctx s s' cf n x dur hs)⟩
      · cases hs
    · cases hs
  | emit o =>
    simp only [step, stepI] at hs
    split at hs
    · split at hs
      · simp at hs; subst hs; exact Or.inr ⟨hno _ (by intro a h; cases h), Or.inl rfl⟩
      · cases hs
    · cases hs
  | fire t =>
    simp only [step, stepI] at hs
    split at hs
    · split at hs
      · simp at hs; subst hs; exact Or.inr ⟨hno _ (by intro a h; cases h), Or.inl rfl⟩
      · cases hs
    · cases hs
  | timerCS t =>
    simp only [step, stepI] at hs
    split at hs
    · split at hs
      · simp at hs; subst hs
        exact Or.inr ⟨hno _ (by intro a h; cases h), Or.inl (by rw [timerBody_ctx])⟩
      · cases hs
    · cases hs
  | probeCtx k b =>
    simp only [step, stepI] at hs
    split at hs
    · split at hs
      · simp at hs; subst hs; exact Or.inr ⟨hno _ (by intro a h; cases h), Or.inl rfl⟩
      · cases hs
    · cases hs
  | probeW a b =>
    simp only [step, stepI] at hs
    split at hs
    · split at hs
      · split at hs
        · simp at hs; subst hs; exact Or.inr ⟨hno _ (by intro a h; cases h), Or.inl rfl⟩
        · cases hs
      · cases hs
    · cases hs
  | quiesce p r l =>
    simp only [step] at hs
    split at hs
    · simp at hs; subst hs; exact Or.inr ⟨hno _ (by intro a h; cases h), Or.inl rfl⟩
    · cases hs

/-- an instance with a live context is the current instance of the container's current record and derives from
the container's context, which is set (state form of C05's second sentence, for any reachable state) -/
theorem live_current {s : St} (hc : Cur s) (ha : AllRec s) (hi : I1 s) (n : Nat) (x : Inst)
    (hx : s.insts[n]? = some x) (hlive : s.isCancelled x = false) :
    x.root = s.ctx ∧ s.ctx ≠ 0 ∧ ∃ r y, s.routine = some r ∧ s.recs[r]? = some y ∧ y.rctx = some n ∧ x.rid = r := by
  have hnc : x.st ≠ .closed := by
    intro h
    have := hi n x hx h
    simp [St.isCancelled, this] at hlive
  have hcur : curInst s = some n := by
    cases h : decide (curInst s = some n) with
    | true => simpa using h
    | false =>
      have : curInst s ≠ some n := by simpa using h
      have := hc.1.sc n x hx this
      rw [this] at hlive; cases hlive
  have hk := hc.2 n x hcur hx hnc hlive
  refine ⟨hk.1, hk.2, ?_⟩
  cases hrt : s.routine with
  | none => simp [curInst, curRec, hrt] at hcur
  | some r =>
    cases hy : s.recs[r]? with
    | none => simp [curInst, curRec, hrt, hy] at hcur
    | some y =>
      have hrc : y.rctx = some n := by simpa [curInst, curRec, hrt, hy] using hcur
      obtain ⟨z, hz, hzr⟩ := (ha r y hy).k5 n hrc
      rw [hx] at hz; cases hz
      exact ⟨r, y, rfl, hy, hrc, hzr⟩

/-- entries are only appended, by `cbin` -/
theorem step_ent (s s' : St) (e : Ev) (ha : AllRec s) (hs : step s e = some s')
    (hne : ∀ k n f a r, e ≠ .cbin k n f a r) : s'.ent = s.ent := by
  cases hsp : e.special with
  | false => exact (step_keep s s' e ha hs hsp).ent
  | true =>
    cases e with
    | inv a op =>
      simp only [step, stepI] at hs
      split at hs
      · simp at hs; subst hs; rfl
      · cases hs
    | cbout k o =>
      simp only [step, stepI] at hs
      split at hs
      · split at hs
        · split at hs
          · simp at hs; subst hs; rfl
          · cases hs
        · cases hs
      · cases hs
    | envCancel c =>
      simp only [step, stepI] at hs
      split at hs
      · simp at hs; subst hs; rfl
      · cases hs
    | cbin k n f a r => exact absurd rfl (hne k n f a r)
    | _ => simp [Ev.special] at hsp

def ctxVal (s : St) (cur : Nat) : Prop := s.ctx = cur ∨ s.ctx = 0

theorem ctxSpec_isW {op : Op} {v : Nat} (h : ctxSpec.isW op = some v) : ∃ b, op = .setContext v b := by
  cases op <;> simp [ctxSpec] at h
  subst h; exact ⟨_, rfl⟩

/-- the context register against the model: one step -/
theorem ctx_reg_step (s s' : St) (e : Ev) (reg : Reg) (hl : RegLink ctxSpec ctxVal s reg) (hs : step s e = some s') :
    match Ev.obs e with
    | none => RegLink ctxSpec ctxVal s' reg
    | some o => ∃ reg', (monReg ctxSpec).step reg o = some reg' ∧ RegLink ctxSpec ctxVal s' reg' := by
  refine reglink_step ctxSpec ctxVal s s' e reg hl hs (fun _ => rfl) ?_ ?_
  · intro cur hv hnw
    rcases step_ctx s s' e hs with ⟨a, c, v, b, e0, hc, hop, _⟩ | ⟨_, h2⟩
    · have := hnw a c e0 hc
      rw [hop] at this; simp [ctxSpec] at this
    · rcases h2 with h2 | h2
      · rcases hv with hv | hv
        · exact Or.inl (h2.trans hv)
        · exact Or.inr (h2.trans hv)
      · exact Or.inr h2
  · intro cur a c v c' r e0 hc hw _ _ _
    obtain ⟨b, hop⟩ := ctxSpec_isW hw
    refine ⟨fun _ => ?_, fun h => by simp [ctxSpec] at h⟩
    rcases step_ctx s s' e hs with ⟨a', c0, v', b', e1, hc0, hop0, h3⟩ | ⟨h1, _⟩
    · rw [e0] at e1; cases e1
      rw [hc] at hc0; cases hc0
      rw [hop] at hop0; cases hop0
      exact Or.inl h3
    · exact absurd hop (h1 a c v b e0 hc)

structure CtxLink (s : St) (ms : C05cSt) : Prop where
  reg : RegLink ctxSpec ctxVal s ms.ctxR
  inf : ∀ k n, s.ent[k]? = some n → ∃ x, s.insts[n]? = some x ∧ ms.info.find? (·.1 == k) = some (k, x.root)

theorem ctxLink_init : CtxLink {} {} :=
  ⟨reglink_init _ _ (Or.inl rfl), by intro k n h; simp at h⟩

theorem inf_keep {s s' : St} {info : List (Nat × Nat)}
    (h : ∀ k n, s.ent[k]? = some n → ∃ x, s.insts[n]? = some x ∧ info.find? (·.1 == k) = some (k, x.root))
    (hm : StepMono s s') (he : s'.ent = s.ent) :
    ∀ k n, s'.ent[k]? = some n → ∃ x, s'.insts[n]? = some x ∧ info.find? (·.1 == k) = some (k, x.root) := by
  intro k n hk
  rw [he] at hk
  obtain ⟨x, hx, hf⟩ := h k n hk
  obtain ⟨x', hx', hr, _⟩ := hm.old n x hx
  exact ⟨x', hx', by rw [hr]; exact hf⟩

/-- one step of the model against the context-lineage monitor -/
theorem ctx_step (s s' : St) (e : Ev) (ms : C05cSt) (hl : CtxLink s ms) (ha : AllRec s) (hc : Cur s) (hi : I1 s)
    (hs : step s e = some s') :
    match Ev.obs e with
    | none => CtxLink s' ms
    | some o => ∃ ms', monC05c.step ms o = some ms' ∧ CtxLink s' ms' := by
  have hreg := ctx_reg_step s s' e ms.ctxR hl.reg hs
  have hm := step_mono s s' e ha hs
  have hinf : (∀ k n f a r, e ≠ .cbin k n f a r) →
      ∀ k n, s'.ent[k]? = some n → ∃ x, s'.insts[n]? = some x ∧ ms.info.find? (·.1 == k) = some (k, x.root) :=
    fun hne => inf_keep hl.inf hm (step_ent s s' e ha hs hne)
  cases e with
  | cbin k n f arg root =>
    obtain ⟨reg', hr1, hr2⟩ := hreg
    refine ⟨{ info := (k, root) :: ms.info, ctxR := reg' }, ?_, hr2, ?_⟩
    · simp only [Ev.obs, monC05c] at hr1 ⊢
      simp [hr1]
    · simp only [step, stepI] at hs
      split at hs
      · rename_i x hx
        split at hs
        · split at hs
          · rename_i r hr hg
            simp at hs; subst hs
            obtain ⟨_, _, _, hk, _, _, hroot⟩ := hg
            subst hk
            intro k' n' hk'
            by_cases hlt : k' < s.ent.length
            · have hk0 : s.ent[k']? = some n' := by
                simpa [List.getElem?_append_left hlt] using hk'
              obtain ⟨y, hy, hf⟩ := hl.inf k' n' hk0
              obtain ⟨y', hy', hr', _⟩ := hm.old n' y hy
              refine ⟨y', hy', ?_⟩
              rw [find_cons_ne (by omega), hr']; exact hf
            · have hk1 : k' = s.ent.length := by
                have := get_lt hk'
                simp at this; omega
              subst hk1
              simp at hk'; subst hk'
              exact ⟨{ x with st := .running }, by simp [setInst, get_lt hx], by simp [List.find?_cons, hroot]⟩
          · cases hs
        · cases hs
      · cases hs
  | probeCtx k b =>
    obtain ⟨reg', hr1, hr2⟩ := hreg
    have hinf' := hinf (by intro _ _ _ _ _ h; cases h)
    have hreg' : reg' = ms.ctxR := by
      simp only [Ev.obs, monReg] at hr1; simpa using hr1.symm
    subst hreg'
    refine ⟨ms, ?_, hr2, hinf'⟩
    cases b with
    | true => simp [Ev.obs, monC05c, monReg]
    | false =>
      -- a live context: the instance derives from the container's context, which the last SetContext wrote
      simp only [step, stepI] at hs
      split at hs
      · rename_i n hn
        split at hs
        · rename_i hb
          simp at hs; subst hs
          obtain ⟨x, hx, hf⟩ := hl.inf k n hn
          have hlive : s.isCancelled x = false := by simpa [ctxErrOf, hx] using hb
          obtain ⟨h1, h2, _⟩ := live_current hc ha hi n x hx hlive
          obtain ⟨L, cur, hok, hv⟩ := hl.reg.ok
          have hcur : s.ctx = cur := by
            rcases hv with hv | hv
            · exact hv
            · exact absurd hv h2
          have hmem := hok.cur_mem
          rw [← hcur, ← h1] at hmem
          have hne : (x.root != 0) = true := by rw [h1]; simpa using h2
          have hmem' : x.root ∈ ms.ctxR.vals := by simpa using hmem
          simp [Ev.obs, monC05c, monReg, hf, hmem', hne]
        · cases hs
      · cases hs
  | emit o =>
    have hinf' := hinf (by intro _ _ _ _ _ h; cases h)
    have hline : o.isLine = true := by
      simp only [step, stepI] at hs
      split at hs
      · split at hs
        · rename_i h0; exact h0.2
        · cases hs
      · cases hs
    cases o <;> simp [Obs.isLine] at hline
    all_goals
      obtain ⟨reg', hr1, hr2⟩ := hreg
      have hreg' : reg' = ms.ctxR := by
        simp only [Ev.obs, monReg] at hr1; simpa using hr1.symm
      subst hreg'
      exact ⟨ms, by simp [Ev.obs, monC05c, monReg], hr2, hinf'⟩
  | inv a op =>
    obtain ⟨reg', hr1, hr2⟩ := hreg
    refine ⟨{ info := ms.info, ctxR := reg' }, ?_, hr2, hinf (by intro _ _ _ _ _ h; cases h)⟩
    simp only [Ev.obs, monC05c] at hr1 ⊢
    simp [hr1]
  | ret a r =>
    obtain ⟨reg', hr1, hr2⟩ := hreg
    refine ⟨{ info := ms.info, ctxR := reg' }, ?_, hr2, hinf (by intro _ _ _ _ _ h; cases h)⟩
    simp only [Ev.obs, monC05c] at hr1 ⊢
    simp [hr1]
  | cfg c =>
    obtain ⟨reg', hr1, hr2⟩ := hreg
    refine ⟨{ info := ms.info, ctxR := reg' }, ?_, hr2, hinf (by intro _ _ _ _ _ h; cases h)⟩
    simp only [Ev.obs, monC05c] at hr1 ⊢
    simp [hr1]
  | cbout k o =>
    obtain ⟨reg', hr1, hr2⟩ := hreg
    refine ⟨{ info := ms.info, ctxR := reg' }, ?_, hr2, hinf (by intro _ _ _ _ _ h; cases h)⟩
    simp only [Ev.obs, monC05c] at hr1 ⊢
    simp [hr1]
  | envCancel c =>
    obtain ⟨reg', hr1, hr2⟩ := hreg
    refine ⟨{ info := ms.info, ctxR := reg' }, ?_, hr2, hinf (by intro _ _ _ _ _ h; cases h)⟩
    simp only [Ev.obs, monC05c] at hr1 ⊢
    simp [hr1]
  | envCancelW a =>
    obtain ⟨reg', hr1, hr2⟩ := hreg
    refine ⟨{ info := ms.info, ctxR := reg' }, ?_, hr2, hinf (by intro _ _ _ _ _ h; cases h)⟩
    simp only [Ev.obs, monC05c] at hr1 ⊢
    simp [hr1]
  | envErr a e0 =>
    obtain ⟨reg', hr1, hr2⟩ := hreg
    refine ⟨{ info := ms.info, ctxR := reg' }, ?_, hr2, hinf (by intro _ _ _ _ _ h; cases h)⟩
    simp only [Ev.obs, monC05c] at hr1 ⊢
    simp [hr1]
  | probeW a b =>
    obtain ⟨reg', hr1, hr2⟩ := hreg
    refine ⟨{ info := ms.info, ctxR := reg' }, ?_, hr2, hinf (by intro _ _ _ _ _ h; cases h)⟩
    simp only [Ev.obs, monC05c] at hr1 ⊢
    simp [hr1]
  | quiesce p r l =>
    obtain ⟨reg', hr1, hr2⟩ := hreg
    refine ⟨{ info := ms.info, ctxR := reg' }, ?_, hr2, hinf (by intro _ _ _ _ _ h; cases h)⟩
    simp only [Ev.obs, monC05c] at hr1 ⊢
    simp [hr1]
  | cs a => exact ⟨hreg, hinf (by intro _ _ _ _ _ h; cases h)⟩
  | wake a => exact ⟨hreg, hinf (by intro _ _ _ _ _ h; cases h)⟩
  | wctx a => exact ⟨hreg, hinf (by intro _ _ _ _ _ h; cases h)⟩
  | envDo c => exact ⟨hreg, hinf (by intro _ _ _ _ _ h; cases h)⟩
  | giveUp n => exact ⟨hreg, hinf (by intro _ _ _ _ _ h; cases h)⟩
  | drained n => exact ⟨hreg, hinf (by intro _ _ _ _ _ h; cases h)⟩
  | closeExit n => exact ⟨hreg, hinf (by intro _ _ _ _ _ h; cases h)⟩
  | record n dur => exact ⟨hreg, hinf (by intro _ _ _ _ _ h; cases h)⟩
  | fire t => exact ⟨hreg, hinf (by intro _ _ _ _ _ h; cases h)⟩
  | timerCS t => exact ⟨hreg, hinf (by intro _ _ _ _ _ h; cases h)⟩

theorem ctx_run (s0 s : St) (ms0 : C05cSt) (es : List Ev) (ha : AllRec s0) (hc : Cur s0) (hi : I1 s0)
    (hl : CtxLink s0 ms0) (hr : model.run s0 es = some s) :
    ∃ ms, monC05c.run ms0 (es.filterMap model.obs) = some ms ∧ CtxLink s ms := by
  induction es generalizing s0 ms0 with
  | nil => simp [OLTS.run] at hr; subst hr; exact ⟨ms0, rfl, hl⟩
  | cons e es ih =>
    simp only [OLTS.run] at hr
    cases hst : model.step s0 e with
    | none => simp [hst] at hr
    | some s1 =>
      simp [hst] at hr
      have ha1 := (step_ok s0 s1 e ha hst).1
      have hc1 := step_cur s0 s1 e hc ha hst
      have hi1 := i1_step hi (step_mono s0 s1 e ha hst)
      have hstep := ctx_step s0 s1 e ms0 hl ha hc hi hst
      cases hob : Ev.obs e with
      | none =>
        rw [hob] at hstep
        obtain ⟨ms, h1, h2⟩ := ih s1 ms0 ha1 hc1 hi1 hstep hr
        refine ⟨ms, ?_, h2⟩
        have : model.obs e = none := hob
        simpa [List.filterMap_cons, this] using h1
      | some o =>
        rw [hob] at hstep
        obtain ⟨ms1, hm1, hl1⟩ := hstep
        obtain ⟨ms, h1, h2⟩ := ih s1 ms1 ha1 hc1 hi1 hl1 hr
        refine ⟨ms, ?_, h2⟩
        have : model.obs e = some o := hob
        simp [List.filterMap_cons, this, ObsMonitor.run, hm1, h1]

end UtilModel.Routine
