import UtilModel.Routine.Monitors
/-!
# routine: monitor C05 is the conjunction of its clause monitors

`monC05` (the monitor the driver evaluates) accepts a history whenever the clause monitors `monC05a` (superseded
instances), `monC05l` (lineage at probes and at quiescence, uniqueness at quiescence) and `monC05g` (stored state
at quiescence) accept it: the clause monitors keep the same bookkeeping, each with the fields its clause needs.
-/
namespace UtilModel.Routine
open UtilModel

structure AsmRel (m : C05St) (a : C05aSt) (l : C05lSt) (g : C05gSt) : Prop where
  cfgL : m.cfg = l.cfg
  cfgG : m.cfg = g.cfg
  run : m.running = a.running
  infL : m.info = l.info
  infG : m.info = g.info
  snaps : m.snaps = a.snaps
  doomed : m.doomed = a.doomed
  clears : m.clears = a.clears
  croots : m.croots = l.croots
  ctxR : m.ctxR = l.ctxR
  fnR : m.fnR = l.fnR
  svR : m.svR = l.svR
  got : m.gotState = g.gotState
  spend : m.spend = g.spend
  sepoch : m.sepoch = g.sepoch
  gsAt : m.gsAt = g.gsAt

theorem asmRel_init : AsmRel {} {} {} {} := ⟨rfl, rfl, rfl, rfl, rfl, rfl, rfl, rfl, rfl, rfl, rfl, rfl, rfl, rfl, rfl, rfl⟩

theorem isClearCtx_eq (c : Nat) (b : Bool) : (Op.setContext c b).isClearCtx = (c == 0) := by
  cases c <;> simp [Op.isClearCtx]

/-- the "doomed" update at a return is the same in `monC05` and `monC05a` -/
theorem asmRel_doom (X : C05St) (a : C05aSt) (l : C05lSt) (g : C05gSt) (a0 : Nat) (r : Res) (h : AsmRel X a l g) :
    AsmRel (if doomsRet (X.clears.contains a0) r = true then { X with doomed := lookupSnap X.snaps a0 ++ X.doomed } else X)
      (if doomsRet (a.clears.contains a0) r = true then { a with doomed := lookupSnap a.snaps a0 ++ a.doomed } else a)
      l g := by
  obtain ⟨h1, h2, h3, h4, h5, h6, h7, h8, h9, h10, h11, h12, h13, h14, h15, h16⟩ := h
  have hcc : X.clears.contains a0 = a.clears.contains a0 := by rw [h8]
  rw [hcc]
  split
  · exact ⟨h1, h2, h3, h4, h5, h6, by simp only [h6, h7], h8, h9, h10, h11, h12, h13, h14, h15, h16⟩
  · exact ⟨h1, h2, h3, h4, h5, h6, h7, h8, h9, h10, h11, h12, h13, h14, h15, h16⟩

theorem ite_some {α : Type} {c : Bool} {x y : α} (h : (if c = true then some x else none) = some y) :
    c = true ∧ x = y := by
  cases c with
  | true => simpa using h
  | false => simp at h

theorem ite_none_some' {α : Type} {c : Bool} {x y : α} (h : (if c = true then none else some x) = some y) :
    c = false ∧ x = y := by
  cases c with
  | true => simp at h
  | false => simpa using h

theorem asm_step (m : C05St) (a a' : C05aSt) (l l' : C05lSt) (g g' : C05gSt) (o : Obs) (h : AsmRel m a l g)
    (ha : monC05a.step a o = some a') (hl : monC05l.step l o = some l') (hg : monC05g.step g o = some g') :
    ∃ m', monC05.step m o = some m' ∧ AsmRel m' a' l' g' := by
  obtain ⟨h1, h2, h3, h4, h5, h6, h7, h8, h9, h10, h11, h12, h13, h14, h15, h16⟩ := h
  cases o with
  | cfg c =>
    simp only [monC05a, monC05l, monC05g, monReg, Option.some.injEq] at ha hl hg
    simp only [if_true, Option.some.injEq] at hl
    subst ha; subst hl; subst hg
    exact ⟨_, rfl, ⟨rfl, rfl, h3, h4, h5, h6, h7, h8, h9, h10, h11, h12, h13, h14, h15, h16⟩⟩
  | cbin k f arg root =>
    simp only [monC05a, monC05l, monC05g, monReg, Option.some.injEq] at ha hl hg
    simp only [if_true, Option.some.injEq] at hl
    subst ha; subst hl; subst hg
    exact ⟨_, rfl, ⟨h1, h2, by simp [h3], by simp [h4], by simp [h5], h6, h7, h8, h9, h10, h11, h12, h13, h14, h15, h16⟩⟩
  | cbout k e =>
    simp only [monC05a, monC05l, monC05g, monReg, Option.some.injEq] at ha hl hg
    simp only [if_true, Option.some.injEq] at hl
    subst ha; subst hl; subst hg
    exact ⟨_, rfl, ⟨h1, h2, by simp [h3], h4, h5, h6, h7, h8, h9, h10, h11, h12, h13, h14, h15, h16⟩⟩
  | envCancel c =>
    simp only [monC05a, monC05l, monC05g, monReg, Option.some.injEq] at ha hl hg
    simp only [if_true, Option.some.injEq] at hl
    subst ha; subst hl; subst hg
    exact ⟨_, rfl, ⟨h1, h2, h3, h4, h5, h6, h7, h8, by simp [h9], h10, h11, h12, h13, h14, h15, h16⟩⟩
  | envCancelW c =>
    simp only [monC05a, monC05l, monC05g, monReg, Option.some.injEq] at ha hl hg
    simp only [if_true, Option.some.injEq] at hl
    subst ha; subst hl; subst hg
    exact ⟨_, rfl, ⟨h1, h2, h3, h4, h5, h6, h7, h8, h9, h10, h11, h12, h13, h14, h15, h16⟩⟩
  | envErr c e0 =>
    simp only [monC05a, monC05l, monC05g, monReg, Option.some.injEq] at ha hl hg
    simp only [if_true, Option.some.injEq] at hl
    subst ha; subst hl; subst hg
    exact ⟨_, rfl, ⟨h1, h2, h3, h4, h5, h6, h7, h8, h9, h10, h11, h12, h13, h14, h15, h16⟩⟩
  | bo r =>
    simp only [monC05a, monC05l, monC05g, monReg, Option.some.injEq] at ha hl hg
    simp only [if_true, Option.some.injEq] at hl
    subst ha; subst hl; subst hg
    exact ⟨_, rfl, ⟨h1, h2, h3, h4, h5, h6, h7, h8, h9, h10, h11, h12, h13, h14, h15, h16⟩⟩
  | exitcb j e =>
    simp only [monC05a, monC05l, monC05g, monReg, Option.some.injEq] at ha hl hg
    simp only [if_true, Option.some.injEq] at hl
    subst ha; subst hl; subst hg
    exact ⟨_, rfl, ⟨h1, h2, h3, h4, h5, h6, h7, h8, h9, h10, h11, h12, h13, h14, h15, h16⟩⟩
  | probeW b c =>
    simp only [monC05a, monC05l, monC05g, monReg, Option.some.injEq] at ha hl hg
    simp only [if_true, Option.some.injEq] at hl
    subst ha; subst hl; subst hg
    exact ⟨_, rfl, ⟨h1, h2, h3, h4, h5, h6, h7, h8, h9, h10, h11, h12, h13, h14, h15, h16⟩⟩
  | probeCtx k c =>
    cases c with
    | true =>
      simp only [monC05a, monC05l, monC05g, monReg, Option.some.injEq] at ha hl hg
      simp only [if_true, Option.some.injEq] at hl
      subst ha; subst hl; subst hg
      exact ⟨m, by simp [monC05], ⟨h1, h2, h3, h4, h5, h6, h7, h8, h9, h10, h11, h12, h13, h14, h15, h16⟩⟩
    | false =>
      have hd : a.doomed.contains k = false := by
        cases hdc : a.doomed.contains k with
        | false => rfl
        | true => simp [monC05a] at ha; exact absurd (by simpa using hdc) ha.1
      have hd' : ¬ k ∈ a.doomed := by simpa using hd
      have ha' : a' = a := by simp [monC05a] at ha; exact ha.2.symm
      have hg' : g' = g := by simp [monC05g] at hg; exact hg.symm
      subst ha'; subst hg'
      cases hinfo : lookupInfo l.info k with
      | none =>
        simp only [monC05l, monReg, hinfo, if_true, Option.some.injEq] at hl
        subst hl
        refine ⟨m, ?_, ⟨h1, h2, h3, h4, h5, h6, h7, h8, h9, h10, h11, h12, h13, h14, h15, h16⟩⟩
        simp [monC05, h7, hd', h4, hinfo]
      | some p =>
        obtain ⟨f, arg, root⟩ := p
        simp only [monC05l, monReg, hinfo] at hl
        split at hl
        · rename_i hok
          simp only [Option.some.injEq] at hl
          subst hl
          refine ⟨m, ?_, ⟨h1, h2, h3, h4, h5, h6, h7, h8, h9, h10, h11, h12, h13, h14, h15, h16⟩⟩
          simp only [monC05, h7, h4, hinfo, h10, h11, h12, h1]
          simp [hd']
          have hok' : (((¬root = 0 ∧ root ∈ l.ctxR.vals) ∧ ¬f = 0) ∧ f ∈ l.fnR.vals) ∧
              (l.cfg.state = false ∨ ¬arg = 0 ∧ arg ∈ l.svR.vals) := by simpa using hok
          refine ⟨hok'.1, fun hs => ?_⟩
          rcases hok'.2 with h0 | h0
          · rw [hs] at h0; cases h0
          · exact h0
        · cases hl
  | quiesce p r live =>
    have ha' : a' = a := by simp [monC05a] at ha; exact ha.symm
    subst ha'
    cases live with
    | nil =>
      simp only [monC05l, monC05g, monReg, if_true, Option.some.injEq] at hl hg
      subst hl; subst hg
      exact ⟨m, by simp [monC05], ⟨h1, h2, h3, h4, h5, h6, h7, h8, h9, h10, h11, h12, h13, h14, h15, h16⟩⟩
    | cons k t =>
      cases t with
      | cons k2 t2 => simp [monC05l] at hl
      | nil =>
        cases hinfo : lookupInfo l.info k with
        | none => simp [monC05l, hinfo] at hl
        | some q =>
          obtain ⟨f, arg, root⟩ := q
          have hinfoG : lookupInfo g.info k = some (f, arg, root) := by rw [← h5, h4]; exact hinfo
          simp only [monC05l, monReg, hinfo] at hl
          simp only [monC05g, hinfoG] at hg
          split at hl
          · rename_i hokL
            obtain ⟨hokG, hgg⟩ := ite_some hg
            · simp only [Option.some.injEq] at hl
              subst hl; subst hgg
              refine ⟨m, ?_, ⟨h1, h2, h3, h4, h5, h6, h7, h8, h9, h10, h11, h12, h13, h14, h15, h16⟩⟩
              simp only [monC05, h4, hinfo, h10, h11, h12, h1, h9, h13]
              rw [← h2, h1] at hokG
              have hL : (((((¬root = 0 ∧ root ∈ l.ctxR.vals) ∧ ¬root ∈ l.croots) ∧ ¬f = 0) ∧ f ∈ l.fnR.vals) ∧
                  (l.cfg.state = false ∨ ¬arg = 0)) := by simpa using hokL
              cases hgs : g.gotState with
              | none =>
                simp only [hgs]
                simp [hL.1.1.1.1.1, hL.1.1.1.1.2, hL.1.1.1.2, hL.1.1.2, hL.1.2]
                intro hs
                rcases hL.2 with h0 | h0
                · rw [hs] at h0; cases h0
                · exact h0
              | some v =>
                simp only [hgs] at hokG ⊢
                have hG : l.cfg.state = false ∨ v = arg := by simpa using hokG
                simp [hL.1.1.1.1.1, hL.1.1.1.1.2, hL.1.1.1.2, hL.1.1.2, hL.1.2]
                intro hs
                rcases hL.2 with h0 | h0
                · rw [hs] at h0; cases h0
                · refine ⟨h0, ?_⟩
                  rcases hG with g0 | g0
                  · rw [hs] at g0; cases g0
                  · exact g0
          · cases hl
  | inv a0 op =>
    cases op with
    | swap ko =>
      cases ko <;>
      · simp only [monC05a, monC05l, monC05g, monReg, ctxSpec, fnSpec, svSpec, Op.isChanger, Op.isClearCtx,
          if_true, Option.some.injEq, Bool.false_eq_true, if_false] at ha hl hg
        subst ha; subst hl; subst hg
        exact ⟨_, rfl, ⟨h1, h2, h3, h4, h5, (by simp only [h6, h3]), h7, h8, h9, (by first | exact h10 | simp only [h10]), (by first | exact h11 | simp only [h11]), (by first | exact h12 | simp only [h12]),
          (by first | exact h13 | rfl), (by first | exact h14 | simp only [h14]), (by first | exact h15 | simp only [h15]), (by first | exact h16 | simp only [h16, h15])⟩⟩
    | setContext c b =>
      simp only [monC05a, monC05l, monC05g, monReg, ctxSpec, fnSpec, svSpec, Op.isChanger,
        if_true, Option.some.injEq, Bool.false_eq_true, if_false] at ha hl hg
      subst ha; subst hl; subst hg
      exact ⟨_, rfl, ⟨h1, h2, h3, h4, h5, (by simp only [h6, h3]), h7, by simp [h8, isClearCtx_eq], h9, (by first | exact h10 | simp only [h10]),
        (by first | exact h11 | simp only [h11]), (by first | exact h12 | simp only [h12]), (by first | exact h13 | rfl), (by first | exact h14 | simp only [h14]), (by first | exact h15 | simp only [h15]), (by first | exact h16 | simp only [h16, h15])⟩⟩
    | _ =>
      simp only [monC05a, monC05l, monC05g, monReg, ctxSpec, fnSpec, svSpec, Op.isChanger, Op.isClearCtx,
        if_true, Option.some.injEq, Bool.false_eq_true, if_false] at ha hl hg
      subst ha; subst hl; subst hg
      exact ⟨_, rfl, ⟨h1, h2, h3, h4, h5, (by simp only [h6, h3]), h7, h8, h9, (by first | exact h10 | simp only [h10]), (by first | exact h11 | simp only [h11]), (by first | exact h12 | simp only [h12]),
        (by first | exact h13 | rfl), (by first | exact h14 | simp only [h14]), (by first | exact h15 | simp only [h15]), (by first | exact h16 | simp only [h16, h15])⟩⟩
  | ret a0 r =>
    simp only [monC05a, Option.some.injEq] at ha
    subst ha
    cases r with
    | bool b =>
      simp only [monC05l, monC05g, monReg, ctxSpec, fnSpec, svSpec, if_true, Option.some.injEq] at hl hg
      subst hl; subst hg
      refine ⟨_, rfl, asmRel_doom _ _ _ _ a0 _ ?_⟩
      exact ⟨h1, h2, h3, h4, h5, h6, h7, h8, h9, by simp only [h10], by simp only [h11], by simp only [h12],
        h13, h14, h15, h16⟩
    | setR x1 x2 =>
      simp only [monC05l, monC05g, monReg, ctxSpec, fnSpec, svSpec, if_true, Option.some.injEq] at hl hg
      subst hl; subst hg
      refine ⟨_, rfl, asmRel_doom _ _ _ _ a0 _ ?_⟩
      exact ⟨h1, h2, h3, h4, h5, h6, h7, h8, h9, by simp only [h10], by simp only [h11], by simp only [h12],
        h13, h14, h15, h16⟩
    | setSR x1 x2 x3 =>
      simp only [monC05l, monC05g, monReg, ctxSpec, fnSpec, svSpec, if_true, Option.some.injEq] at hl hg
      subst hl; subst hg
      refine ⟨_, rfl, asmRel_doom _ _ _ _ a0 _ ?_⟩
      exact ⟨h1, h2, h3, h4, h5, h6, h7, h8, h9, by simp only [h10], by simp only [h11], by simp only [h12],
        h13, h14, h15, h16⟩
    | wx x1 =>
      simp only [monC05l, monC05g, monReg, ctxSpec, fnSpec, svSpec, if_true, Option.some.injEq] at hl hg
      subst hl; subst hg
      refine ⟨_, rfl, asmRel_doom _ _ _ _ a0 _ ?_⟩
      exact ⟨h1, h2, h3, h4, h5, h6, h7, h8, h9, by simp only [h10], by simp only [h11], by simp only [h12],
        h13, h14, h15, h16⟩
    | setS x1 x2 x3 x4 =>
      simp only [monC05l, monC05g, monReg, ctxSpec, fnSpec, svSpec, if_true, Option.some.injEq] at hl hg
      subst hl; subst hg
      refine ⟨_, rfl, asmRel_doom _ _ _ _ a0 _ ?_⟩
      exact ⟨h1, h2, h3, h4, h5, h6, h7, h8, h9, by simp only [h10], by simp only [h11], by simp only [h12],
        rfl, by simp only [h14], by simp only [h15], h16⟩
    | swapR x1 x2 x3 x4 x5 =>
      simp only [monC05l, monC05g, monReg, ctxSpec, fnSpec, svSpec, if_true, Option.some.injEq] at hl hg
      subst hl; subst hg
      refine ⟨_, rfl, asmRel_doom _ _ _ _ a0 _ ?_⟩
      exact ⟨h1, h2, h3, h4, h5, h6, h7, h8, h9, by simp only [h10], by simp only [h11], by simp only [h12],
        rfl, by simp only [h14], by simp only [h15], h16⟩
    | state v =>
      simp only [monC05l, monC05g, monReg, ctxSpec, fnSpec, svSpec, if_true, Option.some.injEq] at hl hg
      subst hl; subst hg
      refine ⟨_, rfl, asmRel_doom _ _ _ _ a0 _ ?_⟩
      exact ⟨h1, h2, h3, h4, h5, h6, h7, h8, h9, by simp only [h10], by simp only [h11], by simp only [h12],
        by simp only [h14, h15, h16], h14, h15, h16⟩

/-- **monitor C05 accepts whatever its three clause monitors accept** -/
theorem asm_run (tr : List Obs) (m : C05St) (a : C05aSt) (l : C05lSt) (g : C05gSt) (h : AsmRel m a l g)
    (ha : (monC05a.run a tr).isSome = true) (hl : (monC05l.run l tr).isSome = true)
    (hg : (monC05g.run g tr).isSome = true) : (monC05.run m tr).isSome = true := by
  induction tr generalizing m a l g with
  | nil => rfl
  | cons o os ih =>
    simp only [ObsMonitor.run] at ha hl hg ⊢
    cases h1 : monC05a.step a o with
    | none => simp [h1] at ha
    | some a' =>
      cases h2 : monC05l.step l o with
      | none => simp [h2] at hl
      | some l' =>
        cases h3 : monC05g.step g o with
        | none => simp [h3] at hg
        | some g' =>
          obtain ⟨m', hm, hrel⟩ := asm_step m a a' l l' g g' o h h1 h2 h3
          rw [h1] at ha; rw [h2] at hl; rw [h3] at hg
          simp only [Option.bind_some] at ha hl hg
          rw [hm]; simp only [Option.bind_some]
          exact ih m' a' l' g' hrel ha hl hg

theorem monC05_of_clauses (tr : List Obs) (ha : monC05a.accepts tr = true) (hl : monC05l.accepts tr = true)
    (hg : monC05g.accepts tr = true) : monC05.accepts tr = true :=
  asm_run tr {} {} {} {} asmRel_init ha hl hg

/-! ## monitor C14h is the conjunction of its clause monitors -/

/-- the register steps never fail -/
theorem monReg_some (sp : RegSpec) (reg : Reg) (o : Obs) : ∃ r, (monReg sp).step reg o = some r := by
  cases o with
  | inv a op =>
    simp only [monReg]
    cases sp.isW op with
    | none => exact ⟨_, rfl⟩
    | some v => exact ⟨_, rfl⟩
  | _ => exact ⟨_, rfl⟩

theorem find_map_fst (l : List (Nat × Nat × Nat × Nat)) (k : Nat) :
    (l.map (fun q => (q.1, q.2.1))).find? (·.1 == k) = (l.find? (·.1 == k)).map (fun q => (q.1, q.2.1)) := by
  induction l with
  | nil => rfl
  | cons q l ih =>
    simp only [List.map_cons, List.find?_cons]
    cases h : (q.1 == k) <;> simp [h, ih]

/-- the replaced-record clause of C14h is the function part of the lineage clause of C05 -/
theorem c14hf_step (l l' : C05lSt) (h : C14hfSt) (o : Obs) (hf : h.fnR = l.fnR)
    (hi : h.fns = l.info.map (fun q => (q.1, q.2.1))) (hl : monC05l.step l o = some l') :
    ∃ h', monC14hf.step h o = some h' ∧ h'.fnR = l'.fnR ∧ h'.fns = l'.info.map (fun q => (q.1, q.2.1)) := by
  obtain ⟨rc, hrc⟩ := monReg_some ctxSpec l.ctxR o
  obtain ⟨rf, hrf⟩ := monReg_some fnSpec l.fnR o
  obtain ⟨rv, hrv⟩ := monReg_some svSpec l.svR o
  simp only [monC05l, hrc, hrf, hrv] at hl
  obtain ⟨hok, hl'⟩ := ite_some hl
  subst hl'
  refine ⟨{ fns := (match o with
                    | .cbin k f _ _ => (k, f) :: h.fns
                    | _ => h.fns), fnR := rf }, ?_, rfl, ?_⟩
  · rw [← hf] at hrf
    cases o with
    | probeCtx k b =>
      cases b with
      | true => simp only [monC14hf, hrf]; rfl
      | false =>
        dsimp only at hok
        simp only [lookupInfo] at hok
        simp only [monC14hf, hrf]
        rw [hi, find_map_fst]
        cases hfind : l.info.find? (·.1 == k) with
        | none => rfl
        | some q =>
          obtain ⟨k0, f, arg, root⟩ := q
          simp only [hfind, Option.map_some, Bool.and_eq_true] at hok
          simp only [Option.map_some, hf, hok.1.2, if_true]
    | cfg c => simp only [monC14hf, hrf]; rfl
    | inv a op => simp only [monC14hf, hrf]; rfl
    | ret a r => simp only [monC14hf, hrf]; rfl
    | cbin k f arg root => simp only [monC14hf, hrf]; rfl
    | cbout k e => simp only [monC14hf, hrf]; rfl
    | envCancel c => simp only [monC14hf, hrf]; rfl
    | envCancelW a => simp only [monC14hf, hrf]; rfl
    | envErr a e => simp only [monC14hf, hrf]; rfl
    | bo r => simp only [monC14hf, hrf]; rfl
    | exitcb j e => simp only [monC14hf, hrf]; rfl
    | probeW a b => simp only [monC14hf, hrf]; rfl
    | quiesce p r l0 => simp only [monC14hf, hrf]; rfl
  · cases o <;> simp [hi]

theorem c14hf_run (tr : List Obs) (l : C05lSt) (h : C14hfSt) (hf : h.fnR = l.fnR)
    (hi : h.fns = l.info.map (fun q => (q.1, q.2.1))) (hl : (monC05l.run l tr).isSome = true) :
    (monC14hf.run h tr).isSome = true := by
  induction tr generalizing l h with
  | nil => rfl
  | cons o os ih =>
    simp only [ObsMonitor.run] at hl ⊢
    cases h1 : monC05l.step l o with
    | none => simp [h1] at hl
    | some l' =>
      obtain ⟨h', hm, hf', hi'⟩ := c14hf_step l l' h o hf hi h1
      rw [h1] at hl
      simp only [Option.bind_some] at hl
      rw [hm]; simp only [Option.bind_some]
      exact ih l' h' hf' hi' hl

theorem monC14hf_of_C05l (tr : List Obs) (hl : monC05l.accepts tr = true) : monC14hf.accepts tr = true :=
  c14hf_run tr {} {} rfl rfl hl

structure AsmRelH (m : C14hSt) (b : C14hbSt) (f : C14hfSt) : Prop where
  run : m.running = b.running
  pm : m.pendMut = b.pendMut
  cr : m.croots = b.croots
  rt : m.roots = b.roots
  sl : m.seenLive = b.seenLive
  mv : m.moved = b.moved
  ex : m.expectRun = b.expectRun
  fns : m.fns = f.fns
  fnR : m.fnR = f.fnR

theorem asmH_step (m : C14hSt) (b b' : C14hbSt) (f f' : C14hfSt) (o : Obs) (h : AsmRelH m b f)
    (hb : monC14hb.step b o = some b') (hf : monC14hf.step f o = some f') :
    ∃ m', monC14h.step m o = some m' ∧ AsmRelH m' b' f' := by
  obtain ⟨h1, h2, h3, h4, h5, h6, h7, h8, h9⟩ := h
  obtain ⟨rf, hrf⟩ := monReg_some fnSpec f.fnR o
  simp only [monC14hf, hrf] at hf
  obtain ⟨hok, hf'⟩ := ite_some hf
  subst hf'
  cases o with
  | cbin k fn arg root =>
    simp only [monC14hb, Option.some.injEq] at hb; subst hb
    simp only [monReg, Option.some.injEq] at hrf; subst hrf
    exact ⟨_, rfl, ⟨by simp [h1, h2], h2, h3, by simp [h4], h5, h6, rfl, by simp [h8], h9⟩⟩
  | cbout k e =>
    simp only [monC14hb, Option.some.injEq] at hb; subst hb
    simp only [monReg, Option.some.injEq] at hrf; subst hrf
    exact ⟨_, rfl, ⟨by simp [h1], h2, h3, h4, h5, h6, h7, h8, h9⟩⟩
  | envCancel c =>
    simp only [monC14hb, Option.some.injEq] at hb; subst hb
    simp only [monReg, Option.some.injEq] at hrf; subst hrf
    exact ⟨_, rfl, ⟨h1, h2, by simp [h3], h4, h5, rfl, rfl, h8, h9⟩⟩
  | probeCtx k c =>
    simp only [monReg, Option.some.injEq] at hrf; subst hrf
    cases c with
    | false =>
      simp only [monC14hb, Option.some.injEq] at hb; subst hb
      dsimp only at hok
      rw [← h8, ← h9] at hok
      simp only [monC14h]
      cases hfind : m.fns.find? (·.1 == k) with
      | none => exact ⟨_, rfl, ⟨h1, h2, h3, h4, by simp [h5], h6, h7, h8, h9⟩⟩
      | some p =>
        simp only [hfind] at hok
        simp only [hok, if_true]
        exact ⟨_, rfl, ⟨h1, h2, h3, h4, by simp [h5], h6, h7, h8, h9⟩⟩
    | true =>
      simp only [monC14hb] at hb
      obtain ⟨hh, hb'⟩ := ite_none_some' hb
      subst hb'
      refine ⟨{ m with running := m.running.map fun p => if p.1 == k then (p.1, true) else p }, ?_,
        ⟨by simp [h1], h2, h3, h4, h5, h6, h7, h8, h9⟩⟩
      simp only [monC14h, h1, h5, h4, h3]
      rw [hh]; rfl
  | inv a op =>
    simp only [monC14hb] at hb
    cases hq : op.quiet with
    | true =>
      simp only [hq, if_true, Option.some.injEq] at hb; subst hb
      have : rf = f.fnR := by
        cases op <;> simp [Op.quiet] at hq <;> simp [monReg, fnSpec] at hrf <;> exact hrf.symm
      subst this
      exact ⟨m, by simp [monC14h, hq], ⟨h1, h2, h3, h4, h5, h6, h7, h8, h9⟩⟩
    | false =>
      simp only [hq, Bool.false_eq_true, if_false, Option.some.injEq] at hb; subst hb
      cases op with
      | setRoutine fn =>
        simp only [monReg, fnSpec, Option.some.injEq] at hrf; subst hrf
        refine ⟨{ m with running := m.running.map (fun p => (p.1, true)), pendMut := a :: m.pendMut, expectRun := false, moved := movedOf m.running m.croots m.seenLive m.pendMut a (.setRoutine fn), fnR := m.fnR.inv (a + 1) fn }, ?_, ?_⟩
        · simp only [monC14h, hq, Bool.false_eq_true, if_false]
        · exact ⟨by simp [h1], by simp [h2], h3, h4, h5, by simp [h1, h3, h5, h2], rfl, h8, by simp [h9]⟩
      | setStateRoutine fn =>
        simp only [monReg, fnSpec, Option.some.injEq] at hrf; subst hrf
        refine ⟨{ m with running := m.running.map (fun p => (p.1, true)), pendMut := a :: m.pendMut, expectRun := false, moved := movedOf m.running m.croots m.seenLive m.pendMut a (.setStateRoutine fn), fnR := m.fnR.inv (a + 1) fn }, ?_, ?_⟩
        · simp only [monC14h, hq, Bool.false_eq_true, if_false]
        · exact ⟨by simp [h1], by simp [h2], h3, h4, h5, by simp [h1, h3, h5, h2], rfl, h8, by simp [h9]⟩
      | setContext c r =>
        simp only [monReg, fnSpec, Option.some.injEq] at hrf; subst hrf
        refine ⟨{ m with running := m.running.map (fun p => (p.1, true)), pendMut := a :: m.pendMut, expectRun := false, moved := movedOf m.running m.croots m.seenLive m.pendMut a (.setContext c r), fnR := m.fnR }, ?_, ?_⟩
        · simp only [monC14h, hq, Bool.false_eq_true, if_false]
        · exact ⟨by simp [h1], by simp [h2], h3, h4, h5, by simp [h1, h3, h5, h2], rfl, h8, by simp [h9]⟩
      | restart =>
        simp only [monReg, fnSpec, Option.some.injEq] at hrf; subst hrf
        refine ⟨{ m with running := m.running.map (fun p => (p.1, true)), pendMut := a :: m.pendMut, expectRun := false, moved := movedOf m.running m.croots m.seenLive m.pendMut a (.restart), fnR := m.fnR }, ?_, ?_⟩
        · simp only [monC14h, hq, Bool.false_eq_true, if_false]
        · exact ⟨by simp [h1], by simp [h2], h3, h4, h5, by simp [h1, h3, h5, h2], rfl, h8, by simp [h9]⟩
      | setState v =>
        simp only [monReg, fnSpec, Option.some.injEq] at hrf; subst hrf
        refine ⟨{ m with running := m.running.map (fun p => (p.1, true)), pendMut := a :: m.pendMut, expectRun := false, moved := movedOf m.running m.croots m.seenLive m.pendMut a (.setState v), fnR := m.fnR }, ?_, ?_⟩
        · simp only [monC14h, hq, Bool.false_eq_true, if_false]
        · exact ⟨by simp [h1], by simp [h2], h3, h4, h5, by simp [h1, h3, h5, h2], rfl, h8, by simp [h9]⟩
      | swap kk =>
        simp only [monReg, fnSpec, Option.some.injEq] at hrf; subst hrf
        refine ⟨{ m with running := m.running.map (fun p => (p.1, true)), pendMut := a :: m.pendMut, expectRun := false, moved := movedOf m.running m.croots m.seenLive m.pendMut a (.swap kk), fnR := m.fnR }, ?_, ?_⟩
        · simp only [monC14h, hq, Bool.false_eq_true, if_false]
        · exact ⟨by simp [h1], by simp [h2], h3, h4, h5, by simp [h1, h3, h5, h2], rfl, h8, by simp [h9]⟩
      | getState => simp [Op.quiet] at hq
      | waitExited bb => simp [Op.quiet] at hq
  | ret a r =>
    simp only [monC14hb, Option.some.injEq] at hb; subst hb
    simp only [monReg, fnSpec, Option.some.injEq] at hrf; subst hrf
    exact ⟨_, rfl, ⟨h1, by simp [h2], h3, h4, h5, h6, by simp [h7, h6, h1, h2], h8, by simp [h9]⟩⟩
  | quiesce p r l =>
    simp only [monReg, Option.some.injEq] at hrf; subst hrf
    simp only [monC14hb] at hb
    obtain ⟨hh, hb'⟩ := ite_none_some' hb
    subst hb'
    refine ⟨m, ?_, ⟨h1, h2, h3, h4, h5, h6, h7, h8, h9⟩⟩
    simp only [monC14h, h7]
    rw [hh]; rfl
  | cfg c =>
    simp only [monC14hb, Option.some.injEq] at hb; subst hb
    simp only [monReg, Option.some.injEq] at hrf; subst hrf
    exact ⟨m, rfl, ⟨h1, h2, h3, h4, h5, h6, h7, h8, h9⟩⟩
  | envCancelW c =>
    simp only [monC14hb, Option.some.injEq] at hb; subst hb
    simp only [monReg, Option.some.injEq] at hrf; subst hrf
    exact ⟨m, rfl, ⟨h1, h2, h3, h4, h5, h6, h7, h8, h9⟩⟩
  | envErr c e =>
    simp only [monC14hb, Option.some.injEq] at hb; subst hb
    simp only [monReg, Option.some.injEq] at hrf; subst hrf
    exact ⟨m, rfl, ⟨h1, h2, h3, h4, h5, h6, h7, h8, h9⟩⟩
  | bo r =>
    simp only [monC14hb, Option.some.injEq] at hb; subst hb
    simp only [monReg, Option.some.injEq] at hrf; subst hrf
    exact ⟨m, rfl, ⟨h1, h2, h3, h4, h5, h6, h7, h8, h9⟩⟩
  | exitcb j e =>
    simp only [monC14hb, Option.some.injEq] at hb; subst hb
    simp only [monReg, Option.some.injEq] at hrf; subst hrf
    exact ⟨m, rfl, ⟨h1, h2, h3, h4, h5, h6, h7, h8, h9⟩⟩
  | probeW c d =>
    simp only [monC14hb, Option.some.injEq] at hb; subst hb
    simp only [monReg, Option.some.injEq] at hrf; subst hrf
    exact ⟨m, rfl, ⟨h1, h2, h3, h4, h5, h6, h7, h8, h9⟩⟩

theorem asmH_run (tr : List Obs) (m : C14hSt) (b : C14hbSt) (f : C14hfSt) (h : AsmRelH m b f)
    (hb : (monC14hb.run b tr).isSome = true) (hf : (monC14hf.run f tr).isSome = true) :
    (monC14h.run m tr).isSome = true := by
  induction tr generalizing m b f with
  | nil => rfl
  | cons o os ih =>
    simp only [ObsMonitor.run] at hb hf ⊢
    cases h1 : monC14hb.step b o with
    | none => simp [h1] at hb
    | some b' =>
      cases h2 : monC14hf.step f o with
      | none => simp [h2] at hf
      | some f' =>
        obtain ⟨m', hm, hrel⟩ := asmH_step m b b' f f' o h h1 h2
        rw [h1] at hb; rw [h2] at hf
        simp only [Option.bind_some] at hb hf
        rw [hm]; simp only [Option.bind_some]
        exact ih m' b' f' hrel hb hf

/-- **monitor C14h accepts whatever its clause monitors accept** -/
theorem monC14h_of_clauses (tr : List Obs) (hb : monC14hb.accepts tr = true) (hf : monC14hf.accepts tr = true) :
    monC14h.accepts tr = true :=
  asmH_run tr {} {} {} ⟨rfl, rfl, rfl, rfl, rfl, rfl, rfl, rfl, rfl⟩ hb hf

end UtilModel.Routine
