import UtilModel.Routine.Monitors
/-!
# routine: monitor C05 is the conjunction of its clause monitors

`monC05` (the monitor the driver evaluates) accepts a history whenever the clause monitors `monC05a` (superseded
instances), `monC05l` (lineage at probes and at quiescence, uniqueness at quiescence) and `monC05g` (stored state
at quiescence) accept it: the clause monitors keep the same bookkeeping, each with the fields its clause needs.
-/
namespace UtilModel.Routine
open UtilModel

structure AsmRel (m : C05St) (a : C05aSt) (l : C05lSt) (g : C05gSt) : Prop where
  cfgL : m.cfg = l.cfg
  cfgG : m.cfg = g.cfg
  run : m.running = a.running
  infL : m.info = l.info
  infG : m.info = g.info
  snaps : m.snaps = a.snaps
  doomed : m.doomed = a.doomed
  clears : m.clears = a.clears
  croots : m.croots = l.croots
  ctxR : m.ctxR = l.ctxR
  fnR : m.fnR = l.fnR
  svR : m.svR = l.svR
  got : m.gotState = g.gotState
  spend : m.spend = g.spend
  sepoch : m.sepoch = g.sepoch
  gsAt : m.gsAt = g.gsAt

theorem asmRel_init : AsmRel {} {} {} {} := ⟨rfl, rfl, rfl, rfl, rfl, rfl, rfl, rfl, rfl, rfl, rfl, rfl, rfl, rfl, rfl, rfl⟩

theorem isClearCtx_eq (c : Nat) (b : Bool) : (Op.setContext c b).isClearCtx = (c == 0) := by
  cases c <;> simp [Op.isClearCtx]

/-- the "doomed" update at a return is the same in `monC05` and `monC05a` -/
theorem asmRel_doom (X : C05St) (a : C05aSt) (l : C05lSt) (g : C05gSt) (a0 : Nat) (r : Res) (h : AsmRel X a l g) :
    AsmRel (if doomsRet (X.clears.contains a0) r = true then { X with doomed := lookupSnap X.snaps a0 ++ X.doomed } else X)
      (if doomsRet (a.clears.contains a0) r = true then { a with doomed := lookupSnap a.snaps a0 ++ a.doomed } else a)
      l g := by
  obtain ⟨h1, h2, h3, h4, h5, h6, h7, h8, h9, h10, h11, h12, h13, h14, h15, h16⟩ := h
  have hcc : X.clears.contains a0 = a.clears.contains a0 := by rw [h8]
  rw [hcc]
  split
  · exact ⟨h1, h2, h3, h4, h5, h6, by simp only [h6, h7], h8, h9, h10, h11, h12, h13, h14, h15, h16⟩
  · exact ⟨h1, h2, h3, h4, h5, h6, h7, h8, h9, h10, h11, h12, h13, h14, h15, h16⟩

theorem ite_some {α : Type} {c : Bool} {x y : α} (h : (if c = true then some x else none) = some y) :
    c = true ∧ x = y := by
  cases c with
  | true => simpa using h
  | false => simp at h

theorem asm_step (m : C05St) (a a' : C05aSt) (l l' : C05lSt) (g g' : C05gSt) (o : Obs) (h : AsmRel m a l g)
    (ha : monC05a.step a o = some a') (hl : monC05l.step l o = some l') (hg : monC05g.step g o = some g') :
    ∃ m', monC05.step m o = some m' ∧ AsmRel m' a' l' g' := by
  obtain ⟨h1, h2, h3, h4, h5, h6, h7, h8, h9, h10, h11, h12, h13, h14, h15, h16⟩ := h
  cases o with
  | cfg c =>
    simp only [monC05a, monC05l, monC05g, monReg, Option.some.injEq] at ha hl hg
    simp only [if_true, Option.some.injEq] at hl
    subst ha; subst hl; subst hg
    exact ⟨_, rfl, ⟨rfl, rfl, h3, h4, h5, h6, h7, h8, h9, h10, h11, h12, h13, h14, h15, h16⟩⟩
  | cbin k f arg root =>
    simp only [monC05a, monC05l, monC05g, monReg, Option.some.injEq] at ha hl hg
    simp only [if_true, Option.some.injEq] at hl
    subst ha; subst hl; subst hg
    exact ⟨_, rfl, ⟨h1, h2, by simp [h3], by simp [h4], by simp [h5], h6, h7, h8, h9, h10, h11, h12, h13, h14, h15, h16⟩⟩
  | cbout k e =>
    simp only [monC05a, monC05l, monC05g, monReg, Option.some.injEq] at ha hl hg
    simp only [if_true, Option.some.injEq] at hl
    subst ha; subst hl; subst hg
    exact ⟨_, rfl, ⟨h1, h2, by simp [h3], h4, h5, h6, h7, h8, h9, h10, h11, h12, h13, h14, h15, h16⟩⟩
  | envCancel c =>
    simp only [monC05a, monC05l, monC05g, monReg, Option.some.injEq] at ha hl hg
    simp only [if_true, Option.some.injEq] at hl
    subst ha; subst hl; subst hg
    exact ⟨_, rfl, ⟨h1, h2, h3, h4, h5, h6, h7, h8, by simp [h9], h10, h11, h12, h13, h14, h15, h16⟩⟩
  | envCancelW c =>
    simp only [monC05a, monC05l, monC05g, monReg, Option.some.injEq] at ha hl hg
    simp only [if_true, Option.some.injEq] at hl
    subst ha; subst hl; subst hg
    exact ⟨_, rfl, ⟨h1, h2, h3, h4, h5, h6, h7, h8, h9, h10, h11, h12, h13, h14, h15, h16⟩⟩
  | envErr c e0 =>
    simp only [monC05a, monC05l, monC05g, monReg, Option.some.injEq] at ha hl hg
    simp only [if_true, Option.some.injEq] at hl
    subst ha; subst hl; subst hg
    exact ⟨_, rfl, ⟨h1, h2, h3, h4, h5, h6, h7, h8, h9, h10, h11, h12, h13, h14, h15, h16⟩⟩
  | bo r =>
    simp only [monC05a, monC05l, monC05g, monReg, Option.some.injEq] at ha hl hg
    simp only [if_true, Option.some.injEq] at hl
    subst ha; subst hl; subst hg
    exact ⟨_, rfl, ⟨h1, h2, h3, h4, h5, h6, h7, h8, h9, h10, h11, h12, h13, h14, h15, h16⟩⟩
  | exitcb j e =>
    simp only [monC05a, monC05l, monC05g, monReg, Option.some.injEq] at ha hl hg
    simp only [if_true, Option.some.injEq] at hl
    subst ha; subst hl; subst hg
    exact ⟨_, rfl, ⟨h1, h2, h3, h4, h5, h6, h7, h8, h9, h10, h11, h12, h13, h14, h15, h16⟩⟩
  | probeW b c =>
    simp only [monC05a, monC05l, monC05g, monReg, Option.some.injEq] at ha hl hg
    simp only [if_true, Option.some.injEq] at hl
    subst ha; subst hl; subst hg
    exact ⟨_, rfl, ⟨h1, h2, h3, h4, h5, h6, h7, h8, h9, h10, h11, h12, h13, h14, h15, h16⟩⟩
  | probeCtx k c =>
    cases c with
    | true =>
      simp only [monC05a, monC05l, monC05g, monReg, Option.some.injEq] at ha hl hg
      simp only [if_true, Option.some.injEq] at hl
      subst ha; subst hl; subst hg
      exact ⟨m, by simp [monC05], ⟨h1, h2, h3, h4, h5, h6, h7, h8, h9, h10, h11, h12, h13, h14, h15, h16⟩⟩
    | false =>
      have hd : a.doomed.contains k = false := by
        cases hdc : a.doomed.contains k with
        | false => rfl
        | true => simp [monC05a] at ha; exact absurd (by simpa using hdc) ha.1
      have hd' : ¬ k ∈ a.doomed := by simpa using hd
      have ha' : a' = a := by simp [monC05a] at ha; exact ha.2.symm
      have hg' : g' = g := by simp [monC05g] at hg; exact hg.symm
      subst ha'; subst hg'
      cases hinfo : lookupInfo l.info k with
      | none =>
        simp only [monC05l, monReg, hinfo, if_true, Option.some.injEq] at hl
        subst hl
        refine ⟨m, ?_, ⟨h1, h2, h3, h4, h5, h6, h7, h8, h9, h10, h11, h12, h13, h14, h15, h16⟩⟩
        simp [monC05, h7, hd', h4, hinfo]
      | some p =>
        obtain ⟨f, arg, root⟩ := p
        simp only [monC05l, monReg, hinfo] at hl
        split at hl
        · rename_i hok
          simp only [Option.some.injEq] at hl
          subst hl
          refine ⟨m, ?_, ⟨h1, h2, h3, h4, h5, h6, h7, h8, h9, h10, h11, h12, h13, h14, h15, h16⟩⟩
          simp only [monC05, h7, h4, hinfo, h10, h11, h12, h1]
          simp [hd']
          have hok' : (((¬root = 0 ∧ root ∈ l.ctxR.vals) ∧ ¬f = 0) ∧ f ∈ l.fnR.vals) ∧
              (l.cfg.state = false ∨ ¬arg = 0 ∧ arg ∈ l.svR.vals) := by simpa using hok
          refine ⟨hok'.1, fun hs => ?_⟩
          rcases hok'.2 with h0 | h0
          · rw [hs] at h0; cases h0
          · exact h0
        · cases hl
  | quiesce p r live =>
    have ha' : a' = a := by simp [monC05a] at ha; exact ha.symm
    subst ha'
    cases live with
    | nil =>
      simp only [monC05l, monC05g, monReg, if_true, Option.some.injEq] at hl hg
      subst hl; subst hg
      exact ⟨m, by simp [monC05], ⟨h1, h2, h3, h4, h5, h6, h7, h8, h9, h10, h11, h12, h13, h14, h15, h16⟩⟩
    | cons k t =>
      cases t with
      | cons k2 t2 => simp [monC05l] at hl
      | nil =>
        cases hinfo : lookupInfo l.info k with
        | none => simp [monC05l, hinfo] at hl
        | some q =>
          obtain ⟨f, arg, root⟩ := q
          have hinfoG : lookupInfo g.info k = some (f, arg, root) := by rw [← h5, h4]; exact hinfo
          simp only [monC05l, monReg, hinfo] at hl
          simp only [monC05g, hinfoG] at hg
          split at hl
          · rename_i hokL
            obtain ⟨hokG, hgg⟩ := ite_some hg
            · simp only [Option.some.injEq] at hl
              subst hl; subst hgg
              refine ⟨m, ?_, ⟨h1, h2, h3, h4, h5, h6, h7, h8, h9, h10, h11, h12, h13, h14, h15, h16⟩⟩
              simp only [monC05, h4, hinfo, h10, h11, h12, h1, h9, h13]
              rw [← h2, h1] at hokG
              have hL : (((((¬root = 0 ∧ root ∈ l.ctxR.vals) ∧ ¬root ∈ l.croots) ∧ ¬f = 0) ∧ f ∈ l.fnR.vals) ∧
                  (l.cfg.state = false ∨ ¬arg = 0)) := by simpa using hokL
              cases hgs : g.gotState with
              | none =>
                simp only [hgs]
                simp [hL.1.1.1.1.1, hL.1.1.1.1.2, hL.1.1.1.2, hL.1.1.2, hL.1.2]
                intro hs
                rcases hL.2 with h0 | h0
                · rw [hs] at h0; cases h0
                · exact h0
              | some v =>
                simp only [hgs] at hokG ⊢
                have hG : l.cfg.state = false ∨ v = arg := by simpa using hokG
                simp [hL.1.1.1.1.1, hL.1.1.1.1.2, hL.1.1.1.2, hL.1.1.2, hL.1.2]
                intro hs
                rcases hL.2 with h0 | h0
                · rw [hs] at h0; cases h0
                · refine ⟨h0, ?_⟩
                  rcases hG with g0 | g0
                  · rw [hs] at g0; cases g0
                  · exact g0
          · cases hl
  | inv a0 op =>
    cases op with
    | swap ko =>
      cases ko <;>
      · simp only [monC05a, monC05l, monC05g, monReg, ctxSpec, fnSpec, svSpec, Op.isChanger, Op.isClearCtx,
          if_true, Option.some.injEq, Bool.false_eq_true, if_false] at ha hl hg
        subst ha; subst hl; subst hg
        exact ⟨_, rfl, ⟨h1, h2, h3, h4, h5, (by simp only [h6, h3]), h7, h8, h9, (by first | exact h10 | simp only [h10]), (by first | exact h11 | simp only [h11]), (by first | exact h12 | simp only [h12]),
          (by first | exact h13 | rfl), (by first | exact h14 | simp only [h14]), (by first | exact h15 | simp only [h15]), (by first | exact h16 | simp only [h16, h15])⟩⟩
    | setContext c b =>
      simp only [monC05a, monC05l, monC05g, monReg, ctxSpec, fnSpec, svSpec, Op.isChanger,
        if_true, Option.some.injEq, Bool.false_eq_true, if_false] at ha hl hg
      subst ha; subst hl; subst hg
      exact ⟨_, rfl, ⟨h1, h2, h3, h4, h5, (by simp only [h6, h3]), h7, by simp [h8, isClearCtx_eq], h9, (by first | exact h10 | simp only [h10]),
        (by first | exact h11 | simp only [h11]), (by first | exact h12 | simp only [h12]), (by first | exact h13 | rfl), (by first | exact h14 | simp only [h14]), (by first | exact h15 | simp only [h15]), (by first | exact h16 | simp only [h16, h15])⟩⟩
    | _ =>
      simp only [monC05a, monC05l, monC05g, monReg, ctxSpec, fnSpec, svSpec, Op.isChanger, Op.isClearCtx,
        if_true, Option.some.injEq, Bool.false_eq_true, if_false] at ha hl hg
      subst ha; subst hl; subst hg
      exact ⟨_, rfl, ⟨h1, h2, h3, h4, h5, (by simp only [h6, h3]), h7, h8, h9, (by first | exact h10 | simp only [h10]), (by first | exact h11 | simp only [h11]), (by first | exact h12 | simp only [h12]),
        (by first | exact h13 | rfl), (by first | exact h14 | simp only [h14]), (by first | exact h15 | simp only [h15]), (by first | exact h16 | simp only [h16, h15])⟩⟩
  | ret a0 r =>
    simp only [monC05a, Option.some.injEq] at ha
    subst ha
    cases r with
    | bool b =>
      simp only [monC05l, monC05g, monReg, ctxSpec, fnSpec, svSpec, if_true, Option.some.injEq] at hl hg
      subst hl; subst hg
      refine ⟨_, rfl, asmRel_doom _ _ _ _ a0 _ ?_⟩
      exact ⟨h1, h2, h3, h4, h5, h6, h7, h8, h9, by simp only [h10], by simp only [h11], by simp only [h12],
        h13, h14, h15, h16⟩
    | setR x1 x2 =>
      simp only [monC05l, monC05g, monReg, ctxSpec, fnSpec, svSpec, if_true, Option.some.injEq] at hl hg
      subst hl; subst hg
      refine ⟨_, rfl, asmRel_doom _ _ _ _ a0 _ ?_⟩
      exact ⟨h1, h2, h3, h4, h5, h6, h7, h8, h9, by simp only [h10], by simp only [h11], by simp only [h12],
        h13, h14, h15, h16⟩
    | setSR x1 x2 x3 =>
      simp only [monC05l, monC05g, monReg, ctxSpec, fnSpec, svSpec, if_true, Option.some.injEq] at hl hg
      subst hl; subst hg
      refine ⟨_, rfl, asmRel_doom _ _ _ _ a0 _ ?_⟩
      exact ⟨h1, h2, h3, h4, h5, h6, h7, h8, h9, by simp only [h10], by simp only [h11], by simp only [h12],
        h13, h14, h15, h16⟩
    | wx x1 =>
      simp only [monC05l, monC05g, monReg, ctxSpec, fnSpec, svSpec, if_true, Option.some.injEq] at hl hg
      subst hl; subst hg
      refine ⟨_, rfl, asmRel_doom _ _ _ _ a0 _ ?_⟩
      exact ⟨h1, h2, h3, h4, h5, h6, h7, h8, h9, by simp only [h10], by simp only [h11], by simp only [h12],
        h13, h14, h15, h16⟩
    | setS x1 x2 x3 x4 =>
      simp only [monC05l, monC05g, monReg, ctxSpec, fnSpec, svSpec, if_true, Option.some.injEq] at hl hg
      subst hl; subst hg
      refine ⟨_, rfl, asmRel_doom _ _ _ _ a0 _ ?_⟩
      exact ⟨h1, h2, h3, h4, h5, h6, h7, h8, h9, by simp only [h10], by simp only [h11], by simp only [h12],
        rfl, by simp only [h14], by simp only [h15], h16⟩
    | swapR x1 x2 x3 x4 x5 =>
      simp only [monC05l, monC05g, monReg, ctxSpec, fnSpec, svSpec, if_true, Option.some.injEq] at hl hg
      subst hl; subst hg
      refine ⟨_, rfl, asmRel_doom _ _ _ _ a0 _ ?_⟩
      exact ⟨h1, h2, h3, h4, h5, h6, h7, h8, h9, by simp only [h10], by simp only [h11], by simp only [h12],
        rfl, by simp only [h14], by simp only [h15], h16⟩
    | state v =>
      simp only [monC05l, monC05g, monReg, ctxSpec, fnSpec, svSpec, if_true, Option.some.injEq] at hl hg
      subst hl; subst hg
      refine ⟨_, rfl, asmRel_doom _ _ _ _ a0 _ ?_⟩
      exact ⟨h1, h2, h3, h4, h5, h6, h7, h8, h9, by simp only [h10], by simp only [h11], by simp only [h12],
        by simp only [h14, h15, h16], h14, h15, h16⟩

/-- **monitor C05 accepts whatever its three clause monitors accept** -/
theorem asm_run (tr : List Obs) (m : C05St) (a : C05aSt) (l : C05lSt) (g : C05gSt) (h : AsmRel m a l g)
    (ha : (monC05a.run a tr).isSome = true) (hl : (monC05l.run l tr).isSome = true)
    (hg : (monC05g.run g tr).isSome = true) : (monC05.run m tr).isSome = true := by
  induction tr generalizing m a l g with
  | nil => rfl
  | cons o os ih =>
    simp only [ObsMonitor.run] at ha hl hg ⊢
    cases h1 : monC05a.step a o with
    | none => simp [h1] at ha
    | some a' =>
      cases h2 : monC05l.step l o with
      | none => simp [h2] at hl
      | some l' =>
        cases h3 : monC05g.step g o with
        | none => simp [h3] at hg
        | some g' =>
          obtain ⟨m', hm, hrel⟩ := asm_step m a a' l l' g g' o h h1 h2 h3
          rw [h1] at ha; rw [h2] at hl; rw [h3] at hg
          simp only [Option.bind_some] at ha hl hg
          rw [hm]; simp only [Option.bind_some]
          exact ih m' a' l' g' hrel ha hl hg

theorem monC05_of_clauses (tr : List Obs) (ha : monC05a.accepts tr = true) (hl : monC05l.accepts tr = true)
    (hg : monC05g.accepts tr = true) : monC05.accepts tr = true :=
  asm_run tr {} {} {} {} asmRel_init ha hl hg

end UtilModel.Routine
