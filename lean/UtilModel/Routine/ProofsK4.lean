import UtilModel.Routine.ProofsC14
/-!
# routine: the state clause of C05 — the current record of a StateRoutineContainer was built from the stored
state and state function (invariant `K4`)
-/
namespace UtilModel.Routine
open UtilModel

def fa (y : Rec) : Nat × Nat := (y.fn, y.arg)

/-- in state mode the container's current record is the closure over the stored (non-empty) state and function;
before configuration nothing is set -/
structure K4 (s : St) : Prop where
  pre : s.cfg = none → s.routine = none
  lnk : ∀ cf, s.cfg = some cf → cf.state = true → ∀ r y, s.routine = some r → s.recs[r]? = some y →
    y.fn = s.sfn ∧ y.arg = s.sval ∧ s.sval ≠ 0 ∧ s.sfn ≠ 0

/-- nothing the invariant looks at changes (records may change in other fields) -/
structure FAeq (s s' : St) : Prop where
  rt : s'.routine = s.routine
  sv : s'.sval = s.sval
  sf : s'.sfn = s.sfn
  cf : s'.cfg = s.cfg
  rc : ∀ q : Nat, (s'.recs[q]?).map fa = (s.recs[q]?).map fa

theorem FAeq.refl (s : St) : FAeq s s := ⟨rfl, rfl, rfl, rfl, fun _ => rfl⟩
theorem FAeq.trans {a b c : St} (h1 : FAeq a b) (h2 : FAeq b c) : FAeq a c :=
  ⟨h2.rt.trans h1.rt, h2.sv.trans h1.sv, h2.sf.trans h1.sf, h2.cf.trans h1.cf, fun q => (h2.rc q).trans (h1.rc q)⟩

theorem FAeq.of_recs {s s' : St} (h1 : s'.routine = s.routine) (h2 : s'.sval = s.sval) (h3 : s'.sfn = s.sfn)
    (h4 : s'.cfg = s.cfg) (h5 : s'.recs = s.recs) : FAeq s s' := ⟨h1, h2, h3, h4, fun q => by rw [h5]⟩

theorem K4.transfer {s s' : St} (h : K4 s) (e : FAeq s s') : K4 s' := by
  refine ⟨?_, ?_⟩
  · intro hc; rw [e.cf] at hc; rw [e.rt]; exact h.pre hc
  · intro cf hcf hst r y hr hy
    rw [e.cf] at hcf; rw [e.rt] at hr
    have := e.rc r
    rw [hy] at this
    cases hy0 : s.recs[r]? with
    | none => rw [hy0] at this; cases this
    | some y0 =>
      rw [hy0] at this
      simp only [Option.map_some, Option.some.injEq, fa, Prod.mk.injEq] at this
      have g := h.lnk cf hcf hst r y0 hr hy0
      rw [e.sv, e.sf, this.1, this.2]; exact g

theorem faeq_set (s : St) (r : Nat) (x y : Rec) (hx : s.recs[r]? = some x) (hf : y.fn = x.fn) (ha : y.arg = x.arg) :
    FAeq s { s with recs := s.recs.set r y } := by
  refine ⟨rfl, rfl, rfl, rfl, ?_⟩
  intro q
  simp only [List.getElem?_set]
  by_cases h : r = q
  · subst h; simp [get_lt hx, fa, hf, ha, getElem_of_get hx (get_lt hx)]
  · simp [h]

@[simp] theorem cancelInst_misc (s : St) (n : Nat) :
    (cancelInst s n).sval = s.sval ∧ (cancelInst s n).sfn = s.sfn ∧ (cancelInst s n).cfg = s.cfg := by
  unfold cancelInst; split <;> exact ⟨rfl, rfl, rfl⟩

theorem faeq_cancelOpt (s : St) (o : Option Nat) : FAeq s (cancelOpt s o) := by
  cases o with
  | none => exact FAeq.refl s
  | some n =>
    have := cancelInst_misc s n
    exact FAeq.of_recs (by simp [cancelOpt]) this.1 this.2.1 this.2.2 (by simp [cancelOpt])

theorem faeq_killTimer (s : St) (o : Option Nat) : FAeq s (killTimer s o) := by
  unfold killTimer
  split
  · split
    · split
      · exact FAeq.of_recs rfl rfl rfl rfl rfl
      · exact FAeq.refl s
    · exact FAeq.refl s
  · exact FAeq.refl s

theorem faeq_stopRec (s : St) (r : Nat) : FAeq s (stopRec s r) := by
  unfold stopRec
  split
  · rename_i x hx
    refine ((faeq_cancelOpt s x.cancelOf).trans (faeq_killTimer _ x.retry)).trans ?_
    have hx' : (killTimer (cancelOpt s x.cancelOf) x.retry).recs[r]? = some x := by simpa using hx
    exact faeq_set _ r x x.stopped hx' rfl rfl
  · exact FAeq.refl s

theorem faeq_startRec (s : St) (r c : Nat) (w : Option Nat) (force : Bool) : FAeq s (startRec s r c w force) := by
  unfold startRec
  split
  · exact FAeq.refl s
  · rename_i x hx
    split
    · exact FAeq.refl s
    · refine (faeq_stopRec s r).trans ?_
      have hx' : (stopRec s r).recs[r]? = some x.stopped := by simp [stopRec_recs_get, hx]
      have h1 := faeq_set (stopRec s r) r x.stopped
        { x.stopped with err := none, success := false, exited := false, exitedCh := some (stopRec s r).insts.length,
                         rctx := some (stopRec s r).insts.length, cancelOf := some (stopRec s r).insts.length } hx' rfl rfl
      exact h1.trans (FAeq.of_recs rfl rfl rfl rfl rfl)

theorem faeq_bcast (s : St) : FAeq s s.bcastNow := FAeq.of_recs rfl rfl rfl rfl rfl

theorem faeq_normCtx (s : St) : FAeq s (normCtx s) := by
  unfold normCtx; split
  · exact FAeq.of_recs rfl rfl rfl rfl rfl
  · exact FAeq.refl s

theorem faeq_setContextCS (s : St) (c : Nat) (restart : Bool) : FAeq s (setContextCS s c restart).1 := by
  simp only [setContextCS]
  split
  · exact FAeq.refl s
  · split
    · exact FAeq.of_recs rfl rfl rfl rfl rfl
    · split
      · exact FAeq.of_recs rfl rfl rfl rfl rfl
      · split
        · exact FAeq.of_recs rfl rfl rfl rfl rfl
        · split
          · exact FAeq.of_recs rfl rfl rfl rfl rfl
          rename_i r _ _ rr _ _ _
          have h0 : FAeq s { s with ctx := c } := FAeq.of_recs rfl rfl rfl rfl rfl
          split
          · exact ((h0.trans (faeq_stopRec _ r)).trans (faeq_startRec _ r c rr.exitedCh false)).trans (faeq_bcast _)
          · exact (h0.trans (faeq_stopRec _ r)).trans (faeq_bcast _)

theorem faeq_restartCS (s : St) : FAeq s (restartCS s).1 := by
  simp only [restartCS]
  split
  · exact faeq_normCtx s
  · rename_i r hr
    split
    · exact faeq_normCtx s
    · rename_i x hx
      have hx' : (cancelOpt (normCtx s) x.cancelOf).recs[r]? = some x := by simpa using hx
      have h1 : FAeq s (cancelOpt (normCtx s) x.cancelOf) := (faeq_normCtx s).trans (faeq_cancelOpt _ _)
      split
      · exact h1.trans (faeq_set _ r x { x with cancelOf := none } hx' rfl rfl)
      · refine (h1.trans ?_).trans (faeq_bcast _)
        have h2 := faeq_set _ r x { x with cancelOf := none, exitedCh := none } hx' rfl rfl
        refine FAeq.trans ?_ (faeq_startRec _ r _ x.exitedCh true)
        simpa using h2

theorem faeq_timerBody (s : St) (t r : Nat) : FAeq s (timerBody s t r) := by
  simp only [timerBody]
  refine FAeq.trans ?_ (faeq_bcast _)
  split
  · rename_i x hx
    split
    · exact (faeq_set s r x { x with retry := none } hx rfl rfl).trans (faeq_startRec _ _ _ _ _)
    · exact FAeq.refl s
  · exact FAeq.refl s

theorem faeq_recordCS (s s' : St) (cf : Cfg) (n : Nat) (x : Inst) (dur : Bool)
    (h : recordCS s cf n x dur = some s') : FAeq s s' := by
  have h1 : FAeq s (setInst s n { x with recorded := true }) := FAeq.of_recs rfl rfl rfl rfl rfl
  simp only [recordCS] at h
  split at h
  · cases h
  · rename_i r hr
    split at h
    · split at h
      · cases h
      · simp only [Option.some.injEq] at h; subst h
        refine FAeq.trans ?_ (FAeq.of_recs rfl rfl rfl rfl rfl)
        by_cases hret : cf.retry = true
        · simp only [hret, if_true]
          have h2 := h1.trans (faeq_killTimer _ r.retry)
          have hr' : (killTimer (setInst s n { x with recorded := true }) r.retry).recs[x.rid]? = some r := by
            simpa [setInst] using hr
          exact (h2.trans (faeq_set _ x.rid r
            { r with err := x.out, success := x.out.isNone, exited := true, exitedCh := none,
                     retry := if dur = true then some (killTimer (setInst s n { x with recorded := true }) r.retry).timers.length else none }
            hr' rfl rfl)).trans (FAeq.of_recs rfl rfl rfl rfl rfl)
        · have hret' : cf.retry = false := by simpa using hret
          simp only [hret', Bool.false_eq_true, if_false]
          have hr' : (setInst s n { x with recorded := true }).recs[x.rid]? = some r := by simpa [setInst] using hr
          exact (h1.trans (faeq_set _ x.rid r
            { r with err := x.out, success := x.out.isNone, exited := true, exitedCh := none }
            hr' rfl rfl)).trans (FAeq.of_recs rfl rfl rfl rfl rfl)
    · split at h
      · cases h
      · simp only [Option.some.injEq] at h; subst h; exact h1

theorem detachPrev_misc (s : St) :
    (detachPrev s).1.sval = s.sval ∧ (detachPrev s).1.sfn = s.sfn ∧ (detachPrev s).1.cfg = s.cfg := by
  cases hr : s.routine with
  | none => simp [detachPrev, hr]
  | some r =>
    cases hx : s.recs[r]? with
    | none => simp [detachPrev, hr, hx]
    | some x =>
      simp only [detachPrev, hr, hx]
      have := faeq_cancelOpt s x.cancelOf
      exact ⟨this.sv, this.sf, this.cf⟩

/-- what `setRoutineLocked(f)` leaves as the current record -/
theorem setRoutineLocked_cur (s : St) (f arg : Nat) :
    (setRoutineLocked s f arg).1.sval = s.sval ∧ (setRoutineLocked s f arg).1.sfn = s.sfn ∧
    (setRoutineLocked s f arg).1.cfg = s.cfg ∧
    ((setRoutineLocked s f arg).1.routine = none ∨
     (f ≠ 0 ∧ ∃ q y, (setRoutineLocked s f arg).1.routine = some q ∧
        (setRoutineLocked s f arg).1.recs[q]? = some y ∧ y.fn = f ∧ y.arg = arg)) := by
  have hm := detachPrev_misc (normCtx s)
  have hn := faeq_normCtx s
  have hsv : (detachPrev (normCtx s)).1.sval = s.sval := hm.1.trans hn.sv
  have hsf : (detachPrev (normCtx s)).1.sfn = s.sfn := hm.2.1.trans hn.sf
  have hcf : (detachPrev (normCtx s)).1.cfg = s.cfg := hm.2.2.trans hn.cf
  simp only [setRoutineLocked]
  split
  · rename_i hf
    have hf0 : f ≠ 0 := by simpa using hf
    split
    · -- fresh record, started
      have e := faeq_startRec { (detachPrev (normCtx s)).1 with
          recs := (detachPrev (normCtx s)).1.recs ++ [{ fn := f, arg := arg }],
          routine := some (detachPrev (normCtx s)).1.recs.length }
          (detachPrev (normCtx s)).1.recs.length (detachPrev (normCtx s)).1.ctx (detachPrev (normCtx s)).2.1 false
      refine ⟨e.sv.trans hsv, e.sf.trans hsf, e.cf.trans hcf, Or.inr ⟨hf0, ?_⟩⟩
      have hrc := e.rc (detachPrev (normCtx s)).1.recs.length
      simp only [List.getElem?_append_right (Nat.le_refl _), Nat.sub_self, List.getElem?_cons_zero,
        Option.map_some] at hrc
      cases hy : (startRec { (detachPrev (normCtx s)).1 with
          recs := (detachPrev (normCtx s)).1.recs ++ [{ fn := f, arg := arg }],
          routine := some (detachPrev (normCtx s)).1.recs.length }
          (detachPrev (normCtx s)).1.recs.length (detachPrev (normCtx s)).1.ctx (detachPrev (normCtx s)).2.1 false).recs[(detachPrev (normCtx s)).1.recs.length]? with
      | none => rw [hy] at hrc; cases hrc
      | some y =>
        rw [hy] at hrc
        simp only [Option.map_some, Option.some.injEq, fa, Prod.mk.injEq] at hrc
        exact ⟨_, y, e.rt, hy, hrc.1, hrc.2⟩
    · refine ⟨hsv, hsf, hcf, Or.inr ⟨hf0, _, { fn := f, arg := arg, exitedCh := (detachPrev (normCtx s)).2.1 }, rfl, ?_, rfl, rfl⟩⟩
      simp
  · split
    · exact ⟨hsv, hsf, hcf, Or.inl (detachPrev_routine _)⟩
    · exact ⟨hsv, hsf, hcf, Or.inl (detachPrev_routine _)⟩

/-- in state mode the closure handed to the inner container is built from the stored state and function -/
theorem k4_updateStateRoutine (s : St) (hc : s.cfg ≠ none) : K4 (updateStateRoutine s).1 := by
  simp only [updateStateRoutine]
  obtain ⟨h1, h2, h3, h4⟩ := setRoutineLocked_cur s (if (s.sfn != 0 && s.sval != 0) = true then s.sfn else 0) s.sval
  refine ⟨?_, ?_⟩
  · intro hn; rw [h3] at hn; exact absurd hn hc
  · intro cf _ _ r y hr hy
    rcases h4 with e | ⟨hf0, q, y', e1, e2, e3, e4⟩
    · rw [e] at hr; cases hr
    · rw [e1] at hr; cases hr
      rw [e2] at hy; cases hy
      rw [h1, h2]
      by_cases hb : (s.sfn != 0 && s.sval != 0) = true
      · simp only [hb, if_true] at e3
        simp only [Bool.and_eq_true] at hb
        exact ⟨e3, e4, by simpa using hb.2, by simpa using hb.1⟩
      · simp only [hb] at hf0; exact absurd rfl hf0

theorem k4_setStateCS {s : St} (h : K4 s) (hc : s.cfg ≠ none) (cmp v : Nat) : K4 (setStateCS s cmp v).1 := by
  simp only [setStateCS]
  split
  · dsimp only; exact k4_updateStateRoutine { s with sval := v } hc
  · exact h

theorem k4_apiCS {s : St} (h : K4 s) (cf : Cfg) (hcf : s.cfg = some cf) (op : Op) (r : St × Res × Option Nat)
    (hr : apiCS s cf op = some r) : K4 r.1 := by
  have hc : s.cfg ≠ none := by rw [hcf]; simp
  cases op with
  | setContext c restart => simp [apiCS] at hr; subst hr; exact h.transfer (faeq_setContextCS s c restart)
  | setRoutine f =>
    simp only [apiCS] at hr
    split at hr
    · cases hr
    · rename_i hst
      simp at hr; subst hr
      obtain ⟨_, _, h3, _⟩ := setRoutineLocked_cur s f 0
      refine ⟨?_, ?_⟩
      · intro hn; rw [h3] at hn; exact absurd hn hc
      · intro cf' hcf' hst'
        rw [h3, hcf] at hcf'; cases hcf'
        rw [hst'] at hst; exact absurd rfl hst
  | restart => simp [apiCS] at hr; subst hr; exact h.transfer (faeq_restartCS s)
  | setState v =>
    simp only [apiCS] at hr
    split at hr
    · cases hr
    · simp at hr; subst hr; exact k4_setStateCS h hc cf.cmp v
  | setStateRoutine f =>
    simp only [apiCS] at hr
    split at hr
    · cases hr
    · simp at hr; subst hr; dsimp only; exact k4_updateStateRoutine { s with sfn := f } hc
  | swap k =>
    simp only [apiCS] at hr
    split at hr
    · cases hr
    · split at hr
      · split at hr
        · simp only [Option.some.injEq] at hr; subst hr; exact k4_setStateCS h hc cf.cmp _
        · simp only [Option.some.injEq] at hr; subst hr; exact h
      · simp at hr; subst hr; exact h
  | getState =>
    simp only [apiCS] at hr
    split at hr
    · cases hr
    · simp at hr; subst hr; exact h
  | waitExited _ => simp [apiCS] at hr

theorem k4_init : K4 {} := ⟨fun _ => rfl, by intro cf hcf; simp at hcf⟩

theorem step_k4 (s s' : St) (e : Ev) (h : K4 s) (hs : step s e = some s') : K4 s' := by
  have fr : ∀ T : St, T.routine = s.routine → T.sval = s.sval → T.sfn = s.sfn → T.cfg = s.cfg → T.recs = s.recs → K4 T :=
    fun T a b c d e => h.transfer (FAeq.of_recs a b c d e)
  cases e with
  | cfg c =>
    simp only [step, stepI] at hs
    split at hs
    · rename_i hn
      simp at hs; subst hs
      have hrt := h.pre (by simpa using hn)
      exact ⟨by intro hc; simp at hc, by intro cf _ _ r y hr; rw [show ({ s with cfg := some c } : St).routine = s.routine from rfl, hrt] at hr; cases hr⟩
    · cases hs
  | inv a op =>
    simp only [step, stepI] at hs
    split at hs
    · simp at hs; subst hs; exact fr _ rfl rfl rfl rfl rfl
    · cases hs
  | cs a =>
    simp only [step, stepI] at hs
    split at hs
    · rename_i cf c hcf hc
      split at hs
      · split at hs
        · split at hs
          · rename_i rinr _ _
            simp at hs; subst hs
            have : K4 (waitSample s rinr).1 := by simp only [waitSample]; exact h.transfer (faeq_normCtx s)
            exact this.transfer (FAeq.of_recs rfl rfl rfl rfl rfl)
          · cases hs
        · split at hs
          · cases hs
          · split at hs
            · rename_i r hr
              simp at hs; subst hs
              exact (k4_apiCS h cf hcf _ r hr).transfer (FAeq.of_recs rfl rfl rfl rfl rfl)
            · cases hs
      · cases hs
    · cases hs
  | ret a r =>
    simp only [step, stepI] at hs
    split at hs
    · split at hs
      · simp at hs; subst hs; exact fr _ rfl rfl rfl rfl rfl
      · split at hs
        · simp at hs; subst hs; exact fr _ rfl rfl rfl rfl rfl
        · cases hs
    · cases hs
  | wake a =>
    simp only [step, stepI] at hs
    split at hs
    · split at hs
      · split at hs
        · simp at hs; subst hs; exact fr _ rfl rfl rfl rfl rfl
        · cases hs
      · cases hs
    · cases hs
  | wctx a =>
    simp only [step, stepI] at hs
    split at hs
    · split at hs
      · split at hs
        · simp at hs; subst hs; exact fr _ rfl rfl rfl rfl rfl
        · cases hs
      · cases hs
    · cases hs
  | envCancel c =>
    simp only [step, stepI] at hs
    split at hs
    · simp at hs; subst hs; exact fr _ rfl rfl rfl rfl rfl
    · cases hs
  | envDo c =>
    simp only [step, stepI] at hs
    split at hs
    · simp at hs; subst hs; exact fr _ rfl rfl rfl rfl rfl
    · cases hs
  | envCancelW a =>
    simp only [step, stepI] at hs
    split at hs
    · split at hs
      · simp at hs; subst hs; exact fr _ rfl rfl rfl rfl rfl
      all_goals cases hs
    · cases hs
  | envErr a e0 =>
    simp only [step, stepI] at hs
    split at hs
    · split at hs
      · simp at hs; subst hs; exact fr _ rfl rfl rfl rfl rfl
      all_goals cases hs
    · cases hs
  | giveUp n =>
    simp only [step, stepI] at hs
    split at hs
    · split at hs
      · split at hs
        · simp at hs; subst hs; exact fr _ rfl rfl rfl rfl rfl
        · simp at hs; subst hs; exact fr _ rfl rfl rfl rfl rfl
      · cases hs
    · cases hs
  | drained n =>
    simp only [step, stepI] at hs
    split at hs
    · split at hs
      · simp at hs; subst hs; exact fr _ rfl rfl rfl rfl rfl
      · cases hs
    · cases hs
  | cbin k n f arg root =>
    simp only [step, stepI] at hs
    split at hs
    · split at hs
      · split at hs
        · simp at hs; subst hs; exact fr _ rfl rfl rfl rfl rfl
        · cases hs
      · cases hs
    · cases hs
  | cbout k o =>
    simp only [step, stepI] at hs
    split at hs
    · split at hs
      · split at hs
        · simp at hs; subst hs; exact fr _ rfl rfl rfl rfl rfl
        · cases hs
      · cases hs
    · cases hs
  | closeExit n =>
    simp only [step, stepI] at hs
    split at hs
    · split at hs
      · simp at hs; subst hs; exact fr _ rfl rfl rfl rfl rfl
      · cases hs
    · cases hs
  | record n dur =>
    simp only [step, stepI] at hs
    split at hs
    · rename_i cf x _ hx
      split at hs
      · exact h.transfer (faeq_recordCS s s' cf n x dur hs)
      · cases hs
    · cases hs
  | emit o =>
    simp only [step, stepI] at hs
    split at hs
    · split at hs
      · simp at hs; subst hs; exact fr _ rfl rfl rfl rfl rfl
      · cases hs
    · cases hs
  | fire t =>
    simp only [step, stepI] at hs
    split at hs
    · split at hs
      · simp at hs; subst hs; exact fr _ rfl rfl rfl rfl rfl
      · cases hs
    · cases hs
  | timerCS t =>
    simp only [step, stepI] at hs
    split at hs
    · rename_i tm htm
      split at hs
      · simp at hs; subst hs
        exact (fr { s with timers := s.timers.set t { tm with st := .dead } } rfl rfl rfl rfl rfl).transfer
          (faeq_timerBody _ t tm.rid)
      · cases hs
    · cases hs
  | probeCtx k b =>
    simp only [step, stepI] at hs
    split at hs
    · split at hs
      · simp at hs; subst hs; exact h
      · cases hs
    · cases hs
  | probeW a b =>
    simp only [step, stepI] at hs
    split at hs
    · split at hs
      · split at hs
        · simp at hs; subst hs; exact h
        · cases hs
      · cases hs
    · cases hs
  | quiesce p r l =>
    simp only [step] at hs
    split at hs
    · simp at hs; subst hs; exact h
    · cases hs

theorem k4_run (s s' : St) (es : List Ev) (h : K4 s) (hr : model.run s es = some s') : K4 s' := by
  induction es generalizing s with
  | nil => simp [OLTS.run] at hr; subst hr; exact h
  | cons e es ih =>
    simp only [OLTS.run] at hr
    cases hst : model.step s e with
    | none => simp [hst] at hr
    | some s1 => simp [hst] at hr; exact ih s1 (step_k4 s s1 e h hst) hr

end UtilModel.Routine
