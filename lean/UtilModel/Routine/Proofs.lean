import UtilModel.Routine.Model
import UtilModel.Core.Chain
/-!
# routine: projection to the hand-over chain (Core/Chain) and the invariants behind C04

`proj s` forgets everything but the chain of instances: per instance its predecessor (`waitOn`) and program
counter, and the slot's `last` = the exit channel held by the container's current record (the channel the next
`start()` will wait on). Cancellation is abstracted (every projected instance counts as cancellable): the chain
invariant does not depend on it. `step_chain`: every routine event maps to zero or more `Chain` events on the
projected slot — except the critical section of the open finding D16 (`clearsLive`), which makes the container
forget an exit channel that is still open.
-/
namespace UtilModel.Routine
open UtilModel

def pst : IS → Chain.IS
  | .waiting => .waiting
  | .draining => .draining
  | .running => .running
  | .returned => .returned
  | .closed => .closed

def pI (x : Inst) : Chain.Inst := { pred := x.waitOn, st := pst x.st, cancelled := true }

/-- the exit channel the next `start()` will be told to wait on -/
def lastOf (s : St) : Option Nat :=
  match s.routine with
  | some r => (match s.recs[r]? with
               | some x => x.exitedCh
               | none => none)
  | none => s.cleared

def proj (s : St) : Chain.Slot := { insts := s.insts.map pI, last := lastOf s }

/-- zero or more chain events lead from `a` to `b` -/
def Steps (a b : Chain.Slot) : Prop := ∃ ces, Chain.run a ces = some b

theorem Steps.refl (a : Chain.Slot) : Steps a a := ⟨[], rfl⟩

theorem chain_run_append (a : Chain.Slot) (es fs : List Chain.Ev) :
    Chain.run a (es ++ fs) = (Chain.run a es).bind (Chain.run · fs) := by
  induction es generalizing a with
  | nil => simp [Chain.run]
  | cons e es ih =>
    simp only [List.cons_append, Chain.run]
    cases Chain.step a e with
    | none => simp
    | some s1 => simp [ih]

theorem Steps.trans {a b c : Chain.Slot} (h1 : Steps a b) (h2 : Steps b c) : Steps a c := by
  obtain ⟨e1, h1⟩ := h1
  obtain ⟨e2, h2⟩ := h2
  exact ⟨e1 ++ e2, by simp [chain_run_append, h1, h2]⟩

theorem Steps.one {a b : Chain.Slot} (e : Chain.Ev) (h : Chain.step a e = some b) : Steps a b :=
  ⟨[e], by simp [Chain.run, h]⟩

theorem Steps.inv {a b : Chain.Slot} (h : Steps a b) (hi : Chain.Inv a) : Chain.Inv b := by
  obtain ⟨es, h⟩ := h
  exact Chain.run_inv a b es hi h

/-! ## what the helpers do to the projected parts -/

@[simp] theorem pI_cancel (x : Inst) : pI { x with cancelled := true } = pI x := rfl

@[simp] theorem cancelInst_recs (s : St) (n : Nat) : (cancelInst s n).recs = s.recs := by
  unfold cancelInst; split <;> rfl
@[simp] theorem cancelInst_routine (s : St) (n : Nat) : (cancelInst s n).routine = s.routine := by
  unfold cancelInst; split <;> rfl
@[simp] theorem cancelInst_pins (s : St) (n : Nat) : (cancelInst s n).insts.map pI = s.insts.map pI := by
  unfold cancelInst; split
  · rename_i x hx
    simp only [List.map_set, pI_cancel]
    apply List.ext_getElem?
    intro i
    simp only [List.getElem?_set, List.getElem?_map]
    split
    · rename_i h; subst h; split <;> simp_all
    · rfl
  · rfl
@[simp] theorem cancelInst_len (s : St) (n : Nat) : (cancelInst s n).insts.length = s.insts.length := by
  unfold cancelInst; split <;> simp

@[simp] theorem cancelOpt_recs (s : St) (o : Option Nat) : (cancelOpt s o).recs = s.recs := by
  cases o <;> simp [cancelOpt]
@[simp] theorem cancelOpt_routine (s : St) (o : Option Nat) : (cancelOpt s o).routine = s.routine := by
  cases o <;> simp [cancelOpt]
@[simp] theorem cancelOpt_pins (s : St) (o : Option Nat) : (cancelOpt s o).insts.map pI = s.insts.map pI := by
  cases o <;> simp [cancelOpt]
@[simp] theorem cancelOpt_len (s : St) (o : Option Nat) : (cancelOpt s o).insts.length = s.insts.length := by
  cases o <;> simp [cancelOpt]

@[simp] theorem killTimer_recs (s : St) (o : Option Nat) : (killTimer s o).recs = s.recs := by
  unfold killTimer; split
  · split
    · split <;> rfl
    · rfl
  · rfl
@[simp] theorem killTimer_routine (s : St) (o : Option Nat) : (killTimer s o).routine = s.routine := by
  unfold killTimer; split
  · split
    · split <;> rfl
    · rfl
  · rfl
@[simp] theorem killTimer_insts (s : St) (o : Option Nat) : (killTimer s o).insts = s.insts := by
  unfold killTimer; split
  · split
    · split <;> rfl
    · rfl
  · rfl

@[simp] theorem cancelInst_cleared (s : St) (n : Nat) : (cancelInst s n).cleared = s.cleared := by
  unfold cancelInst; split <;> rfl
@[simp] theorem cancelOpt_cleared (s : St) (o : Option Nat) : (cancelOpt s o).cleared = s.cleared := by
  cases o <;> simp [cancelOpt]
@[simp] theorem killTimer_cleared (s : St) (o : Option Nat) : (killTimer s o).cleared = s.cleared := by
  unfold killTimer; split
  · split
    · split <;> rfl
    · rfl
  · rfl

theorem get_lt {α : Type} {l : List α} {i : Nat} {x : α} (h : l[i]? = some x) : i < l.length := by
  rcases Nat.lt_or_ge i l.length with h' | h'
  · exact h'
  · simp [List.getElem?_eq_none h'] at h

theorem getElem_of_get {α : Type} {l : List α} {i : Nat} {x : α} (h : l[i]? = some x) (hlt : i < l.length) :
    l[i] = x := by
  rw [List.getElem?_eq_getElem hlt] at h; exact Option.some.inj h

@[simp] theorem stopped_exitedCh (x : Rec) : x.stopped.exitedCh = x.exitedCh := rfl

@[simp] theorem stopRec_pins (s : St) (r : Nat) : (stopRec s r).insts.map pI = s.insts.map pI := by
  unfold stopRec; split <;> simp
@[simp] theorem stopRec_len (s : St) (r : Nat) : (stopRec s r).insts.length = s.insts.length := by
  unfold stopRec; split <;> simp
@[simp] theorem stopRec_routine (s : St) (r : Nat) : (stopRec s r).routine = s.routine := by
  unfold stopRec; split <;> simp
@[simp] theorem stopRec_ctx (s : St) (r : Nat) : (stopRec s r).ctx = s.ctx := by
  unfold stopRec cancelOpt cancelInst killTimer
  repeat' split
  all_goals rfl
@[simp] theorem stopRec_cleared (s : St) (r : Nat) : (stopRec s r).cleared = s.cleared := by
  unfold stopRec; split <;> simp
@[simp] theorem stopRec_recs_len (s : St) (r : Nat) : (stopRec s r).recs.length = s.recs.length := by
  unfold stopRec; split <;> simp

theorem stopRec_recs_get (s : St) (r q : Nat) :
    (stopRec s r).recs[q]? = if q = r then (s.recs[r]?).map Rec.stopped else s.recs[q]? := by
  unfold stopRec
  split
  · rename_i x hx
    have hlt := get_lt hx
    simp only [killTimer_recs, cancelOpt_recs, List.getElem?_set]
    by_cases h : q = r
    · subst h
      have hg : s.recs[q] = x := by
        have := List.getElem?_eq_getElem hlt
        rw [this] at hx; exact Option.some.inj hx
      simp [hlt, hg]
    · have : ¬ r = q := fun e => h e.symm
      simp [h, this]
  · rename_i hx
    by_cases h : q = r
    · subst h; simp [hx]
    · simp [h]

theorem lastOf_eq (s : St) : lastOf s = (match s.routine with
    | some r => (s.recs[r]?).bind (·.exitedCh)
    | none => s.cleared) := by
  unfold lastOf
  cases s.routine with
  | none => rfl
  | some r => cases h : s.recs[r]? <;> simp [h]

@[simp] theorem lastOf_stopRec (s : St) (r : Nat) : lastOf (stopRec s r) = lastOf s := by
  rw [lastOf_eq, lastOf_eq, stopRec_routine]
  cases s.routine with
  | none => simp
  | some q =>
    simp only [stopRec_recs_get]
    by_cases h : q = r
    · subst h; cases s.recs[q]? <;> simp
    · simp [h]

/-- the instance created by `start()` as the chain sees it -/
def newPI (w : Option Nat) : Chain.Inst := { pred := w, st := .waiting, cancelled := true }

/-- `start()` either returns at once or stops the record and spawns one instance waiting on `w` -/
theorem startRec_cases (s : St) (r c : Nat) (w : Option Nat) (force : Bool) :
    startRec s r c w force = s ∨
    (∃ x, s.recs[r]? = some x ∧
      (startRec s r c w force).insts.map pI = s.insts.map pI ++ [newPI w] ∧
      (startRec s r c w force).routine = s.routine ∧
      (startRec s r c w force).recs.length = s.recs.length ∧
      (∀ q, (startRec s r c w force).recs[q]? =
        if q = r then some { x.stopped with err := none, success := false, exited := false,
                                             exitedCh := some s.insts.length, rctx := some s.insts.length,
                                             cancelOf := some s.insts.length }
        else s.recs[q]?)) := by
  unfold startRec
  split
  · exact Or.inl rfl
  · rename_i x hx
    split
    · exact Or.inl rfl
    · refine Or.inr ⟨x, hx, ?_, ?_, ?_, ?_⟩
      · simp [newPI, pI, pst]
      · simp
      · simp
      · intro q
        have hlt : r < s.recs.length := get_lt hx
        simp only [stopRec_len, List.getElem?_set]
        by_cases h : q = r
        · subst h; simp [hlt]
        · have : ¬ r = q := fun e => h e.symm
          simp [h, this, stopRec_recs_get]

/-- spawning in the chain, followed by marking the newcomer cancellable -/
theorem steps_spawn (pins : List Chain.Inst) (w : Option Nat) :
    Steps { insts := pins, last := w } { insts := pins ++ [newPI w], last := some pins.length } := by
  refine ⟨[.spawn, .cancel pins.length], ?_⟩
  simp [Chain.run, Chain.step, Chain.spawnSlot, Chain.newInst, newPI]

theorem lastOf_of {s : St} {r : Nat} {x : Rec} (h1 : s.routine = some r) (h2 : s.recs[r]? = some x) :
    lastOf s = x.exitedCh := by
  simp [lastOf, h1, h2]

theorem lastOf_none {s : St} (h1 : s.routine = none) : lastOf s = s.cleared := by
  simp [lastOf, h1]

@[simp] theorem bcastNow_insts (s : St) : s.bcastNow.insts = s.insts := rfl
@[simp] theorem bcastNow_recs (s : St) : s.bcastNow.recs = s.recs := rfl
@[simp] theorem bcastNow_routine (s : St) : s.bcastNow.routine = s.routine := rfl
@[simp] theorem bcastNow_cleared (s : St) : s.bcastNow.cleared = s.cleared := rfl
@[simp] theorem lastOf_bcastNow (s : St) : lastOf s.bcastNow = lastOf s := rfl
@[simp] theorem normCtx_cleared (s : St) : (normCtx s).cleared = s.cleared := by unfold normCtx; split <;> rfl
@[simp] theorem normCtx_insts (s : St) : (normCtx s).insts = s.insts := by unfold normCtx; split <;> rfl
@[simp] theorem normCtx_recs (s : St) : (normCtx s).recs = s.recs := by unfold normCtx; split <;> rfl
@[simp] theorem normCtx_routine (s : St) : (normCtx s).routine = s.routine := by unfold normCtx; split <;> rfl
@[simp] theorem lastOf_normCtx (s : St) : lastOf (normCtx s) = lastOf s := by
  unfold normCtx; split <;> rfl

/-- what one critical section does to the projected slot: nothing, or one spawn waiting on `last` -/
inductive Shape (s s' : St) : Prop where
  | same (h1 : s'.insts.map pI = s.insts.map pI) (h2 : lastOf s' = lastOf s)
  | spawn (h1 : s'.insts.map pI = s.insts.map pI ++ [newPI (lastOf s)]) (h2 : lastOf s' = some s.insts.length)

theorem Shape.steps {s s' : St} (h : Shape s s') : Steps (proj s) (proj s') := by
  cases h with
  | same h1 h2 => simp only [proj, h1, h2]; exact Steps.refl _
  | spawn h1 h2 =>
    have := steps_spawn (s.insts.map pI) (lastOf s)
    simpa [proj, h1, h2] using this

/-- `start()` on the container's current record, told to wait on the record's exit channel -/
theorem startRec_shape (s : St) (r c : Nat) (force : Bool) (x : Rec)
    (hr : s.routine = some r) (hx : s.recs[r]? = some x) :
    Shape s (startRec s r c x.exitedCh force) := by
  rcases startRec_cases s r c x.exitedCh force with h | ⟨y, hy, h1, h2, _, h4⟩
  · rw [h]; exact .same rfl rfl
  · refine .spawn ?_ ?_
    · rw [h1, lastOf_of hr hx]
    · rw [lastOf_eq, h2, hr]; simp [h4]

theorem setContextCS_shape (s : St) (c : Nat) (restart : Bool) : Shape s (setContextCS s c restart).1 := by
  simp only [setContextCS]
  split
  · exact .same rfl rfl
  · split
    · rename_i hr; exact .same rfl (by simp [lastOf, hr])
    · rename_i r hr
      split
      · rename_i hx; exact .same rfl (by simp [lastOf, hr, hx])
      · rename_i rr hx
        split
        · exact .same rfl (by simp [lastOf, hr, hx])
        · split
          · exact .same rfl (by simp [lastOf, hr, hx])
          have hs2r : (stopRec { s with ctx := c } r).routine = some r := by simp [hr]
          have hs2x : (stopRec { s with ctx := c } r).recs[r]? = some rr.stopped := by
            simp [stopRec_recs_get, hx]
          have hl2 : lastOf (stopRec { s with ctx := c } r) = lastOf s := by
            rw [lastOf_stopRec]; rfl
          split
          · have := startRec_shape (stopRec { s with ctx := c } r) r c false rr.stopped hs2r hs2x
            simp only [stopped_exitedCh] at this
            cases this with
            | same h1 h2 => exact .same (by simpa using h1) (by simp [h2, hl2])
            | spawn h1 h2 => exact .spawn (by simpa [hl2] using h1) (by simpa using h2)
          · exact .same (by simp) (by simp [hl2])

theorem lastOf_congr {s s' : St} (h1 : s'.routine = s.routine)
    (h2 : ∀ q, s.routine = some q → (s'.recs[q]?).bind (·.exitedCh) = (s.recs[q]?).bind (·.exitedCh))
    (h3 : s'.cleared = s.cleared := by simp) :
    lastOf s' = lastOf s := by
  rw [lastOf_eq, lastOf_eq, h1]
  cases hr : s.routine with
  | none => simpa using h3
  | some q => simpa using h2 q hr

@[simp] theorem startSkips_force (s : St) (x : Rec) : startSkips s x true = false := by
  simp [startSkips]

/-- `start()` that does not return early -/
theorem startRec_spawn (s : St) (r c : Nat) (w : Option Nat) (force : Bool) (x : Rec)
    (hx : s.recs[r]? = some x) (hns : startSkips s x force = false) :
    (startRec s r c w force).insts.map pI = s.insts.map pI ++ [newPI w] ∧
    (startRec s r c w force).routine = s.routine ∧
    (startRec s r c w force).recs.length = s.recs.length ∧
    (∀ q, (startRec s r c w force).recs[q]? =
      if q = r then some { x.stopped with err := none, success := false, exited := false,
                                           exitedCh := some s.insts.length, rctx := some s.insts.length,
                                           cancelOf := some s.insts.length }
      else s.recs[q]?) := by
  unfold startRec
  simp only [hx, hns]
  refine ⟨?_, ?_, ?_, ?_⟩
  · simp [newPI, pI, pst]
  · simp
  · simp
  · intro q
    have hlt : r < s.recs.length := get_lt hx
    simp only [stopRec_len, List.getElem?_set]
    by_cases h : q = r
    · subst h; simp [hlt]
    · have : ¬ r = q := fun e => h e.symm
      simp [h, this, stopRec_recs_get]

theorem Shape.bcast {s s' : St} (h : Shape s s') : Shape s s'.bcastNow := by
  cases h with
  | same h1 h2 => exact .same h1 h2
  | spawn h1 h2 => exact .spawn h1 h2

/-- `start()` of the container's current record from an intermediate state `S` of a critical section that
began in `s`, told to wait on the channel that was `last` in `s` -/
theorem start_shape (s S : St) (r c : Nat) (w : Option Nat) (force : Bool) (x : Rec)
    (hp : S.insts.map pI = s.insts.map pI) (hr : S.routine = some r) (hx : S.recs[r]? = some x)
    (hw : w = lastOf s) (hskip : startSkips S x force = true → lastOf S = lastOf s) :
    Shape s (startRec S r c w force) := by
  have hn : S.insts.length = s.insts.length := by
    have := congrArg List.length hp; simpa using this
  by_cases hs : startSkips S x force = true
  · have : startRec S r c w force = S := by unfold startRec; simp [hx, hs]
    rw [this]; exact .same hp (hskip hs)
  · obtain ⟨h1, h2, _, h4⟩ := startRec_spawn S r c w force x hx (by simpa using hs)
    refine .spawn ?_ ?_
    · rw [h1, hp, hw]
    · rw [lastOf_eq, h2, hr]; simp [h4, hn]

theorem restartCS_shape (s : St) : Shape s (restartCS s).1 := by
  simp only [restartCS]
  split
  · exact .same (by simp) (by simp)
  · rename_i r hr
    simp only [normCtx_routine] at hr
    split
    · exact .same (by simp) (by simp)
    · rename_i x hx
      simp only [normCtx_recs] at hx
      have hlt : r < s.recs.length := get_lt hx
      split
      · refine .same (by simp) ?_
        apply lastOf_congr (by simp)
        intro q hq
        simp only [cancelOpt_recs, normCtx_recs, List.getElem?_set]
        by_cases h : r = q
        · subst h; simp [hlt, hx, getElem_of_get hx hlt]
        · simp [h]
      · -- the record's channel is taken out and handed to start()
        apply Shape.bcast
        apply start_shape s _ r _ x.exitedCh true { x with cancelOf := none, exitedCh := none }
        · simp
        · simp [hr]
        · simp [hlt]
        · exact (lastOf_of hr hx).symm
        · simp

theorem detachPrev_pch (s : St) : (detachPrev s).2.1 = lastOf s := by
  cases hr : s.routine with
  | none => simp [detachPrev, lastOf, hr]
  | some r => cases hx : s.recs[r]? <;> simp [detachPrev, lastOf, hr, hx]

@[simp] theorem detachPrev_pins (s : St) : (detachPrev s).1.insts.map pI = s.insts.map pI := by
  cases hr : s.routine with
  | none => simp [detachPrev, hr]
  | some r => cases hx : s.recs[r]? <;> simp [detachPrev, hr, hx]

@[simp] theorem cancelOpt_ctx (s : St) (o : Option Nat) : (cancelOpt s o).ctx = s.ctx := by
  cases o with
  | none => rfl
  | some n => simp only [cancelOpt, cancelInst]; split <;> rfl

@[simp] theorem detachPrev_ctx (s : St) : (detachPrev s).1.ctx = s.ctx := by
  cases hr : s.routine with
  | none => simp [detachPrev, hr]
  | some r => cases hx : s.recs[r]? <;> simp [detachPrev, hr, hx]

@[simp] theorem detachPrev_routine (s : St) : (detachPrev s).1.routine = none := by
  cases hr : s.routine with
  | none => simp [detachPrev, hr]
  | some r => cases hx : s.recs[r]? <;> simp [detachPrev, hr, hx]

@[simp] theorem detachPrev_recs_len (s : St) : (detachPrev s).1.recs.length = s.recs.length := by
  cases hr : s.routine with
  | none => simp [detachPrev, hr]
  | some r => cases hx : s.recs[r]? <;> simp [detachPrev, hr, hx]

@[simp] theorem startSkips_fresh (s : St) (f arg : Nat) (e : Option Nat) :
    startSkips s { fn := f, arg := arg, exitedCh := e } false = false := by
  simp [startSkips]

@[simp] theorem detachPrev_cleared (s : St) : (detachPrev s).1.cleared = none := by
  cases hr : s.routine with
  | none => simp [detachPrev, hr]
  | some r => cases hx : s.recs[r]? <;> simp [detachPrev, hr, hx]

/-- `setRoutineLocked`: a new routine is told to wait on `last`; clearing the routine keeps `last` in
`clearedExitedCh` (fix 3b21148 of D16) -/
theorem setRoutineLocked_shape (s : St) (f arg : Nat) : Shape s (setRoutineLocked s f arg).1 := by
  have hdr := detachPrev_routine (normCtx s)
  have hpch : (detachPrev (normCtx s)).2.1 = lastOf s := by rw [detachPrev_pch]; simp
  simp only [setRoutineLocked]
  split
  · split
    · apply Shape.bcast
      apply start_shape s _ _ _ _ false { fn := f, arg := arg }
      · simp
      · rfl
      · simp
      · exact hpch
      · simp
    · refine .same (by simp) ?_
      simp [lastOf, hpch]
  · split
    · exact .same (by simp) (by simp [lastOf, hdr, hpch])
    · exact .same (by simp) (by simp [lastOf, hdr, hpch])

/-! ## per-record invariant -/

structure RecInv (s : St) (r : Nat) (x : Rec) : Prop where
  /-- the record's exit channel is its current instance's, or already cleared -/
  j1 : ∀ n, x.rctx = some n → x.exitedCh = some n ∨ x.exitedCh = none
  /-- the cancel function belongs to the current instance -/
  k2 : ∀ n, x.cancelOf = some n → x.rctx = some n
  /-- the current instance exists and points back -/
  k5 : ∀ n, x.rctx = some n → ∃ y, s.insts[n]? = some y ∧ y.rid = r
  /-- a recorded failure belongs to an instance that has exited -/
  kx : (x.err ≠ none ∨ x.exited = true) → ∀ n, x.rctx = some n → ∃ y, s.insts[n]? = some y ∧ y.st = .closed
  /-- success is recorded together with the exit -/
  ks : x.success = true → x.exited = true

def AllRec (s : St) : Prop := ∀ r x, s.recs[r]? = some x → RecInv s r x

/-- what a critical section may do to an existing instance: cancel it -/
def Inst.le (y y' : Inst) : Prop :=
  y'.rid = y.rid ∧ y'.waitOn = y.waitOn ∧ y'.root = y.root ∧ y'.st = y.st ∧ y'.out = y.out ∧
  y'.born = y.born ∧ (y.cancelled = true → y'.cancelled = true)

theorem Inst.le_refl (y : Inst) : y.le y := ⟨rfl, rfl, rfl, rfl, rfl, rfl, id⟩

theorem Inst.le_trans {a b c : Inst} (h1 : a.le b) (h2 : b.le c) : a.le c := by
  obtain ⟨a1, a2, a3, a4, a5, a7, a8⟩ := h1
  obtain ⟨b1, b2, b3, b4, b5, b7, b8⟩ := h2
  exact ⟨b1.trans a1, b2.trans a2, b3.trans a3, b4.trans a4, b5.trans a5, b7.trans a7,
    fun h => b8 (a8 h)⟩

/-- instances are only appended; existing ones keep their identity and program counter -/
def InstsExt (s s' : St) : Prop :=
  ∀ (n : Nat) (y : Inst), s.insts[n]? = some y → ∃ y' : Inst, s'.insts[n]? = some y' ∧ y.le y'

theorem InstsExt.refl (s : St) : InstsExt s s := fun _ y h => ⟨y, h, y.le_refl⟩

theorem InstsExt.of_eq {s s' : St} (h : s'.insts = s.insts) : InstsExt s s' := by
  intro n y hy; exact ⟨y, by rw [h]; exact hy, y.le_refl⟩

theorem InstsExt.trans {a b c : St} (h1 : InstsExt a b) (h2 : InstsExt b c) : InstsExt a c := by
  intro n y hy
  obtain ⟨y1, g1, g2⟩ := h1 n y hy
  obtain ⟨y2, f1, f2⟩ := h2 n y1 g1
  exact ⟨y2, f1, Inst.le_trans g2 f2⟩

theorem InstsExt.len {s s' : St} (h : InstsExt s s') : s.insts.length ≤ s'.insts.length := by
  rcases Nat.lt_or_ge s'.insts.length s.insts.length with hlt | hge
  · have hl : s'.insts.length < s.insts.length := hlt
    obtain ⟨y', h1, _⟩ := h s'.insts.length (s.insts[s'.insts.length]) (List.getElem?_eq_getElem hl)
    have := get_lt h1; omega
  · exact hge

theorem RecInv.mono {s s' : St} {r : Nat} {x : Rec} (h : RecInv s r x) (he : InstsExt s s') : RecInv s' r x := by
  refine ⟨h.j1, h.k2, ?_, ?_, h.ks⟩
  · intro n hn
    obtain ⟨y, hy, hr⟩ := h.k5 n hn
    obtain ⟨y', h1, h2⟩ := he n y hy
    exact ⟨y', h1, h2.1.trans hr⟩
  · intro he' n hn
    obtain ⟨y, hy, hc⟩ := h.kx he' n hn
    obtain ⟨y', h1, h2⟩ := he n y hy
    exact ⟨y', h1, by rw [h2.2.2.2.1]; exact hc⟩

theorem instsExt_set (s : St) (n : Nat) (x y : Inst) (hx : s.insts[n]? = some x) (hle : x.le y) :
    InstsExt s { s with insts := s.insts.set n y } := by
  intro m z hz
  have hlt := get_lt hx
  by_cases h : n = m
  · subst h
    rw [hx] at hz; cases hz
    exact ⟨y, by simp [hlt], hle⟩
  · exact ⟨z, by simp [List.getElem?_set, h, hz], z.le_refl⟩

theorem instsExt_cancelInst (s : St) (n : Nat) : InstsExt s (cancelInst s n) := by
  unfold cancelInst
  split
  · rename_i x hx; exact instsExt_set s n x _ hx ⟨rfl, rfl, rfl, rfl, rfl, rfl, fun _ => rfl⟩
  · exact InstsExt.refl s

theorem instsExt_cancelOpt (s : St) (o : Option Nat) : InstsExt s (cancelOpt s o) := by
  cases o with
  | none => exact InstsExt.refl s
  | some n => exact instsExt_cancelInst s n

theorem instsExt_append (s : St) (x : Inst) : InstsExt s { s with insts := s.insts ++ [x] } := by
  intro m z hz
  exact ⟨z, by rw [List.getElem?_append_left (get_lt hz)]; exact hz, z.le_refl⟩

/-- a state that differs from `s` only outside the tables of instances and records -/
theorem AllRec.of_eq {s s' : St} (h : AllRec s) (h1 : s'.recs = s.recs) (h2 : InstsExt s s') : AllRec s' := by
  intro r x hx; rw [h1] at hx; exact (h r x hx).mono h2

theorem AllRec.set {s : St} (h : AllRec s) (r : Nat) (y : Rec) (hy : RecInv s r y) :
    AllRec { s with recs := s.recs.set r y } := by
  intro q x hx
  simp only [List.getElem?_set] at hx
  by_cases hq : r = q
  · subst hq
    by_cases hlt : r < s.recs.length
    · simp [hlt] at hx; subst hx; exact ⟨hy.j1, hy.k2, hy.k5, hy.kx, hy.ks⟩
    · simp [hlt] at hx
  · simp [hq] at hx; have := h q x hx; exact ⟨this.j1, this.k2, this.k5, this.kx, this.ks⟩

theorem AllRec.append {s : St} (h : AllRec s) (y : Rec) (hy : RecInv s s.recs.length y) :
    AllRec { s with recs := s.recs ++ [y] } := by
  intro q x hx
  by_cases hlt : q < s.recs.length
  · rw [List.getElem?_append_left hlt] at hx; have := h q x hx; exact ⟨this.j1, this.k2, this.k5, this.kx, this.ks⟩
  · simp only [List.getElem?_append, hlt, if_false] at hx
    have hq : q = s.recs.length := by
      rcases Nat.lt_or_ge (q - s.recs.length) 1 with h1 | h1
      · omega
      · have : [y][q - s.recs.length]? = none := List.getElem?_eq_none (by simpa using h1)
        rw [this] at hx; cases hx
    subst hq; simp at hx; subst hx; exact ⟨hy.j1, hy.k2, hy.k5, hy.kx, hy.ks⟩

theorem allRec_stopRec {s : St} (h : AllRec s) (r : Nat) : AllRec (stopRec s r) := by
  unfold stopRec
  split
  · rename_i x hx
    have he : InstsExt s (killTimer (cancelOpt s x.cancelOf) x.retry) := by
      intro n y hy
      obtain ⟨y', h1, h2⟩ := instsExt_cancelOpt s x.cancelOf n y hy
      exact ⟨y', by simpa using h1, h2⟩
    have h1 : AllRec (killTimer (cancelOpt s x.cancelOf) x.retry) := h.of_eq (by simp) he
    apply h1.set
    exact ⟨by intro n hn; simp [Rec.stopped] at hn, by intro n hn; simp [Rec.stopped] at hn,
           by intro n hn; simp [Rec.stopped] at hn, by intro _ n hn; simp [Rec.stopped] at hn, (h r x hx).ks⟩
  · exact h

theorem instsExt_stopRec (s : St) (r : Nat) : InstsExt s (stopRec s r) := by
  unfold stopRec
  split
  · rename_i x hx
    intro n y hy
    obtain ⟨y', h1, h2⟩ := instsExt_cancelOpt s x.cancelOf n y hy
    exact ⟨y', by simpa using h1, h2⟩
  · exact InstsExt.refl s

theorem allRec_startRec {s : St} (h : AllRec s) (r c : Nat) (w : Option Nat) (force : Bool) :
    AllRec (startRec s r c w force) := by
  unfold startRec
  split
  · exact h
  · rename_i x hx
    split
    · exact h
    · have h1 := allRec_stopRec h r
      have he := instsExt_append (stopRec s r) { rid := r, root := c, waitOn := w, born := s.croots.contains c }
      have h2 : AllRec { (stopRec s r) with insts := (stopRec s r).insts ++
          [{ rid := r, root := c, waitOn := w, born := s.croots.contains c }] } := h1.of_eq rfl he
      apply h2.set
      refine ⟨?_, ?_, ?_, ?_, by intro h0; simp at h0⟩
      · intro n hn; left; simpa using hn
      · intro n hn; simpa using hn
      · intro n hn
        simp at hn; subst hn
        refine ⟨{ rid := r, root := c, waitOn := w, born := s.croots.contains c }, ?_, rfl⟩
        simp
      · intro he; simp at he

theorem instsExt_startRec (s : St) (r c : Nat) (w : Option Nat) (force : Bool) :
    InstsExt s (startRec s r c w force) := by
  unfold startRec
  split
  · exact InstsExt.refl s
  · split
    · exact InstsExt.refl s
    · exact (instsExt_stopRec s r).trans (by
        intro m z hz
        exact ⟨z, by rw [List.getElem?_append_left (get_lt hz)]; exact hz, z.le_refl⟩)

/-- a critical section: keeps instances (up to cancellation, appends) and the per-record invariant -/
def CSOK (s s' : St) : Prop := InstsExt s s' ∧ (AllRec s → AllRec s')

theorem CSOK.refl (s : St) : CSOK s s := ⟨InstsExt.refl s, id⟩
theorem CSOK.trans {a b c : St} (h1 : CSOK a b) (h2 : CSOK b c) : CSOK a c :=
  ⟨h1.1.trans h2.1, fun h => h2.2 (h1.2 h)⟩
theorem CSOK.of_eq {s s' : St} (h1 : s'.recs = s.recs) (h2 : s'.insts = s.insts) : CSOK s s' :=
  ⟨InstsExt.of_eq h2, fun h => h.of_eq h1 (InstsExt.of_eq h2)⟩

theorem csok_stopRec (s : St) (r : Nat) : CSOK s (stopRec s r) := ⟨instsExt_stopRec s r, fun h => allRec_stopRec h r⟩
theorem csok_startRec (s : St) (r c : Nat) (w : Option Nat) (f : Bool) : CSOK s (startRec s r c w f) :=
  ⟨instsExt_startRec s r c w f, fun h => allRec_startRec h r c w f⟩
theorem csok_cancelOpt (s : St) (o : Option Nat) : CSOK s (cancelOpt s o) :=
  ⟨instsExt_cancelOpt s o, fun h => h.of_eq (by simp) (instsExt_cancelOpt s o)⟩
theorem csok_normCtx (s : St) : CSOK s (normCtx s) := CSOK.of_eq (by simp) (by simp)
theorem csok_bcast (s : St) : CSOK s s.bcastNow := CSOK.of_eq rfl rfl

/-- replacing one record by one with the same current instance, possibly without cancel function / channel -/
theorem csok_set (s : St) (r : Nat) (x y : Rec) (hx : s.recs[r]? = some x)
    (h1 : y.rctx = x.rctx)
    (h2 : y.cancelOf = x.cancelOf ∨ y.cancelOf = none)
    (h3 : y.exitedCh = x.exitedCh ∨ y.exitedCh = none)
    (h4 : (y.err = x.err ∧ y.exited = x.exited) ∨ ∀ n, y.rctx = some n → ∃ z, s.insts[n]? = some z ∧ z.st = .closed)
    (h5 : (y.success = x.success ∧ y.exited = x.exited) ∨ y.exited = true := by exact Or.inl ⟨rfl, rfl⟩) :
    CSOK s { s with recs := s.recs.set r y } := by
  refine ⟨InstsExt.of_eq rfl, fun h => h.set r y ?_⟩
  have hr := h r x hx
  refine ⟨?_, ?_, ?_, ?_, ?_⟩
  rotate_left 4
  · intro hs
    rcases h5 with e | e
    · rw [e.2]; exact hr.ks (e.1 ▸ hs)
    · exact e
  rotate_left 3
  · intro he n hn
    rcases h4 with e | e
    · rcases he with he | he
      · exact hr.kx (Or.inl (e.1 ▸ he)) n (h1 ▸ hn)
      · exact hr.kx (Or.inr (e.2 ▸ he)) n (h1 ▸ hn)
    · exact e n hn
  · intro n hn
    rcases h3 with e | e
    · rw [e]; exact hr.j1 n (h1 ▸ hn)
    · exact Or.inr e
  · intro n hn
    rcases h2 with e | e
    · rw [h1]; exact hr.k2 n (e ▸ hn)
    · rw [e] at hn; cases hn
  · intro n hn; exact hr.k5 n (h1 ▸ hn)

theorem csok_detachPrev (s : St) : CSOK s (detachPrev s).1 := by
  cases hr : s.routine with
  | none => simp only [detachPrev, hr]; exact CSOK.of_eq rfl rfl
  | some r =>
    cases hx : s.recs[r]? with
    | none => simp only [detachPrev, hr, hx]; exact CSOK.of_eq rfl rfl
    | some x =>
      simp only [detachPrev, hr, hx]
      refine (csok_cancelOpt s x.cancelOf).trans ?_
      have hx' : (cancelOpt s x.cancelOf).recs[r]? = some x := by simpa using hx
      exact (csok_set _ r x { x with cancelOf := none } hx' rfl (Or.inr rfl) (Or.inl rfl) (Or.inl ⟨rfl, rfl⟩)).trans
        (CSOK.of_eq rfl rfl)

theorem csok_setContextCS (s : St) (c : Nat) (restart : Bool) : CSOK s (setContextCS s c restart).1 := by
  simp only [setContextCS]
  split
  · exact CSOK.refl s
  · split
    · exact CSOK.of_eq rfl rfl
    · split
      · exact CSOK.of_eq rfl rfl
      · split
        · exact CSOK.of_eq rfl rfl
        · split
          · exact CSOK.of_eq rfl rfl
          rename_i r _ _ rr _ _ _
          have h0 : CSOK s { s with ctx := c } := CSOK.of_eq rfl rfl
          split
          · exact ((h0.trans (csok_stopRec _ r)).trans (csok_startRec _ r c rr.exitedCh false)).trans (csok_bcast _)
          · exact (h0.trans (csok_stopRec _ r)).trans (csok_bcast _)

theorem csok_restartCS (s : St) : CSOK s (restartCS s).1 := by
  simp only [restartCS]
  split
  · exact csok_normCtx s
  · rename_i r hr
    split
    · exact csok_normCtx s
    · rename_i x hx
      have hx' : (cancelOpt (normCtx s) x.cancelOf).recs[r]? = some x := by simpa using hx
      have h1 : CSOK s (cancelOpt (normCtx s) x.cancelOf) := (csok_normCtx s).trans (csok_cancelOpt _ _)
      split
      · exact h1.trans (csok_set _ r x { x with cancelOf := none } hx' rfl (Or.inr rfl) (Or.inl rfl) (Or.inl ⟨rfl, rfl⟩))
      · refine (h1.trans ?_).trans (csok_bcast _)
        have h2 := csok_set _ r x { x with cancelOf := none, exitedCh := none } hx' rfl (Or.inr rfl) (Or.inr rfl) (Or.inl ⟨rfl, rfl⟩)
        refine CSOK.trans ?_ (csok_startRec _ r _ x.exitedCh true)
        simpa using h2

theorem csok_appendRec (s : St) (y : Rec) (h1 : y.rctx = none) (h2 : y.cancelOf = none) (rt : Option Nat)
    (h3 : y.success = false := by rfl) :
    CSOK s { s with recs := s.recs ++ [y], routine := rt } := by
  refine ⟨InstsExt.of_eq rfl, fun h => ?_⟩
  have hy : RecInv s s.recs.length y := by
    refine ⟨?_, ?_, ?_, ?_, by intro h0; rw [h3] at h0; cases h0⟩
    · intro n hn; rw [h1] at hn; cases hn
    · intro n hn; rw [h2] at hn; cases hn
    · intro n hn; rw [h1] at hn; cases hn
    · intro _ n hn; rw [h1] at hn; cases hn
  have : AllRec { s with recs := s.recs ++ [y] } := h.append y hy
  exact this.of_eq rfl (InstsExt.of_eq rfl)

theorem csok_setRoutineLocked (s : St) (f arg : Nat) : CSOK s (setRoutineLocked s f arg).1 := by
  have hd : CSOK s (detachPrev (normCtx s)).1 := (csok_normCtx s).trans (csok_detachPrev _)
  simp only [setRoutineLocked]
  split
  · split
    · refine ((hd.trans ?_).trans (csok_startRec _ _ _ _ false)).trans (csok_bcast _)
      exact csok_appendRec _ { fn := f, arg := arg } rfl rfl _
    · exact (hd.trans (csok_appendRec _ { fn := f, arg := arg, exitedCh := (detachPrev (normCtx s)).2.1 } rfl rfl _)).trans
        (csok_bcast _)
  · split
    · refine (hd.trans ?_).trans (csok_bcast _)
      exact CSOK.of_eq rfl rfl
    · exact hd.trans (CSOK.of_eq rfl rfl)

theorem csok_updateStateRoutine (s : St) : CSOK s (updateStateRoutine s).1 := by
  simp only [updateStateRoutine]; exact csok_setRoutineLocked s _ _

theorem csok_setStateCS (s : St) (cmp v : Nat) : CSOK s (setStateCS s cmp v).1 := by
  simp only [setStateCS]
  split
  · dsimp only
    exact (CSOK.of_eq (s := s) (s' := { s with sval := v }) rfl rfl).trans (csok_updateStateRoutine { s with sval := v })
  · exact CSOK.refl s

theorem csok_apiCS (s : St) (cf : Cfg) (op : Op) (r : St × Res × Option Nat) (h : apiCS s cf op = some r) :
    CSOK s r.1 := by
  cases op with
  | setContext c restart => simp [apiCS] at h; subst h; exact csok_setContextCS s c restart
  | setRoutine f =>
    simp only [apiCS] at h
    split at h
    · cases h
    · simp at h; subst h; exact csok_setRoutineLocked s f 0
  | restart => simp [apiCS] at h; subst h; exact csok_restartCS s
  | setState v =>
    simp only [apiCS] at h
    split at h
    · cases h
    · simp at h; subst h; exact csok_setStateCS s cf.cmp v
  | setStateRoutine f =>
    simp only [apiCS] at h
    split at h
    · cases h
    · simp at h; subst h
      dsimp only
      exact (CSOK.of_eq (s := s) (s' := { s with sfn := f }) rfl rfl).trans (csok_updateStateRoutine { s with sfn := f })
  | swap k =>
    simp only [apiCS] at h
    split at h
    · cases h
    · split at h
      · split at h
        · simp only [Option.some.injEq] at h; subst h; exact csok_setStateCS s cf.cmp _
        · simp only [Option.some.injEq] at h; subst h; exact CSOK.refl s
      · simp at h; subst h; exact CSOK.refl s
  | getState =>
    simp only [apiCS] at h
    split at h
    · cases h
    · simp at h; subst h; exact CSOK.refl s
  | waitExited _ => simp [apiCS] at h

theorem setRoutineLocked_wr (s : St) (f arg : Nat) : (setRoutineLocked s f arg).2.1 = lastOf s := by
  simp only [setRoutineLocked]
  split
  · split <;> simp [detachPrev_pch]
  · split <;> simp [detachPrev_pch]

theorem Shape.of_base {s s0 s' : St} (h : Shape s0 s') (h1 : s0.insts = s.insts) (h2 : lastOf s0 = lastOf s) :
    Shape s s' := by
  cases h with
  | same a b => exact .same (by rw [a, h1]) (by rw [b, h2])
  | spawn a b => exact .spawn (by rw [a, h1, h2]) (by rw [b, h1])

theorem apiCS_shape (s : St) (cf : Cfg) (op : Op) (r : St × Res × Option Nat) (h : apiCS s cf op = some r) :
    Shape s r.1 := by
  cases op with
  | setContext c restart => simp [apiCS] at h; subst h; exact setContextCS_shape s c restart
  | setRoutine f =>
    simp only [apiCS] at h
    split at h
    · cases h
    · simp at h; subst h; exact setRoutineLocked_shape s f 0
  | restart => simp [apiCS] at h; subst h; exact restartCS_shape s
  | setState v =>
    simp only [apiCS] at h
    split at h
    · cases h
    · simp at h; subst h
      simp only [setStateCS]
      split
      · simp only [updateStateRoutine]
        exact (setRoutineLocked_shape { s with sval := v } _ _).of_base rfl rfl
      · exact .same rfl rfl
  | setStateRoutine f =>
    simp only [apiCS] at h
    split at h
    · cases h
    · simp at h; subst h
      simp only [updateStateRoutine]
      exact (setRoutineLocked_shape { s with sfn := f } _ _).of_base rfl rfl
  | swap k =>
    simp only [apiCS] at h
    split at h
    · cases h
    · split at h
      · split at h
        · simp only [Option.some.injEq] at h; subst h
          rename_i n _
          simp only [setStateCS]
          split
          · simp only [updateStateRoutine]
            exact (setRoutineLocked_shape { s with sval := n } _ _).of_base rfl rfl
          · exact .same rfl rfl
        · simp only [Option.some.injEq] at h; subst h; exact .same rfl rfl
      · simp at h; subst h; exact .same rfl rfl
  | getState =>
    simp only [apiCS] at h
    split at h
    · cases h
    · simp at h; subst h; exact .same rfl rfl
  | waitExited _ => simp [apiCS] at h

/-! ## instance events on the projection -/

theorem proj_get (s : St) (n : Nat) (x : Inst) (hx : s.insts[n]? = some x) : (proj s).insts[n]? = some (pI x) := by
  simp [proj, hx]

theorem isClosed_proj (s : St) (p : Nat) : Chain.isClosed (proj s) p = instClosed s p := by
  unfold Chain.isClosed instClosed
  cases h : s.insts[p]? with
  | none => simp [proj, h]
  | some x => cases hx : x.st <;> simp [proj, h, pI, pst, hx] <;> decide

theorem predClosed_proj (s : St) (x : Inst) : Chain.predClosed (proj s) (pI x) = predClosed s x := by
  unfold Chain.predClosed predClosed
  cases hw : x.waitOn with
  | none => simp [pI, hw]
  | some p => simp [pI, hw, isClosed_proj]

theorem proj_setInst (s : St) (n : Nat) (y : Inst) :
    proj (setInst s n y) = { (proj s) with insts := (proj s).insts.set n (pI y) } := by
  simp [proj, setInst, lastOf, List.map_set]

/-- one instance moves along the chain -/
theorem steps_move (s : St) (n : Nat) (x y : Inst) (hx : s.insts[n]? = some x) (hw : y.waitOn = x.waitOn)
    (e : Chain.Ev) (he : Chain.step (proj s) e = some (Chain.setSt (proj s) n (pI x) (pst y.st))) :
    Steps (proj s) (proj (setInst s n y)) := by
  refine Steps.one e ?_
  rw [he, proj_setInst]
  simp [Chain.setSt, pI, hw]

@[simp] theorem setCall_insts (s : St) (a : Nat) (c : Call) : (setCall s a c).insts = s.insts := rfl
@[simp] theorem setCall_recs (s : St) (a : Nat) (c : Call) : (setCall s a c).recs = s.recs := rfl
@[simp] theorem setCall_routine (s : St) (a : Nat) (c : Call) : (setCall s a c).routine = s.routine := rfl
@[simp] theorem proj_setCall (s : St) (a : Nat) (c : Call) : proj (setCall s a c) = proj s := rfl

theorem steps_of_proj_eq {s s' : St} (h : proj s' = proj s) : Steps (proj s) (proj s') := by
  rw [h]; exact Steps.refl _

theorem waitSample_proj (s : St) (rinr : Bool) : proj (waitSample s rinr).1 = proj s := by
  simp only [waitSample, proj]
  simp

theorem csok_waitSample (s : St) (rinr : Bool) : CSOK s (waitSample s rinr).1 := by
  simp only [waitSample]; exact csok_normCtx s

theorem get_set_self' {α : Type} {l : List α} {i : Nat} (v : α) (h : i < l.length) : (l.set i v)[i]? = some v := by
  simp [h]

theorem timerBody_shape (s : St) (t r : Nat) : Shape s (timerBody s t r) := by
  simp only [timerBody]
  apply Shape.bcast
  split
  · rename_i x hx
    split
    · rename_i hc
      have hr : s.routine = some r := by
        have : (s.routine == some r) = true := by simp only [Bool.and_eq_true] at hc; exact hc.1.2
        simpa using this
      exact start_shape s _ r s.ctx x.exitedCh true { x with retry := none } rfl hr
        (get_set_self' _ (get_lt hx)) (lastOf_of hr hx).symm (by simp)
    · exact .same rfl rfl
  · exact .same rfl rfl

theorem csok_timerBody (s : St) (t r : Nat) : CSOK s (timerBody s t r) := by
  simp only [timerBody]
  refine CSOK.trans ?_ (csok_bcast _)
  split
  · rename_i x hx
    split
    · exact (csok_set s r x { x with retry := none } hx rfl (Or.inl rfl) (Or.inl rfl) (Or.inl ⟨rfl, rfl⟩)).trans (csok_startRec _ _ _ _ _)
    · exact CSOK.refl s
  · exact CSOK.refl s

theorem instsExt_setInst (s : St) (n : Nat) (x y : Inst) (hx : s.insts[n]? = some x) (hle : x.le y) :
    InstsExt s (setInst s n y) := instsExt_set s n x y hx hle

theorem csok_setInst (s : St) (n : Nat) (x y : Inst) (hx : s.insts[n]? = some x) (hle : x.le y) :
    CSOK s (setInst s n y) :=
  ⟨instsExt_setInst s n x y hx hle, fun h => h.of_eq rfl (instsExt_setInst s n x y hx hle)⟩

theorem csok_killTimer (s : St) (o : Option Nat) : CSOK s (killTimer s o) := CSOK.of_eq (by simp) (by simp)

/-- the part of the final critical section that touches the record table -/
theorem record_core (s S : St) (n : Nat) (x : Inst) (r y : Rec)
    (hx : s.insts[n]? = some x) (hc : x.st = .closed)
    (hS : CSOK s S) (hpr : proj S = proj s) (hrt : S.routine = s.routine) (hrecs : S.recs = s.recs)
    (hclr : S.cleared = s.cleared)
    (hr : s.recs[x.rid]? = some r) (hrc : r.rctx = some n)
    (hy1 : y.rctx = r.rctx) (hy2 : y.cancelOf = r.cancelOf) (hy3 : y.exitedCh = none) (hy4 : y.exited = true)
    (S' : St) (hS'1 : S'.insts = S.insts) (hS'2 : S'.recs = S.recs.set x.rid y) (hS'3 : S'.routine = S.routine)
    (hS'4 : S'.cleared = S.cleared) :
    CSOK s S' ∧ (AllRec s → Steps (proj s) (proj S')) := by
  have hr' : S.recs[x.rid]? = some r := by rw [hrecs]; exact hr
  have hxS : ∃ z, S.insts[n]? = some z ∧ z.st = .closed := by
    obtain ⟨z, hz, hle⟩ := hS.1 n x hx
    exact ⟨z, hz, by rw [hle.2.2.2.1]; exact hc⟩
  have hset := csok_set S x.rid r y hr' hy1 (Or.inl hy2) (Or.inr hy3)
    (Or.inr (by intro m hm; rw [hy1, hrc] at hm; cases hm; exact hxS)) (Or.inr hy4)
  have hfin : CSOK { S with recs := S.recs.set x.rid y } S' := CSOK.of_eq hS'2 hS'1
  refine ⟨(hS.trans hset).trans hfin, fun ha => ?_⟩
  -- projection: the instances are unchanged; `last` is cleared iff this record is the container's
  have hins : (proj S').insts = (proj s).insts := by
    have : (proj S).insts = (proj s).insts := by rw [hpr]
    simpa [proj, hS'1] using this
  by_cases hcur : s.routine = some x.rid
  · have hl' : lastOf S' = none := by
      rw [lastOf_eq, hS'3, hrt, hcur]
      simp [hS'2, get_lt hr', hy3]
    have hl : lastOf s = r.exitedCh := lastOf_of hcur hr
    rcases (ha x.rid r hr).j1 n hrc with e | e
    · -- forget the (closed) channel
      refine Steps.one .forget ?_
      have hcl : Chain.isClosed (proj s) n = true := by
        rw [isClosed_proj]; simp [instClosed, hx, hc]
      have : (proj s).last = some n := by simp [proj, hl, e]
      have hpS' : proj S' = { (proj s) with last := none } := by
        simp only [proj] at hins ⊢; rw [hins, hl']
      simp only [Chain.step, this, hcl, if_true, hpS']
    · apply steps_of_proj_eq
      simp only [proj] at hins ⊢
      rw [hins, hl', hl, e]
  · apply steps_of_proj_eq
    have hl' : lastOf S' = lastOf s := by
      apply lastOf_congr (by rw [hS'3, hrt]) ?_ (by rw [hS'4, hclr])
      intro q hq
      have hne : ¬ x.rid = q := fun e => hcur (e ▸ hq)
      simp [hS'2, hrecs, List.getElem?_set, hne]
    simp only [proj] at hins ⊢
    rw [hins, hl']

theorem recordCS_ok (s s' : St) (cf : Cfg) (n : Nat) (x : Inst) (dur : Bool)
    (hx : s.insts[n]? = some x) (hc : x.st = .closed) (h : recordCS s cf n x dur = some s') :
    CSOK s s' ∧ (AllRec s → Steps (proj s) (proj s')) := by
  have hle : x.le { x with recorded := true } := ⟨rfl, rfl, rfl, rfl, rfl, rfl, id⟩
  have h1 := csok_setInst s n x { x with recorded := true } hx hle
  have hp1 : proj (setInst s n { x with recorded := true }) = proj s := by
    rw [proj_setInst]
    simp only [proj]
    congr 1
    apply List.ext_getElem?
    intro i
    simp only [List.getElem?_set, List.getElem?_map]
    by_cases hi : n = i
    · subst hi; simp [get_lt hx, pI, getElem_of_get hx (get_lt hx)]
    · simp [hi]
  simp only [recordCS] at h
  split at h
  · cases h
  · rename_i r hr
    split at h
    · rename_i hrc
      split at h
      · cases h
      · simp only [Option.some.injEq] at h
        subst h
        by_cases hret : cf.retry = true
        · simp only [hret, if_true]
          refine record_core s (killTimer (setInst s n { x with recorded := true }) r.retry) n x r
            { r with err := x.out, success := x.out.isNone, exited := true, exitedCh := none,
                     retry := if dur = true then some (killTimer (setInst s n { x with recorded := true }) r.retry).timers.length else none }
            hx hc
            (h1.trans (csok_killTimer _ _)) ?_ (by simp [setInst]) (by simp [setInst]) (by simp [setInst]) hr hrc rfl rfl rfl rfl _ rfl rfl rfl rfl
          simp only [proj, killTimer_insts, lastOf, killTimer_routine, killTimer_recs, killTimer_cleared]
          exact hp1
        · have hret' : cf.retry = false := by simpa using hret
          simp only [hret', Bool.false_eq_true, if_false]
          refine record_core s (setInst s n { x with recorded := true }) n x r
            { r with err := x.out, success := x.out.isNone, exited := true, exitedCh := none } hx hc
            h1 hp1 rfl rfl rfl hr hrc rfl rfl rfl rfl _ rfl rfl rfl rfl
    · split at h
      · cases h
      · simp only [Option.some.injEq] at h; subst h
        exact ⟨h1, fun _ => steps_of_proj_eq hp1⟩

theorem allRec_setInst {s : St} (h : AllRec s) (n : Nat) (x y : Inst) (hx : s.insts[n]? = some x)
    (hr : y.rid = x.rid) (hcl : x.st = .closed → y.st = .closed := by simp_all) : AllRec (setInst s n y) := by
  intro r z hz
  have hz' : s.recs[r]? = some z := hz
  have g := h r z hz'
  refine ⟨g.j1, g.k2, ?_, ?_, g.ks⟩
  · intro m hm
    obtain ⟨w, hw, hwr⟩ := g.k5 m hm
    by_cases hnm : n = m
    · subst hnm
      rw [hx] at hw; cases hw
      exact ⟨y, by simp [setInst, get_lt hx], hr.trans hwr⟩
    · exact ⟨w, by simp [setInst, List.getElem?_set, hnm, hw], hwr⟩
  · intro he m hm
    obtain ⟨w, hw, hwc⟩ := g.kx he m hm
    by_cases hnm : n = m
    · subst hnm
      rw [hx] at hw; cases hw
      exact ⟨y, by simp [setInst, get_lt hx], hcl hwc⟩
    · exact ⟨w, by simp [setInst, List.getElem?_set, hnm, hw], hwc⟩

/-- events that touch neither instances, records nor the routine pointer -/
theorem allRec_frame {s s' : St} (h : AllRec s) (h1 : s'.recs = s.recs) (h2 : s'.insts = s.insts) : AllRec s' :=
  h.of_eq h1 (InstsExt.of_eq h2)

theorem proj_frame {s s' : St} (h1 : s'.recs = s.recs) (h2 : s'.insts = s.insts) (h3 : s'.routine = s.routine)
    (h4 : s'.cleared = s.cleared) : proj s' = proj s := by
  simp [proj, lastOf, h1, h2, h3, h4]

/-- **Projection lemma**: every event of the routine model maps to zero or more events of the hand-over chain on
the projected slot; and the per-record invariant is kept by every event. -/
theorem step_ok (s s' : St) (e : Ev) (ha : AllRec s) (hs : step s e = some s') :
    AllRec s' ∧ Steps (proj s) (proj s') := by
  cases e with
  | cfg c =>
    simp only [step, stepI] at hs
    split at hs
    · simp at hs; subst hs; exact ⟨allRec_frame ha rfl rfl, steps_of_proj_eq rfl⟩
    · cases hs
  | inv a op =>
    simp only [step, stepI] at hs
    split at hs
    · simp at hs; subst hs; exact ⟨allRec_frame ha rfl rfl, steps_of_proj_eq rfl⟩
    · cases hs
  | cs a =>
    simp only [step, stepI] at hs
    split at hs
    · rename_i cf c hcf hc
      split at hs
      · rename_i hinv
        split at hs
        · -- WaitExited sample section
          split at hs
          · simp at hs; subst hs
            refine ⟨allRec_frame ((csok_waitSample s _).2 ha) rfl rfl, ?_⟩
            apply steps_of_proj_eq
            rw [proj_setCall, waitSample_proj]
          · cases hs
        · split at hs
          · cases hs
          · split at hs
            · rename_i r hr
              simp at hs; subst hs
              refine ⟨allRec_frame ((csok_apiCS s cf _ r hr).2 ha) rfl rfl, ?_⟩
              rw [proj_setCall]
              apply Shape.steps
              exact apiCS_shape s cf _ r hr
            · cases hs
      · cases hs
    · cases hs
  | ret a r =>
    simp only [step, stepI] at hs
    split at hs
    · split at hs
      · simp at hs; subst hs; exact ⟨allRec_frame ha rfl rfl, steps_of_proj_eq rfl⟩
      · split at hs
        · simp at hs; subst hs; exact ⟨allRec_frame ha rfl rfl, steps_of_proj_eq rfl⟩
        · cases hs
    · cases hs
  | wake a =>
    simp only [step, stepI] at hs
    split at hs
    · split at hs
      · split at hs
        · simp at hs; subst hs; exact ⟨allRec_frame ha rfl rfl, steps_of_proj_eq rfl⟩
        · cases hs
      · cases hs
    · cases hs
  | wctx a =>
    simp only [step, stepI] at hs
    split at hs
    · split at hs
      · split at hs
        · simp at hs; subst hs; exact ⟨allRec_frame ha rfl rfl, steps_of_proj_eq rfl⟩
        · cases hs
      · cases hs
    · cases hs
  | envCancel c =>
    simp only [step, stepI] at hs
    split at hs
    · simp at hs; subst hs; exact ⟨allRec_frame ha rfl rfl, steps_of_proj_eq rfl⟩
    · cases hs
  | envDo c =>
    simp only [step, stepI] at hs
    split at hs
    · simp at hs; subst hs; exact ⟨allRec_frame ha rfl rfl, steps_of_proj_eq rfl⟩
    · cases hs
  | envCancelW a =>
    simp only [step, stepI] at hs
    split at hs
    · split at hs
      · simp at hs; subst hs; exact ⟨allRec_frame ha rfl rfl, steps_of_proj_eq rfl⟩
      all_goals cases hs
    · cases hs
  | envErr a e0 =>
    simp only [step, stepI] at hs
    split at hs
    · split at hs
      · simp at hs; subst hs; exact ⟨allRec_frame ha rfl rfl, steps_of_proj_eq rfl⟩
      all_goals cases hs
    · cases hs
  | giveUp n =>
    simp only [step, stepI] at hs
    split at hs
    · rename_i x hx
      split at hs
      · rename_i hg
        split at hs
        · rename_i p hw
          simp at hs; subst hs
          refine ⟨allRec_setInst ha n x _ hx rfl, ?_⟩
          refine steps_move s n x _ hx rfl (.giveUp n) ?_
          simp [Chain.step, proj_get s n x hx, pI, pst, hg.1]
        · rename_i hw
          simp at hs; subst hs
          refine ⟨allRec_setInst ha n x _ hx rfl, ?_⟩
          -- no wait channel and the context already cancelled: give up and drain at once
          refine ⟨[.giveUp n, .drained n], ?_⟩
          have h1 : Chain.step (proj s) (.giveUp n) = some (Chain.setSt (proj s) n (pI x) .draining) := by
            simp [Chain.step, proj_get s n x hx, pI, pst, hg.1]
          have hlt : n < (proj s).insts.length := by simpa [proj] using get_lt hx
          have h2 : Chain.step (Chain.setSt (proj s) n (pI x) .draining) (.drained n) =
              some (Chain.setSt (Chain.setSt (proj s) n (pI x) .draining) n
                { (pI x) with st := .draining } .returned) := by
            simp [Chain.step, Chain.setSt, hlt, Chain.predClosed, pI, hw]
          simp only [Chain.run, h1, Option.bind_some, h2, proj_setInst]
          simp [Chain.setSt, pI, pst]
      · cases hs
    · cases hs
  | drained n =>
    simp only [step, stepI] at hs
    split at hs
    · rename_i x hx
      split at hs
      · rename_i hg
        simp at hs; subst hs
        refine ⟨allRec_setInst ha n x _ hx rfl, ?_⟩
        refine steps_move s n x _ hx rfl (.drained n) ?_
        have := predClosed_proj s x
        simp [Chain.step, proj_get s n x hx, this, hg.2, pst]
        simp [pI, pst, hg.1]
      · cases hs
    · cases hs
  | cbin k n f arg root =>
    simp only [step, stepI] at hs
    split at hs
    · rename_i x hx
      split at hs
      · split at hs
        · rename_i hg
          simp at hs; subst hs
          refine ⟨allRec_frame (allRec_setInst ha n x { x with st := .running } hx rfl) rfl rfl, ?_⟩
          have hpe : proj { (setInst s n { x with st := .running }) with ent := s.ent ++ [n] } =
              proj (setInst s n { x with st := .running }) := rfl
          rw [hpe]
          refine steps_move s n x _ hx rfl (.proceed n) ?_
          have := predClosed_proj s x
          simp [Chain.step, proj_get s n x hx, this, hg.2.1, pst]
          simp [pI, pst, hg.1]
        · cases hs
      · cases hs
    · cases hs
  | cbout k o =>
    simp only [step, stepI] at hs
    split at hs
    · rename_i n hn
      split at hs
      · rename_i x hx
        split at hs
        · rename_i hg
          simp at hs; subst hs
          refine ⟨allRec_setInst ha n x _ hx rfl, ?_⟩
          refine steps_move s n x _ hx rfl (.ret n) ?_
          simp [Chain.step, proj_get s n x hx, pst]
          simp [pI, pst, hg]
        · cases hs
      · cases hs
    · cases hs
  | closeExit n =>
    simp only [step, stepI] at hs
    split at hs
    · rename_i x hx
      split at hs
      · rename_i hg
        simp at hs; subst hs
        refine ⟨allRec_setInst ha n x _ hx rfl, ?_⟩
        refine steps_move s n x _ hx rfl (.close n) ?_
        simp [Chain.step, proj_get s n x hx, pst]
        simp [pI, pst, hg]
      · cases hs
    · cases hs
  | record n dur =>
    simp only [step, stepI] at hs
    split at hs
    · rename_i cf x _ hx
      split at hs
      · rename_i hg
        have := recordCS_ok s s' cf n x dur hx hg.1 hs
        exact ⟨this.1.2 ha, this.2 ha⟩
      · cases hs
    · cases hs
  | emit o =>
    simp only [step, stepI] at hs
    split at hs
    · split at hs
      · simp at hs; subst hs; exact ⟨allRec_frame ha rfl rfl, steps_of_proj_eq rfl⟩
      · cases hs
    · cases hs
  | fire t =>
    simp only [step, stepI] at hs
    split at hs
    · split at hs
      · simp at hs; subst hs; exact ⟨allRec_frame ha rfl rfl, steps_of_proj_eq rfl⟩
      · cases hs
    · cases hs
  | timerCS t =>
    simp only [step, stepI] at hs
    split at hs
    · rename_i tm htm
      split at hs
      · simp at hs; subst hs
        have hb : CSOK s { s with timers := s.timers.set t { tm with st := .dead } } := CSOK.of_eq rfl rfl
        refine ⟨((hb.trans (csok_timerBody _ t tm.rid)).2 ha), ?_⟩
        exact ((timerBody_shape { s with timers := s.timers.set t { tm with st := .dead } } t tm.rid).of_base rfl rfl).steps
      · cases hs
    · cases hs
  | probeCtx k b =>
    simp only [step, stepI] at hs
    split at hs
    · split at hs
      · simp at hs; subst hs; exact ⟨ha, Steps.refl _⟩
      · cases hs
    · cases hs
  | probeW a b =>
    simp only [step, stepI] at hs
    split at hs
    · split at hs
      · split at hs
        · simp at hs; subst hs; exact ⟨ha, Steps.refl _⟩
        · cases hs
      · cases hs
    · cases hs
  | quiesce p r l =>
    simp only [step] at hs
    split at hs
    · simp at hs; subst hs; exact ⟨ha, Steps.refl _⟩
    · cases hs

/-! ## runs -/

structure Good (s : St) : Prop where
  recs : AllRec s
  chain : Chain.Inv (proj s)

theorem good_init : Good {} := by
  refine ⟨?_, ?_⟩
  · intro r x hx; simp at hx
  · exact Chain.init_inv

theorem allRec_run (s s' : St) (es : List Ev) (h : AllRec s) (hr : model.run s es = some s') : AllRec s' := by
  induction es generalizing s with
  | nil => simp [OLTS.run] at hr; subst hr; exact h
  | cons e es ih =>
    simp only [OLTS.run] at hr
    cases hst : model.step s e with
    | none => simp [hst] at hr
    | some s1 =>
      simp [hst] at hr
      exact ih s1 (step_ok s s1 e h hst).1 hr

theorem good_run (s s' : St) (es : List Ev) (h : Good s) (hr : model.run s es = some s') : Good s' := by
  induction es generalizing s with
  | nil => simp [OLTS.run] at hr; subst hr; exact h
  | cons e es ih =>
    simp only [OLTS.run] at hr
    cases hst : model.step s e with
    | none => simp [hst] at hr
    | some s1 =>
      simp [hst] at hr
      have hk := step_ok s s1 e h.recs hst
      exact ih s1 ⟨hk.1, hk.2.inv h.chain⟩ hr

theorem chain_closed_mono (a b : Chain.Slot) (e : Chain.Ev) (h : Chain.step a e = some b) (n : Nat)
    (hc : Chain.isClosed a n = true) : Chain.isClosed b n = true := by
  have key : ∀ (i : Nat) (x y : Chain.Inst), a.insts[i]? = some x → x.st ≠ .closed →
      Chain.isClosed { a with insts := a.insts.set i y } n = true := by
    intro i x y hx hne
    unfold Chain.isClosed at hc ⊢
    simp only [List.getElem?_set]
    by_cases hin : i = n
    · subst hin; simp [hx] at hc; exact absurd hc hne
    · simpa [hin] using hc
  cases e with
  | spawn => simp [Chain.step] at h; subst h; rw [Chain.isClosed_spawn]; exact hc
  | cancel i =>
    simp only [Chain.step] at h
    split at h
    · rename_i x hx
      simp at h; subst h
      unfold Chain.isClosed at hc ⊢
      simp only [List.getElem?_set]
      by_cases hin : i = n
      · subst hin; simp [hx] at hc; simp [get_lt hx, hc]
      · simpa [hin] using hc
    · cases h
  | proceed i =>
    simp only [Chain.step] at h
    split at h
    · rename_i x hx
      split at h
      · rename_i hg; simp at h; subst h; exact key i x _ hx (by simp [hg.1])
      · cases h
    · cases h
  | giveUp i =>
    simp only [Chain.step] at h
    split at h
    · rename_i x hx
      split at h
      · rename_i hg; simp at h; subst h; exact key i x _ hx (by simp [hg.1])
      · cases h
    · cases h
  | drained i =>
    simp only [Chain.step] at h
    split at h
    · rename_i x hx
      split at h
      · rename_i hg; simp at h; subst h; exact key i x _ hx (by simp [hg.1])
      · cases h
    · cases h
  | ret i =>
    simp only [Chain.step] at h
    split at h
    · rename_i x hx
      split at h
      · rename_i hg; simp at h; subst h; exact key i x _ hx (by simp [hg])
      · cases h
    · cases h
  | close i =>
    simp only [Chain.step] at h
    split at h
    · rename_i x hx
      split at h
      · rename_i hg; simp at h; subst h; exact key i x _ hx (by simp [hg])
      · cases h
    · cases h
  | forget =>
    simp only [Chain.step] at h
    split at h
    · split at h
      · simp at h; subst h; exact hc
      · cases h
    · cases h

theorem steps_closed_mono {a b : Chain.Slot} (h : Steps a b) (n : Nat) (hc : Chain.isClosed a n = true) :
    Chain.isClosed b n = true := by
  obtain ⟨es, h⟩ := h
  induction es generalizing a with
  | nil => simp [Chain.run] at h; subst h; exact hc
  | cons e es ih =>
    simp only [Chain.run] at h
    cases hst : Chain.step a e with
    | none => simp [hst] at h
    | some a1 => simp [hst] at h; exact ih (chain_closed_mono a a1 e hst n hc) h

theorem closed_run (s s' : St) (es : List Ev) (h : AllRec s)
    (hr : model.run s es = some s') (n : Nat) (hc : instClosed s n = true) : instClosed s' n = true := by
  induction es generalizing s with
  | nil => simp [OLTS.run] at hr; subst hr; exact hc
  | cons e es ih =>
    simp only [OLTS.run] at hr
    cases hst : model.step s e with
    | none => simp [hst] at hr
    | some s1 =>
      simp [hst] at hr
      have hk := step_ok s s1 e h hst
      have := steps_closed_mono hk.2 n (by rw [isClosed_proj]; exact hc)
      rw [isClosed_proj] at this
      exact ih s1 hk.1 hr this

/-- the wait channel a call returns is the container's `last` exit channel at its critical section -/
theorem apiCS_wr (s : St) (cf : Cfg) (op : Op) (r : St × Res × Option Nat) (h : apiCS s cf op = some r)
    (p : Nat) (hp : r.2.2 = some p) : lastOf s = some p := by
  cases op with
  | setContext c restart => simp [apiCS] at h; subst h; simp at hp
  | setRoutine f =>
    simp only [apiCS] at h
    split at h
    · cases h
    · simp at h; subst h; rw [← setRoutineLocked_wr s f 0]; exact hp
  | restart => simp [apiCS] at h; subst h; simp at hp
  | setState v =>
    simp only [apiCS] at h
    split at h
    · cases h
    · simp at h; subst h
      simp only [setStateCS] at hp
      split at hp
      · simp only [updateStateRoutine] at hp
        rw [setRoutineLocked_wr] at hp; exact hp
      · simp at hp
  | setStateRoutine f =>
    simp only [apiCS] at h
    split at h
    · cases h
    · simp at h; subst h
      simp only [updateStateRoutine] at hp
      rw [setRoutineLocked_wr] at hp; exact hp
  | swap k =>
    simp only [apiCS] at h
    split at h
    · cases h
    · split at h
      · split at h
        · simp only [Option.some.injEq] at h; subst h
          simp only [setStateCS] at hp
          split at hp
          · simp only [updateStateRoutine] at hp
            rw [setRoutineLocked_wr] at hp; exact hp
          · simp at hp
        · simp only [Option.some.injEq] at h; subst h; simp at hp
      · simp at h; subst h; simp at hp
  | getState =>
    simp only [apiCS] at h
    split at h
    · cases h
    · simp at h; subst h; simp at hp
  | waitExited _ => simp [apiCS] at h

end UtilModel.Routine
