import UtilModel.Routine.ProofsK4
/-!
# routine: the retry link (behind the full C14 restart / retry theorems)

`AllQ`: a record holds a retry timer only after a recorded failure (`retry ≠ none → err ≠ none`), never after a
success, and never when no backoff is configured.
-/
namespace UtilModel.Routine
open UtilModel

def noRetryCfg (s : St) : Prop := ∀ cf, s.cfg = some cf → cf.retry = false

structure Q (s : St) (x : Rec) : Prop where
  q1 : x.success = true → x.retry = none
  q2 : x.retry ≠ none → x.err ≠ none
  q3 : noRetryCfg s → x.retry = none

def AllQ (s : St) : Prop := ∀ (r : Nat) (x : Rec), s.recs[r]? = some x → Q s x

/-- every record of `s'` either holds no retry timer or agrees with the same record of `s` on retry, success, err -/
structure QF (s s' : St) : Prop where
  cf : s'.cfg = s.cfg
  rc : ∀ (q : Nat) (x' : Rec), s'.recs[q]? = some x' →
    x'.retry = none ∨ ∃ x, s.recs[q]? = some x ∧ x'.retry = x.retry ∧ x'.success = x.success ∧ x'.err = x.err

theorem QF.refl (s : St) : QF s s := ⟨rfl, fun _ x' h => Or.inr ⟨x', h, rfl, rfl, rfl⟩⟩

theorem QF.of_recs {s s' : St} (h1 : s'.cfg = s.cfg) (h2 : s'.recs = s.recs) : QF s s' :=
  ⟨h1, fun q x' h => Or.inr ⟨x', by rw [← h2]; exact h, rfl, rfl, rfl⟩⟩

theorem QF.trans {a b c : St} (h1 : QF a b) (h2 : QF b c) : QF a c := by
  refine ⟨h2.cf.trans h1.cf, ?_⟩
  intro q x'' hx''
  rcases h2.rc q x'' hx'' with e | ⟨x', hx', e1, e2, e3⟩
  · exact Or.inl e
  · rcases h1.rc q x' hx' with e | ⟨x, hx, f1, f2, f3⟩
    · exact Or.inl (e1.trans e)
    · exact Or.inr ⟨x, hx, e1.trans f1, e2.trans f2, e3.trans f3⟩

theorem AllQ.transfer {s s' : St} (h : AllQ s) (e : QF s s') : AllQ s' := by
  intro r x' hx'
  rcases e.rc r x' hx' with e0 | ⟨x, hx, e1, e2, e3⟩
  · exact ⟨fun _ => e0, fun hne => absurd e0 hne, fun _ => e0⟩
  · have g := h r x hx
    refine ⟨?_, ?_, ?_⟩
    · intro hs; rw [e1]; exact g.q1 (e2 ▸ hs)
    · intro hne; rw [e3]; exact g.q2 (e1 ▸ hne)
    · intro hn; rw [e1]; apply g.q3; intro cf hcf; exact hn cf (by rw [e.cf]; exact hcf)

/-- replace record `r` by one without retry timer, or with the same retry / success / err -/
theorem qf_set (s : St) (r : Nat) (x y : Rec) (hx : s.recs[r]? = some x)
    (h : y.retry = none ∨ (y.retry = x.retry ∧ y.success = x.success ∧ y.err = x.err)) :
    QF s { s with recs := s.recs.set r y } := by
  refine ⟨rfl, ?_⟩
  intro q x' hx'
  simp only [List.getElem?_set] at hx'
  by_cases hq : r = q
  · subst hq
    simp [get_lt hx] at hx'; subst hx'
    rcases h with e | ⟨e1, e2, e3⟩
    · exact Or.inl e
    · exact Or.inr ⟨x, hx, e1, e2, e3⟩
  · simp [hq] at hx'; exact Or.inr ⟨x', hx', rfl, rfl, rfl⟩

theorem qf_append (s : St) (y : Rec) (hy : y.retry = none) (rt : Option Nat) (cl : Option Nat) :
    QF s { s with recs := s.recs ++ [y], routine := rt, cleared := cl } := by
  refine ⟨rfl, ?_⟩
  intro q x' hx'
  by_cases hlt : q < s.recs.length
  · rw [List.getElem?_append_left hlt] at hx'; exact Or.inr ⟨x', hx', rfl, rfl, rfl⟩
  · simp only [List.getElem?_append, hlt, if_false] at hx'
    rcases Nat.lt_or_ge (q - s.recs.length) 1 with h1 | h1
    · have : q - s.recs.length = 0 := by omega
      rw [this] at hx'; simp at hx'; subst hx'; exact Or.inl hy
    · have : [y][q - s.recs.length]? = none := List.getElem?_eq_none (by simpa using h1)
      rw [this] at hx'; cases hx'

theorem qf_cancelOpt (s : St) (o : Option Nat) : QF s (cancelOpt s o) :=
  QF.of_recs (faeq_cancelOpt s o).cf (by simp)

theorem qf_killTimer (s : St) (o : Option Nat) : QF s (killTimer s o) :=
  QF.of_recs (faeq_killTimer s o).cf (by simp)

theorem qf_stopRec (s : St) (r : Nat) : QF s (stopRec s r) := by
  unfold stopRec
  split
  · rename_i x hx
    refine ((qf_cancelOpt s x.cancelOf).trans (qf_killTimer _ x.retry)).trans ?_
    have hx' : (killTimer (cancelOpt s x.cancelOf) x.retry).recs[r]? = some x := by simpa using hx
    exact qf_set _ r x x.stopped hx' (Or.inl rfl)
  · exact QF.refl s

theorem qf_startRec (s : St) (r c : Nat) (w : Option Nat) (force : Bool) : QF s (startRec s r c w force) := by
  unfold startRec
  split
  · exact QF.refl s
  · rename_i x hx
    split
    · exact QF.refl s
    · refine (qf_stopRec s r).trans ?_
      have hx' : (stopRec s r).recs[r]? = some x.stopped := by simp [stopRec_recs_get, hx]
      have h1 := qf_set (stopRec s r) r x.stopped
        { x.stopped with err := none, success := false, exited := false, exitedCh := some (stopRec s r).insts.length,
                         rctx := some (stopRec s r).insts.length, cancelOf := some (stopRec s r).insts.length } hx'
        (Or.inl rfl)
      exact h1.trans (QF.of_recs rfl rfl)

theorem qf_normCtx (s : St) : QF s (normCtx s) := QF.of_recs (faeq_normCtx s).cf (by simp)
theorem qf_bcast (s : St) : QF s s.bcastNow := QF.of_recs rfl rfl

theorem qf_setContextCS (s : St) (c : Nat) (restart : Bool) : QF s (setContextCS s c restart).1 := by
  simp only [setContextCS]
  split
  · exact QF.refl s
  · split
    · exact QF.of_recs rfl rfl
    · split
      · exact QF.of_recs rfl rfl
      · split
        · exact QF.of_recs rfl rfl
        · split
          · exact QF.of_recs rfl rfl
          rename_i r _ _ rr _ _ _
          have h0 : QF s { s with ctx := c } := QF.of_recs rfl rfl
          split
          · exact ((h0.trans (qf_stopRec _ r)).trans (qf_startRec _ r c rr.exitedCh false)).trans (qf_bcast _)
          · exact (h0.trans (qf_stopRec _ r)).trans (qf_bcast _)

theorem qf_restartCS (s : St) : QF s (restartCS s).1 := by
  simp only [restartCS]
  split
  · exact qf_normCtx s
  · rename_i r hr
    split
    · exact qf_normCtx s
    · rename_i x hx
      have hx' : (cancelOpt (normCtx s) x.cancelOf).recs[r]? = some x := by simpa using hx
      have h1 : QF s (cancelOpt (normCtx s) x.cancelOf) := (qf_normCtx s).trans (qf_cancelOpt _ _)
      split
      · exact h1.trans (qf_set _ r x { x with cancelOf := none } hx' (Or.inr ⟨rfl, rfl, rfl⟩))
      · refine (h1.trans ?_).trans (qf_bcast _)
        have h2 := qf_set _ r x { x with cancelOf := none, exitedCh := none } hx' (Or.inr ⟨rfl, rfl, rfl⟩)
        refine QF.trans ?_ (qf_startRec _ r _ x.exitedCh true)
        simpa using h2

theorem qf_detachPrev (s : St) : QF s (detachPrev s).1 := by
  cases hr : s.routine with
  | none => simp only [detachPrev, hr]; exact QF.of_recs rfl rfl
  | some r =>
    cases hx : s.recs[r]? with
    | none => simp only [detachPrev, hr, hx]; exact QF.of_recs rfl rfl
    | some x =>
      simp only [detachPrev, hr, hx]
      refine (qf_cancelOpt s x.cancelOf).trans ?_
      have hx' : (cancelOpt s x.cancelOf).recs[r]? = some x := by simpa using hx
      exact (qf_set _ r x { x with cancelOf := none } hx' (Or.inr ⟨rfl, rfl, rfl⟩)).trans (QF.of_recs rfl rfl)

theorem qf_setRoutineLocked (s : St) (f arg : Nat) : QF s (setRoutineLocked s f arg).1 := by
  have hd : QF s (detachPrev (normCtx s)).1 := (qf_normCtx s).trans (qf_detachPrev _)
  simp only [setRoutineLocked]
  split
  · split
    · refine ((hd.trans ?_).trans (qf_startRec _ _ _ _ false)).trans (qf_bcast _)
      exact qf_append _ { fn := f, arg := arg } rfl _ _
    · exact (hd.trans (qf_append _ { fn := f, arg := arg, exitedCh := (detachPrev (normCtx s)).2.1 } rfl _ _)).trans
        (qf_bcast _)
  · split
    · refine (hd.trans ?_).trans (qf_bcast _)
      exact QF.of_recs rfl rfl
    · exact hd.trans (QF.of_recs rfl rfl)

theorem qf_updateStateRoutine (s : St) : QF s (updateStateRoutine s).1 := by
  simp only [updateStateRoutine]; exact qf_setRoutineLocked s _ _

theorem qf_setStateCS (s : St) (cmp v : Nat) : QF s (setStateCS s cmp v).1 := by
  simp only [setStateCS]
  split
  · dsimp only
    exact (QF.of_recs (s := s) (s' := { s with sval := v }) rfl rfl).trans (qf_updateStateRoutine { s with sval := v })
  · exact QF.refl s

theorem qf_apiCS (s : St) (cf : Cfg) (op : Op) (r : St × Res × Option Nat) (h : apiCS s cf op = some r) :
    QF s r.1 := by
  cases op with
  | setContext c restart => simp [apiCS] at h; subst h; exact qf_setContextCS s c restart
  | setRoutine f =>
    simp only [apiCS] at h
    split at h
    · cases h
    · simp at h; subst h; exact qf_setRoutineLocked s f 0
  | restart => simp [apiCS] at h; subst h; exact qf_restartCS s
  | setState v =>
    simp only [apiCS] at h
    split at h
    · cases h
    · simp at h; subst h; exact qf_setStateCS s cf.cmp v
  | setStateRoutine f =>
    simp only [apiCS] at h
    split at h
    · cases h
    · simp at h; subst h
      dsimp only
      exact (QF.of_recs (s := s) (s' := { s with sfn := f }) rfl rfl).trans (qf_updateStateRoutine { s with sfn := f })
  | swap k =>
    simp only [apiCS] at h
    split at h
    · cases h
    · split at h
      · split at h
        · simp only [Option.some.injEq] at h; subst h; exact qf_setStateCS s cf.cmp _
        · simp only [Option.some.injEq] at h; subst h; exact QF.refl s
      · simp at h; subst h; exact QF.refl s
  | getState =>
    simp only [apiCS] at h
    split at h
    · cases h
    · simp at h; subst h; exact QF.refl s
  | waitExited _ => simp [apiCS] at h

theorem qf_timerBody (s : St) (t r : Nat) : QF s (timerBody s t r) := by
  simp only [timerBody]
  refine QF.trans ?_ (qf_bcast _)
  split
  · rename_i x hx
    split
    · exact (qf_set s r x { x with retry := none } hx (Or.inl rfl)).trans (qf_startRec _ _ _ _ _)
    · exact QF.refl s
  · exact QF.refl s

/-- the record as the final critical section leaves it -/
def recAfter (r : Rec) (out rt : Option Nat) : Rec :=
  { r with err := out, success := out.isNone, exited := true, exitedCh := none, retry := rt }

theorem allQ_recordCS {s s' : St} (h : AllQ s) (cf : Cfg) (hcf : s.cfg = some cf) (n : Nat) (x : Inst) (dur : Bool)
    (hs : recordCS s cf n x dur = some s') : AllQ s' := by
  have h1 : AllQ (setInst s n { x with recorded := true }) := h.transfer (QF.of_recs rfl rfl)
  simp only [recordCS] at hs
  split at hs
  · cases hs
  · rename_i r hr
    split at hs
    · split at hs
      · cases hs
      · rename_i hguard
        simp only [Option.some.injEq] at hs; subst hs
        have gr := h x.rid r hr
        -- the record after the final section
        have key : ∀ (S : St) (rt : Option Nat), AllQ S → S.cfg = s.cfg →
            (x.out.isNone = true → rt = none) → (rt ≠ none → x.out ≠ none) → (noRetryCfg s → rt = none) →
            ∀ T : St, T.cfg = S.cfg → T.recs = S.recs.set x.rid (recAfter r x.out rt) → AllQ T := by
          intro S rt hS hc a1 a2 a3 T hT1 hT2 q y hy
          rw [hT2] at hy
          simp only [List.getElem?_set] at hy
          by_cases hq : x.rid = q
          · subst hq
            by_cases hlt : x.rid < S.recs.length
            · simp [hlt] at hy; subst hy
              refine ⟨by simpa [recAfter] using a1, by simpa [recAfter] using a2, ?_⟩
              show noRetryCfg T → rt = none
              intro hn; apply a3; intro cf' hcf'; exact hn cf' (by rw [hT1, hc]; exact hcf')
            · simp [hlt] at hy
          · simp [hq] at hy
            have g := hS q y hy
            refine ⟨g.q1, g.q2, ?_⟩
            intro hn; apply g.q3; intro cf' hcf'; exact hn cf' (by rw [hT1]; exact hcf')
        by_cases hret : cf.retry = true
        · simp only [hret, if_true]
          have hS : AllQ (killTimer (setInst s n { x with recorded := true }) r.retry) := h1.transfer (qf_killTimer _ _)
          refine key _ _ hS (qf_killTimer (setInst s n { x with recorded := true }) r.retry).cf ?_ ?_ ?_ _ rfl rfl
          · intro hsucc
            cases dur with
            | false => rfl
            | true => simp [hsucc] at hguard
          · intro hne
            cases dur with
            | false => simp at hne
            | true =>
              intro ho; simp [ho] at hguard
          · intro hn; have := hn cf hcf; rw [hret] at this; cases this
        · have hret' : cf.retry = false := by simpa using hret
          simp only [hret', Bool.false_eq_true, if_false]
          have hnr : noRetryCfg s := by intro cf' hcf'; rw [hcf] at hcf'; cases hcf'; exact hret'
          have hr0 : r.retry = none := gr.q3 hnr
          refine key _ _ h1 rfl ?_ ?_ ?_ _ rfl rfl
          · intro _; exact hr0
          · intro hne; exact absurd hr0 hne
          · intro _; exact hr0
    · split at hs
      · cases hs
      · simp only [Option.some.injEq] at hs; subst hs; exact h1

theorem allQ_init : AllQ {} := by intro r x hx; simp at hx

/-- the retry link is kept by every event -/
theorem step_allQ (s s' : St) (e : Ev) (h : AllQ s) (hs : step s e = some s') : AllQ s' := by
  have fr : ∀ T : St, T.cfg = s.cfg → T.recs = s.recs → AllQ T := fun T a b => h.transfer (QF.of_recs a b)
  cases e with
  | cfg c =>
    simp only [step, stepI] at hs
    split at hs
    · rename_i hn
      simp at hs; subst hs
      intro r x hx
      have hx' : s.recs[r]? = some x := hx
      have g := h r x hx'
      have hnr : noRetryCfg s := by intro cf hcf; simp at hn; rw [hn] at hcf; cases hcf
      have h0 := g.q3 hnr
      exact ⟨fun _ => h0, fun hne => absurd h0 hne, fun _ => h0⟩
    · cases hs
  | inv a op =>
    simp only [step, stepI] at hs
    split at hs
    · simp at hs; subst hs; exact fr _ rfl rfl
    · cases hs
  | cs a =>
    simp only [step, stepI] at hs
    split at hs
    · rename_i cf c hcf hc
      split at hs
      · split at hs
        · split at hs
          · rename_i rinr _ _
            simp at hs; subst hs
            have : QF s (waitSample s rinr).1 := by simp only [waitSample]; exact qf_normCtx s
            exact (h.transfer this).transfer (QF.of_recs rfl rfl)
          · cases hs
        · split at hs
          · cases hs
          · split at hs
            · rename_i r hr
              simp at hs; subst hs
              exact (h.transfer (qf_apiCS s cf _ r hr)).transfer (QF.of_recs rfl rfl)
            · cases hs
      · cases hs
    · cases hs
  | ret a r =>
    simp only [step, stepI] at hs
    split at hs
    · split at hs
      · simp at hs; subst hs; exact fr _ rfl rfl
      · split at hs
        · simp at hs; subst hs; exact fr _ rfl rfl
        · cases hs
    · cases hs
  | wake a =>
    simp only [step, stepI] at hs
    split at hs
    · split at hs
      · split at hs
        · simp at hs; subst hs; exact fr _ rfl rfl
        · cases hs
      · cases hs
    · cases hs
  | wctx a =>
    simp only [step, stepI] at hs
    split at hs
    · split at hs
      · split at hs
        · simp at hs; subst hs; exact fr _ rfl rfl
        · cases hs
      · cases hs
    · cases hs
  | envCancel c =>
    simp only [step, stepI] at hs
    split at hs
    · simp at hs; subst hs; exact fr _ rfl rfl
    · cases hs
  | envDo c =>
    simp only [step, stepI] at hs
    split at hs
    · simp at hs; subst hs; exact fr _ rfl rfl
    · cases hs
  | envCancelW a =>
    simp only [step, stepI] at hs
    split at hs
    · split at hs
      · simp at hs; subst hs; exact fr _ rfl rfl
      all_goals cases hs
    · cases hs
  | envErr a e0 =>
    simp only [step, stepI] at hs
    split at hs
    · split at hs
      · simp at hs; subst hs; exact fr _ rfl rfl
      all_goals cases hs
    · cases hs
  | giveUp n =>
    simp only [step, stepI] at hs
    split at hs
    · split at hs
      · split at hs
        · simp at hs; subst hs; exact fr _ rfl rfl
        · simp at hs; subst hs; exact fr _ rfl rfl
      · cases hs
    · cases hs
  | drained n =>
    simp only [step, stepI] at hs
    split at hs
    · split at hs
      · simp at hs; subst hs; exact fr _ rfl rfl
      · cases hs
    · cases hs
  | cbin k n f arg root =>
    simp only [step, stepI] at hs
    split at hs
    · split at hs
      · split at hs
        · simp at hs; subst hs; exact fr _ rfl rfl
        · cases hs
      · cases hs
    · cases hs
  | cbout k o =>
    simp only [step, stepI] at hs
    split at hs
    · split at hs
      · split at hs
        · simp at hs; subst hs; exact fr _ rfl rfl
        · cases hs
      · cases hs
    · cases hs
  | closeExit n =>
    simp only [step, stepI] at hs
    split at hs
    · split at hs
      · simp at hs; subst hs; exact fr _ rfl rfl
      · cases hs
    · cases hs
  | record n dur =>
    simp only [step, stepI] at hs
    split at hs
    · rename_i cf x hcf hx
      split at hs
      · exact allQ_recordCS h cf hcf n x dur hs
      · cases hs
    · cases hs
  | emit o =>
    simp only [step, stepI] at hs
    split at hs
    · split at hs
      · simp at hs; subst hs; exact fr _ rfl rfl
      · cases hs
    · cases hs
  | fire t =>
    simp only [step, stepI] at hs
    split at hs
    · split at hs
      · simp at hs; subst hs; exact fr _ rfl rfl
      · cases hs
    · cases hs
  | timerCS t =>
    simp only [step, stepI] at hs
    split at hs
    · rename_i tm htm
      split at hs
      · simp at hs; subst hs
        exact (fr { s with timers := s.timers.set t { tm with st := .dead } } rfl rfl).transfer (qf_timerBody _ t tm.rid)
      · cases hs
    · cases hs
  | probeCtx k b =>
    simp only [step, stepI] at hs
    split at hs
    · split at hs
      · simp at hs; subst hs; exact h
      · cases hs
    · cases hs
  | probeW a b =>
    simp only [step, stepI] at hs
    split at hs
    · split at hs
      · split at hs
        · simp at hs; subst hs; exact h
        · cases hs
      · cases hs
    · cases hs
  | quiesce p r l =>
    simp only [step] at hs
    split at hs
    · simp at hs; subst hs; exact h
    · cases hs

theorem allQ_run (s s' : St) (es : List Ev) (h : AllQ s) (hr : model.run s es = some s') : AllQ s' := by
  induction es generalizing s with
  | nil => simp [OLTS.run] at hr; subst hr; exact h
  | cons e es ih =>
    simp only [OLTS.run] at hr
    cases hst : model.step s e with
    | none => simp [hst] at hr
    | some s1 => simp [hst] at hr; exact ih s1 (step_allQ s s1 e h hst) hr

end UtilModel.Routine
