import UtilModel.Core.LTS
import UtilModel.Core.Monitor
/-!
# backoff: model of `(*Backoff).Construct` (backoff/backoff.go) — the retry configuration of routine.WithRetry

`Construct` is a pure function from the configuration record to the parameters of a cenkalti `BackOff`.
Durations are milliseconds; the two float fields (multiplier, randomization factor) are thousandths.
`NextBackOff` of the exponential backoff returns `Stop` iff `MaxElapsedTime != 0 && elapsed + next > MaxElapsedTime`
(cenkalti/backoff exponential.go, trusted): `MaxElapsedTime = 0` means "never give up".
-/
namespace UtilModel.Routine.Backoff

/-- the configuration (`backoff.Backoff` with its `Exponential` / `Constant` sub-messages; a nil sub-message reads
as all zeros) -/
structure BoCfg where
  kind : Nat := 0        -- 0 UNKNOWN, 1 EXPONENTIAL, 2 CONSTANT
  init : Nat := 0        -- exponential.initial_interval (ms)
  mult : Nat := 0        -- exponential.multiplier (thousandths)
  maxInt : Nat := 0      -- exponential.max_interval (ms)
  rand : Nat := 0        -- exponential.randomization_factor (thousandths)
  maxEl : Nat := 0       -- exponential.max_elapsed_time (ms); 0 = retry for ever
  interval : Nat := 0    -- constant.interval (ms)
deriving DecidableEq, Repr, Hashable

/-- exported fields of the constructed backoff -/
inductive BoParams where
  | expo (initial multiplier maxInterval randomization maxElapsed : Nat)
  | const (interval : Nat)
deriving DecidableEq, Repr

/-- `constructExpo` (backoff.go:55-84) -/
def constructExpo (c : BoCfg) : BoParams :=
  .expo (if c.init = 0 then 800 else c.init)
        (if c.mult = 0 then 1800 else c.mult)
        (if c.maxInt = 0 then 20000 else c.maxInt)
        c.rand
        (if c.maxEl = 0 then 0 else c.maxEl)

/-- `constructConstant` (backoff.go:87-95) -/
def constructConstant (c : BoCfg) : BoParams := .const (if c.interval = 0 then 5000 else c.interval)

/-- `Construct` (backoff.go:20-29): CONSTANT → constant, everything else (default, fallthrough) → exponential -/
def construct (c : BoCfg) : BoParams := if c.kind = 2 then constructConstant c else constructExpo c

/-- does `NextBackOff` return Stop when `elapsed` ms have passed since the last Reset and the next interval is
`next` ms? (a constant backoff never stops) -/
def stops (p : BoParams) (elapsed next : Nat) : Bool :=
  match p with
  | .expo _ _ _ _ maxEl => maxEl != 0 && elapsed + next > maxEl
  | .const _ => false

/-- an upper bound of the intervals the backoff can produce (ms): the larger of initial and max interval (the
first interval is the initial one, uncapped), stretched by the randomization factor -/
def maxNext (p : BoParams) : Nat :=
  match p with
  | .expo i _ maxInt rand _ => max i maxInt + max i maxInt * rand / 1000 + 1
  | .const i => i

/-- `GetEmpty` (backoff.go:14-16) -/
def isEmpty (c : BoCfg) : Bool := c.kind == 0

/-- `BackoffKind.Validate` (backoff.go:32-41): the three enum values are valid -/
def kindValid (c : BoCfg) : Bool := c.kind ≤ 2

/-- `(*Backoff).Validate(allowEmpty)` (backoff.go:44-52): does it return nil? -/
def validate (c : BoCfg) (allowEmpty : Bool) : Bool := (allowEmpty || !isEmpty c) && kindValid c

/-- the constructed backoff never answers Stop: a constant backoff, or an exponential one without
`max_elapsed_time` -/
def neverStops (c : BoCfg) : Bool := c.kind == 2 || c.maxEl == 0

/-- is `runs` a possible number of runs of a routine that fails `fails` times and then succeeds, under
`routine.WithRetry(conf)` (options.go:60-69)? `conf = nil` configures no retry: one run. Any non-nil configuration
— also one whose kind is unset, which `Construct` treats as exponential — configures the constructed backoff: the
routine is run again after every failure as long as the backoff does not answer Stop. -/
def runsOK (c : Option BoCfg) (fails runs : Nat) : Bool :=
  match c with
  | none => runs == 1
  | some cfg => if neverStops cfg then runs == fails + 1 else (1 ≤ runs && runs ≤ fails + 1)

/-! ## theorems -/

/-- strict validation accepts exactly EXPONENTIAL and CONSTANT, lenient validation also the empty configuration -/
theorem validate_spec (c : BoCfg) :
    (validate c false = true ↔ (c.kind = 1 ∨ c.kind = 2)) ∧ (validate c true = true ↔ c.kind ≤ 2) := by
  simp only [validate, isEmpty, kindValid, Bool.false_or, Bool.true_or, Bool.true_and, Bool.and_eq_true,
    Bool.not_eq_true', beq_eq_false_iff_ne, decide_eq_true_eq]
  constructor
  · constructor
    · intro h; omega
    · intro h; omega
  · trivial


/-- **retry for ever**: without `max_elapsed_time` the constructed backoff never returns Stop, however long the
routine has been failing -/
theorem never_stops (c : BoCfg) (h : c.maxEl = 0) (elapsed next : Nat) : stops (construct c) elapsed next = false := by
  unfold construct
  split
  · rfl
  · simp [constructExpo, stops, h]

/-- defaults are applied exactly where a field is zero; a configured limit is taken over unchanged -/
theorem defaults (c : BoCfg) (hk : c.kind ≠ 2) :
    construct c = .expo (if c.init = 0 then 800 else c.init) (if c.mult = 0 then 1800 else c.mult)
      (if c.maxInt = 0 then 20000 else c.maxInt) c.rand c.maxEl := by
  unfold construct constructExpo
  simp only [hk, if_false]
  congr 1
  split <;> simp_all

theorem maxElapsed_exact (c : BoCfg) (hk : c.kind ≠ 2) :
    ∃ i m x r, construct c = .expo i m x r c.maxEl := ⟨_, _, _, _, defaults c hk⟩

theorem constant_interval (c : BoCfg) (hk : c.kind = 2) :
    construct c = .const (if c.interval = 0 then 5000 else c.interval) := by
  simp [construct, constructConstant, hk]

/-- **a configuration whose kind is unset is not "no retry"**: `Construct` builds the exponential backoff (with the
defaults where a field is zero), and without `max_elapsed_time` a routine that fails `fails` times is run
`fails + 1` times under `WithRetry` of it -/
theorem retry_kind_unset (c : BoCfg) (hk : c.kind = 0) (he : c.maxEl = 0) (fails runs : Nat) :
    (∃ i m x r, construct c = .expo i m x r 0) ∧ (runsOK (some c) fails runs = true ↔ runs = fails + 1) := by
  refine ⟨?_, ?_⟩
  · have := maxElapsed_exact c (by rw [hk]; decide)
    rw [he] at this; exact this
  · simp [runsOK, neverStops, he]

/-! ## correspondence model: the harness logs a configuration, the constructed parameters, and the Stop decisions of
`NextBackOff` under a fake clock -/

inductive Obs where
  | conf (c : BoCfg)
  | params (p : BoParams)
  | stop (elapsed : Nat) (b : Bool)
  | valid (empty strict lenient : Bool)
  | runs (c : Option BoCfg) (fails runs : Nat)
deriving DecidableEq, Repr

structure St where
  cfg : Option BoCfg := none
  built : Bool := false
deriving DecidableEq, Repr, Hashable

def step (s : St) : Obs → Option St
  | .conf c => some { cfg := some c, built := false }
  | .params p =>
    match s.cfg with
    | some c => if ¬ s.built ∧ p = construct c then some { s with built := true } else none
    | none => none
  | .stop elapsed b =>
    match s.cfg with
    | some c =>
      if s.built then
        -- Stop for sure beyond the limit, never without a limit or while even the largest interval fits
        (if b then (if stops (construct c) elapsed (maxNext (construct c)) then some s else none)
         else (if stops (construct c) elapsed 0 then none else some s))
      else none
    | none => none
  | .valid e v0 v1 =>
    match s.cfg with
    | some c => if e = isEmpty c ∧ v0 = validate c false ∧ v1 = validate c true then some s else none
    | none => none
  | .runs c fails runs => if runsOK c fails runs then some s else none

def model : OLTS St Obs Obs where
  init := {}
  step := step
  obs := some
  cands := fun _ => []
  evsOf := fun _ o => [o]

def pCfg : List String → Option BoCfg
  | [k, i, m, x, r, e, c] => do
    pure { kind := (← k.toNat?), init := (← i.toNat?), mult := (← m.toNat?), maxInt := (← x.toNat?),
           rand := (← r.toNat?), maxEl := (← e.toNat?), interval := (← c.toNat?) }
  | _ => none

def pB (b : String) : Option Bool := if b == "1" then some true else if b == "0" then some false else none

def Obs.parse : List String → Option Obs
  | "boconf" :: rest => (pCfg rest).map .conf
  | ["boparams", "expo", i, m, x, r, e] => do
    pure (.params (.expo (← i.toNat?) (← m.toNat?) (← x.toNat?) (← r.toNat?) (← e.toNat?)))
  | ["boparams", "const", i] => do pure (.params (.const (← i.toNat?)))
  | ["bostop", t, b] => do
    pure (.stop (← t.toNat?) (← (if b == "1" then some true else if b == "0" then some false else none)))
  | ["bovalid", e, v0, v1] => do pure (.valid (← pB e) (← pB v0) (← pB v1))
  | ["boruns", "nil", f, r] => do pure (.runs none (← f.toNat?) (← r.toNat?))
  | ["boruns", k, i, m, x, rd, e, c, f, r] => do pure (.runs (some (← pCfg [k, i, m, x, rd, e, c])) (← f.toNat?) (← r.toNat?))
  | _ => none

/-- **C14, backoff clause**: a backoff constructed from a configuration without `max_elapsed_time` has
`MaxElapsedTime = 0` and never answers Stop; a configured limit is taken over exactly; validation and `WithRetry` behave as documented -/
def monC14bo : ObsMonitor Obs (Option BoCfg) where
  init := none
  step := fun ms o =>
    match o with
    | .conf c => some (some c)
    | .params (.expo _ _ _ _ maxEl) =>
      (match ms with
       | some c => if c.kind != 2 && maxEl == c.maxEl then some ms else (if c.kind == 2 then some ms else none)
       | none => some ms)
    | .params (.const _) => some ms
    | .stop _ b =>
      (match ms with
       | some c => if b && c.maxEl == 0 then none else some ms
       | none => some ms)
    -- an empty configuration does not pass strict validation; what passes strict validation passes the lenient one
    | .valid e v0 v1 => if (e && v0) || (v0 && !v1) then none else some ms
    -- with a retry configuration (also one whose kind is unset) whose backoff never gives up a failing routine is
    -- run again until it succeeds; without one (nil) it runs once
    | .runs c fails runs =>
      (match c with
       | none => if runs == 1 then some ms else none
       | some cfg => if neverStops cfg && runs != fails + 1 then none else some ms)

/-- every trace of the model satisfies the backoff clause -/
theorem C14bo_obs (es : List Obs) (s : St) (hr : model.run model.init es = some s) :
    monC14bo.accepts (es.filterMap model.obs) = true := by
  have hsim := monitor_accepts_of_simulation model monC14bo (fun s ms => ms = s.cfg) rfl (by
    intro s e s' ms hR hs
    subst hR
    show ∃ ms', monC14bo.step s.cfg e = some ms' ∧ ms' = s'.cfg
    cases e with
    | conf c =>
      simp only [model, step, Option.some.injEq] at hs; subst hs
      exact ⟨some c, rfl, rfl⟩
    | params p =>
      simp only [model, step] at hs
      cases hc : s.cfg with
      | none => simp [hc] at hs
      | some c =>
        simp only [hc] at hs
        split at hs
        · rename_i hg
          simp only [Option.some.injEq] at hs; subst hs
          obtain ⟨_, hp⟩ := hg
          subst hp
          refine ⟨some c, ?_, by simp [hc]⟩
          by_cases hk : c.kind = 2
          · simp [monC14bo, construct, constructConstant, hk]
          · rw [defaults c hk]
            simp [monC14bo, hk]
        · cases hs
    | stop elapsed b =>
      simp only [model, step] at hs
      cases hc : s.cfg with
      | none => simp [hc] at hs
      | some c =>
        simp only [hc] at hs
        split at hs
        · cases b with
          | false =>
            simp only [Bool.false_eq_true, if_false] at hs
            split at hs
            · cases hs
            · simp only [Option.some.injEq] at hs; subst hs
              exact ⟨some c, by simp [monC14bo], by simp [hc]⟩
          | true =>
            simp only [if_true] at hs
            split at hs
            · rename_i hst
              simp only [Option.some.injEq] at hs; subst hs
              refine ⟨some c, ?_, by simp [hc]⟩
              have hne : c.maxEl ≠ 0 := by
                intro h0
                rw [never_stops c h0] at hst; cases hst
              simp [monC14bo, hne]
            · cases hs
        · cases hs
    | valid e v0 v1 =>
      simp only [model, step] at hs
      cases hc : s.cfg with
      | none => simp [hc] at hs
      | some c =>
        simp only [hc] at hs
        split at hs
        · rename_i hg
          simp only [Option.some.injEq] at hs; subst hs
          obtain ⟨h1, h2, h3⟩ := hg
          subst h1; subst h2; subst h3
          refine ⟨some c, ?_, by simp [hc]⟩
          simp only [monC14bo]
          have : ((isEmpty c && validate c false) || (validate c false && !validate c true)) = false := by
            simp only [validate, isEmpty, kindValid]
            cases h0 : (c.kind == 0) <;> cases h1 : decide (c.kind ≤ 2) <;> simp
          simp [this]
        · cases hs
    | runs c fails runs =>
      simp only [model, step] at hs
      split at hs
      · rename_i hg
        simp only [Option.some.injEq] at hs; subst hs
        refine ⟨s.cfg, ?_, rfl⟩
        cases c with
        | none =>
          simp only [runsOK, beq_iff_eq] at hg
          simp [monC14bo, hg]
        | some cfg =>
          simp only [runsOK] at hg
          cases hn : neverStops cfg with
          | true =>
            simp only [hn, if_true, beq_iff_eq] at hg
            simp [monC14bo, hn, hg]
          | false => simp [monC14bo, hn]
      · cases hs)
  exact hsim es s hr

end UtilModel.Routine.Backoff
