import UtilModel.Core.LTS
/-!
# routine: model of `RoutineContainer` and `StateRoutineContainer` (routine/routine.go, routine/state.go)

Read line by line from the code at /repo HEAD. One event = one atomic action of the real code:

* API calls are three events `inv a op` (observable), `cs a` (the ONE critical section on the container's
  Broadcast, internal) and `ret a result` (observable). `WaitExited` is a waiting thread: its `cs` is the
  sample section, then it parks on the broadcast channel (`wake`, `wctx`).
  `StateRoutineContainer` calls hold the wrapper's lock around one section on the inner container's lock; since
  nobody else can look at the wrapper's fields in between, the call is linearised at the inner section.
* every `execute` goroutine (an *instance*): `giveUp` (took the ctx branch of the first select, or found the
  context cancelled with no wait channel), `drained` (predecessor exited), `cbin` (left the first select by the
  wait channel — or found the context alive with no wait channel — and the routine function logged its entry;
  the decision is invisible until that line, so both are one event: with a wait channel the decision needs the
  predecessor's channel closed, which is monotone; without one it needs the context alive at some moment after
  creation, i.e. alive at creation), `cbout` (logs its result and returns), `closeExit` (`cancel();
  close(exitedCh)`), `record` (the final critical section: status, retry bookkeeping, exit callbacks).
  Callbacks made *inside* the final section (scripted `BackOff`, exit callbacks) log one line each: the section
  leaves them in `lockq` and `emit` pops them; while `lockq` is non-empty the container lock is held.
* retry timers: `fire` (the runtime starts the `AfterFunc` goroutine) and `timerCS` (its critical section);
  `Stop()` only prevents `fire`; a callback that runs after its timer was stopped or replaced finds
  `r.deferRetry != retryTimer` and does nothing.
* `env cancel c` announces the cancellation of root context `c` (logged before the call), `envDo c` performs it; `env cancelw a` cancels the context handed to `WaitExited` call `a`.

Numbers: root contexts are `1,2,…` (`0` = nil context), function tags `1,2,…` (`0` = nil routine), state
values `1,2,…` (`0` = the empty state), errors `some 0` = `context.Canceled`, `some e` = error `e`, `none` = nil.
-/
namespace UtilModel.Routine

/-- program counter of one `execute` goroutine -/
inductive IS where
  | waiting | draining | running | returned | closed
deriving DecidableEq, Repr, Hashable

structure Inst where
  rid : Nat
  root : Nat
  waitOn : Option Nat
  st : IS := .waiting
  cancelled : Bool := false
  born : Bool := false             -- the context was already cancelled when the instance was created
  out : Option Nat := none
  recorded : Bool := false
deriving DecidableEq, Repr, Hashable

/-- `runningRoutine` -/
structure Rec where
  fn : Nat
  arg : Nat
  rctx : Option Nat := none       -- `r.ctx` = the context of this instance
  cancelOf : Option Nat := none   -- `r.ctxCancel`
  exitedCh : Option Nat := none   -- exit channel of this instance
  err : Option Nat := none
  success : Bool := false
  exited : Bool := false
  retry : Option Nat := none      -- `r.deferRetry` (timer id)
deriving DecidableEq, Repr, Hashable

inductive TmS where
  | armed | fired | dead
deriving DecidableEq, Repr, Hashable

structure Timer where
  rid : Nat
  st : TmS
deriving DecidableEq, Repr, Hashable

inductive Op where
  | setContext (c : Nat) (restart : Bool)
  | setRoutine (f : Nat)
  | restart
  | setState (v : Nat)
  | setStateRoutine (f : Nat)
  | swap (k : Option Nat)          -- `SwapValue(func(_) {return k})`, `none` = nil callback
  | getState
  | waitExited (rinr : Bool)
deriving DecidableEq, Repr, Hashable

inductive Res where
  | bool (b : Bool)
  | setR (ch reset : Bool)
  | setS (ch changed reset running : Bool)
  | setSR (ch reset running : Bool)
  | swapR (next : Nat) (ch changed reset running : Bool)
  | state (v : Nat)
  | wx (e : Option Nat)
deriving DecidableEq, Repr, Hashable

inductive CallSt where
  | invoked | done (r : Res) | parked (woken : Bool) | wcancel | finished
deriving DecidableEq, Repr, Hashable

structure Call where
  op : Op
  st : CallSt := .invoked
  wr : Option Nat := none          -- instance whose exit channel the call returned
deriving DecidableEq, Repr, Hashable

structure Cfg where
  state : Bool := false            -- StateRoutineContainer
  cmp : Nat := 0                   -- 0 = nil compare, 1 = equality, 2 = same parity
  retry : Bool := false            -- a BackOff is configured
  ncb : Nat := 0                   -- number of exit callbacks
deriving DecidableEq, Repr, Hashable

inductive BoRes where
  | reset | stop | dur
deriving DecidableEq, Repr, Hashable

/-- observable events: exactly what the harness logs -/
inductive Obs where
  | cfg (c : Cfg)
  | inv (a : Nat) (op : Op)
  | ret (a : Nat) (r : Res)
  | cbin (k f arg root : Nat)
  | cbout (k : Nat) (o : Option Nat)
  | envCancel (c : Nat)
  | envCancelW (a : Nat)
  | envErr (a e : Nat)
  | bo (r : BoRes)
  | exitcb (j : Nat) (e : Option Nat)
  | probeCtx (k : Nat) (cancelled : Bool)
  | probeW (a : Nat) (closed : Bool)
  | quiesce (pend run live : List Nat)
deriving DecidableEq, Repr, Hashable

/-- lines logged from inside the final critical section (scripted backoff, exit callbacks) -/
def Obs.isLine : Obs → Bool
  | .bo _ | .exitcb _ _ => true
  | _ => false

inductive Ev where
  | cfg (c : Cfg)
  | inv (a : Nat) (op : Op)
  | cs (a : Nat)
  | ret (a : Nat) (r : Res)
  | wake (a : Nat)
  | wctx (a : Nat)
  | envCancel (c : Nat)
  | envDo (c : Nat)
  | envCancelW (a : Nat)
  | envErr (a e : Nat)
  | giveUp (n : Nat)
  | drained (n : Nat)
  | cbin (k n f arg root : Nat)
  | cbout (k : Nat) (o : Option Nat)
  | closeExit (n : Nat)
  | record (n : Nat) (dur : Bool)
  | emit (o : Obs)
  | fire (t : Nat)
  | timerCS (t : Nat)
  | probeCtx (k : Nat) (cancelled : Bool)
  | probeW (a : Nat) (closed : Bool)
  | quiesce (pend run live : List Nat)
deriving DecidableEq, Repr, Hashable

structure St where
  cfg : Option Cfg := none
  ctx : Nat := 0
  croots : List Nat := []          -- cancelled root contexts
  pcancel : List Nat := []         -- root contexts whose cancellation has been announced (logged) but not yet performed
  routine : Option Nat := none
  cleared : Option Nat := none     -- `k.clearedExitedCh`: exit channel of the routine removed by SetRoutine(nil)
  recs : List Rec := []
  insts : List Inst := []
  timers : List Timer := []
  calls : List Call := []
  ent : List Nat := []             -- k-th logged entry ↦ instance
  sval : Nat := 0
  sfn : Nat := 0
  wcx : List Nat := []             -- WaitExited calls whose context was cancelled
  werr : List (Nat × Nat) := []    -- WaitExited call ↦ error code sent on its errCh (0: context.Canceled, or the channel was closed)
  lockq : List Obs := []           -- lines still to be logged by the running critical section
deriving DecidableEq, Repr, Hashable

/-! ## helpers, one-to-one with the code -/

def St.isCancelled (s : St) (x : Inst) : Bool := x.cancelled || s.croots.contains x.root

/-- `ctx.Err() != nil` for the context of instance `n` -/
def ctxErrOf (s : St) (n : Nat) : Bool :=
  match s.insts[n]? with
  | some x => s.isCancelled x
  | none => true

def cancelInst (s : St) (n : Nat) : St :=
  match s.insts[n]? with
  | some x => { s with insts := s.insts.set n { x with cancelled := true } }
  | none => s

def cancelOpt (s : St) : Option Nat → St
  | some n => cancelInst s n
  | none => s

/-- `timer.Stop()` -/
def killTimer (s : St) : Option Nat → St
  | some t =>
    match s.timers[t]? with
    | some tm => if tm.st = .armed then { s with timers := s.timers.set t { tm with st := .dead } } else s
    | none => s
  | none => s

def Rec.stopped (x : Rec) : Rec := { x with rctx := none, cancelOf := none, retry := none }

/-- `stop()` (routine.go:356-366) -/
def stopRec (s : St) (r : Nat) : St :=
  match s.recs[r]? with
  | some x =>
    let s1 := killTimer (cancelOpt s x.cancelOf) x.retry
    { s1 with recs := s1.recs.set r x.stopped }
  | none => s

/-- the two early returns of `start()` (routine.go:275-281) -/
def startSkips (s : St) (x : Rec) (force : Bool) : Bool :=
  (!force && x.success) ||
  (!force && (match x.rctx with
              | some n => !x.exited && !ctxErrOf s n
              | none => false))

/-- `start(ctx, waitCh, forceRestart)` (routine.go:274-289) -/
def startRec (s : St) (r c : Nat) (w : Option Nat) (force : Bool) : St :=
  match s.recs[r]? with
  | none => s
  | some x =>
    if startSkips s x force then s
    else
      let s1 := stopRec s r
      let n := s1.insts.length
      { s1 with insts := s1.insts ++ [{ rid := r, root := c, waitOn := w, born := s.croots.contains c }],
                recs := s1.recs.set r { x.stopped with err := none, success := false, exited := false,
                                                       exitedCh := some n, rctx := some n, cancelOf := some n } }

/-- `if k.ctx != nil && k.ctx.Err() != nil { k.ctx = nil }` -/
def normCtx (s : St) : St :=
  if s.ctx != 0 && s.croots.contains s.ctx then { s with ctx := 0 } else s

/-- `getRunningLocked` (routine.go:138-140) -/
def getRunning (s : St) : Bool :=
  s.ctx != 0 && !s.croots.contains s.ctx &&
  (match s.routine with
   | some r => (match s.recs[r]? with
                | some x => !x.exited
                | none => false)
   | none => false)

/-- a waiter parked on the broadcast channel is woken by the next `broadcast()` -/
def Call.wakeUp (c : Call) : Call :=
  match c.st with
  | .parked _ => { c with st := .parked true }
  | _ => c

/-- `broadcast()`: close the current wait channel. Every `WaitExited` parked since the previous broadcast
holds exactly that channel (Core/Bcast: one channel per generation), so closing it = marking all of them
woken; a waiter that samples later gets a fresh channel (`parked false`). -/
def St.bcastNow (s : St) : St := { s with calls := s.calls.map Call.wakeUp }

/-- first half of `setRoutineLocked` (routine.go:167-180): detach the previous record, or pick up the exit channel
of a routine that was cleared earlier; `clearedExitedCh` is reset -/
def detachPrev (s : St) : St × Option Nat × Bool :=
  match s.routine with
  | none => ({ s with cleared := none }, s.cleared, false)
  | some p =>
    match s.recs[p]? with
    | none => ({ s with routine := none, cleared := none }, none, false)   -- unreachable: `routine` always points into `recs`
    | some pr =>
      let sc := cancelOpt s pr.cancelOf
      ({ sc with recs := sc.recs.set p { pr with cancelOf := none }, routine := none, cleared := none },
       pr.exitedCh, s.ctx != 0 && !pr.exited)

/-- `setRoutineLocked(routine)` (routine.go:162-200); `f = 0` is the nil routine. Returns the new state,
the instance whose exit channel is returned, and `wasReset`. -/
def setRoutineLocked (s0 : St) (f arg : Nat) : St × Option Nat × Bool :=
  let d := detachPrev (normCtx s0)
  let s1 := d.1
  let pch := d.2.1
  let wasReset := d.2.2
  if f != 0 then
    let r := s1.recs.length
    if s1.ctx != 0 then
      let s2 := { s1 with recs := s1.recs ++ [{ fn := f, arg := arg }], routine := some r }
      ((startRec s2 r s2.ctx pch false).bcastNow, pch, wasReset)
    else
      let s2 : St := { s1 with recs := s1.recs ++ [{ fn := f, arg := arg, exitedCh := pch }], routine := some r }
      (s2.bcastNow, pch, wasReset)
  else
    -- the container keeps the exit channel of the routine it removes until the next routine is set
    let s2 : St := { s1 with cleared := pch }
    if wasReset then (s2.bcastNow, pch, wasReset) else (s2, pch, wasReset)

/-- `SetContext(ctx, restart)` (routine.go:106-137) -/
def setContextCS (s : St) (c : Nat) (restart : Bool) : St × Bool :=
  let same := s.ctx == c
  if same && !restart then (s, false)
  else
    let s1 := { s with ctx := c }
    match s.routine with
    | none => (s1, false)
    | some r =>
      match s.recs[r]? with
      | none => (s1, false)
      | some rr =>
        if same && rr.err.isNone then (s1, false)
        -- the routine failed and is waiting to be retried: keep the pending retry, it will use the new context
        else if rr.err.isSome && !restart && c != 0 && rr.retry.isSome then (s1, false)
        else
          let s2 := stopRec s1 r
          let s3 := if (rr.err.isNone || restart) && c != 0 then startRec s2 r c rr.exitedCh false else s2
          (s3.bcastNow, true)

/-- `restartRoutineLocked(false)` (routine.go:204-230) -/
def restartCS (s0 : St) : St × Bool :=
  let s := normCtx s0
  match s.routine with
  | none => (s, false)
  | some r =>
    match s.recs[r]? with
    | none => (s, false)
    | some x =>
      let sc := cancelOpt s x.cancelOf
      let s1 := { sc with recs := sc.recs.set r { x with cancelOf := none } }
      if s1.ctx == 0 then (s1, false)
      else
        let s2 := { s1 with recs := s1.recs.set r { x with cancelOf := none, exitedCh := none } }
        ((startRec s2 r s2.ctx x.exitedCh true).bcastNow, true)

/-- `updateStateRoutineLocked` (state.go:160-175) -/
def updateStateRoutine (s : St) : St × Option Nat × Bool × Bool :=
  let f := if s.sfn != 0 && s.sval != 0 then s.sfn else 0
  let r := setRoutineLocked s f s.sval
  (r.1, r.2.1, r.2.2, getRunning r.1)

def stateChanged (cmp : Nat) (old new : Nat) : Bool :=
  if cmp = 0 then true else if cmp = 1 then old != new else old % 2 != new % 2

/-- `setStateLocked` (state.go:102-114): (state, wr, changed, reset, running) -/
def setStateCS (s : St) (cmp : Nat) (v : Nat) : St × Option Nat × Bool × Bool × Bool :=
  if stateChanged cmp s.sval v then
    let u := updateStateRoutine { s with sval := v }
    (u.1, u.2.1, true, u.2.2.1, u.2.2.2)
  else (s, none, false, false, false)

/-- does this call's critical section take the routine container's lock? -/
def needsLock (s : St) (cmp : Nat) : Op → Bool
  | .setState v => stateChanged cmp s.sval v
  | .getState => false
  | .swap (some k) => k == s.sval || stateChanged cmp s.sval k
  | _ => true

/-- the critical section of a non-waiting API call: new state, result, returned exit channel -/
def apiCS (s : St) (cf : Cfg) : Op → Option (St × Res × Option Nat)
  | .setContext c restart =>
    let r := setContextCS s c restart
    some (r.1, .bool r.2, none)
  | .setRoutine f =>
    if cf.state then none else
    let r := setRoutineLocked s f 0
    some (r.1, .setR r.2.1.isSome r.2.2, r.2.1)
  | .restart =>
    let r := restartCS s
    some (r.1, .bool r.2, none)
  | .setState v =>
    if !cf.state then none else
    let r := setStateCS s cf.cmp v
    some (r.1, .setS r.2.1.isSome r.2.2.1 r.2.2.2.1 r.2.2.2.2, r.2.1)
  | .setStateRoutine f =>
    if !cf.state then none else
    let u := updateStateRoutine { s with sfn := f }
    some (u.1, .setSR u.2.1.isSome u.2.2.1 u.2.2.2, u.2.1)
  | .swap k =>
    if !cf.state then none else
    let before := s.sval
    let next := match k with
      | some v => v
      | none => before
    if next != before then
      let r := setStateCS s cf.cmp next
      let changed := r.2.2.1
      some (r.1, .swapR (if changed then next else before) r.2.1.isSome changed r.2.2.2.1 r.2.2.2.2, r.2.1)
    else some (s, .swapR before false false false (getRunning s), none)
  | .getState => if !cf.state then none else some (s, .state s.sval, none)
  | .waitExited _ => none

/-- the sample section of `WaitExited` (routine.go:64-77): new state and the call's next status -/
def waitSample (s0 : St) (rinr : Bool) : St × CallSt :=
  let s := normCtx s0
  let ex : Bool × Option Nat :=
    match s.routine with
    | some r =>
      (match s.recs[r]? with
       | some x => if s.ctx != 0 then (if x.exited || x.success then (true, x.err) else (false, none))
                   else (rinr, none)
       | none => (rinr, none))
    | none => (rinr, none)
  (s, if ex.1 then .done (.wx ex.2) else .parked false)

def instClosed (s : St) (n : Nat) : Bool :=
  match s.insts[n]? with
  | some x => x.st == .closed
  | none => false

def predClosed (s : St) (x : Inst) : Bool :=
  match x.waitOn with
  | none => true
  | some p => instClosed s p

def setInst (s : St) (n : Nat) (x : Inst) : St := { s with insts := s.insts.set n x }
def setCall (s : St) (a : Nat) (c : Call) : St := { s with calls := s.calls.set a c }

def boLines (cf : Cfg) (succ isCur dur : Bool) : List Obs :=
  if cf.retry then
    (if succ then [.bo .reset] else if isCur then [.bo (if dur then .dur else .stop)] else [])
  else []

def cbLines (cf : Cfg) (e : Option Nat) : List Obs := (List.range cf.ncb).map fun j => .exitcb j e

/-- the final critical section of `execute` (routine.go:318-351) for instance `n` -/
def recordCS (s : St) (cf : Cfg) (n : Nat) (x : Inst) (dur : Bool) : Option St :=
  let s1 := setInst s n { x with recorded := true }
  match s.recs[x.rid]? with
  | none => none
  | some r =>
    if r.rctx = some n then
      let isCur := s.routine == some x.rid
      let succ := x.out.isNone
      if dur && !(cf.retry && !succ && isCur) then none else
      let s2 := if cf.retry then killTimer s1 r.retry else s1
      let tms := if dur then s2.timers ++ [{ rid := x.rid, st := .armed }] else s2.timers
      let rt := if cf.retry then (if dur then some s2.timers.length else none) else r.retry
      some { s2 with timers := tms
                     recs := s2.recs.set x.rid { r with err := x.out, success := succ, exited := true,
                                                        exitedCh := none, retry := rt }
                     lockq := boLines cf succ isCur dur ++ cbLines cf x.out }.bcastNow
    else if dur then none else some s1

/-- the critical section of retry timer `t` of record `r` (routine.go:352-360): it acts only if it is still the
record's pending retry timer -/
def timerBody (s : St) (t r : Nat) : St :=
  let s1 := match s.recs[r]? with
    | some x =>
      if x.retry == some t && s.ctx != 0 && s.routine == some r && x.exited then
        startRec { s with recs := s.recs.set r { x with retry := none } } r s.ctx x.exitedCh true
      else s
    | none => s
  s1.bcastNow

/-- what a parked `WaitExited` call that took the `ctx.Done()` / `errCh` branch of its select may return:
context.Canceled if its context was cancelled or the error channel closed, else an error sent on the channel -/
def wxOK (s : St) (a : Nat) (r : Res) : Bool :=
  match r with
  | .wx (some e) => (e == 0 && s.wcx.contains a) || s.werr.contains (a, e)
  | _ => false

theorem wxOK_wx {s : St} {a : Nat} {r : Res} (h : wxOK s a r = true) : ∃ e, r = .wx (some e) := by
  cases r with
  | wx o =>
    cases o with
    | some e => exact ⟨e, rfl⟩
    | none => simp [wxOK] at h
  | _ => simp [wxOK] at h

/-- all events except `quiesce` -/
def stepI (s : St) : Ev → Option St
  | .cfg c => if s.cfg.isNone then some { s with cfg := some c } else none
  | .inv a op => if s.cfg.isSome ∧ a = s.calls.length then some { s with calls := s.calls ++ [{ op := op }] } else none
  | .cs a =>
    match s.cfg, s.calls[a]? with
    | some cf, some c =>
      if c.st = .invoked then
        match c.op with
        | .waitExited rinr =>
          if s.lockq.isEmpty then
            let r := waitSample s rinr
            some (setCall r.1 a { c with st := r.2 })
          else none
        | op =>
          if needsLock s cf.cmp op && !s.lockq.isEmpty then none else
          match apiCS s cf op with
          | some r => some (setCall r.1 a { c with st := .done r.2.1, wr := r.2.2 })
          | none => none
      else none
    | _, _ => none
  | .ret a r =>
    match s.calls[a]? with
    | some c =>
      if c.st = .done r then some (setCall s a { c with st := .finished })
      else if c.st = .wcancel ∧ wxOK s a r = true then some (setCall s a { c with st := .finished })
      else none
    | none => none
  | .wake a =>
    match s.calls[a]? with
    | some c =>
      (match c.st with
       | .parked w => if w then some (setCall s a { c with st := .invoked }) else none
       | _ => none)
    | none => none
  | .wctx a =>
    match s.calls[a]? with
    | some c =>
      (match c.st with
       | .parked _ => if s.wcx.contains a || s.werr.any (·.1 == a) then some (setCall s a { c with st := .wcancel }) else none
       | _ => none)
    | none => none
  -- the harness logs `env cancel c` *before* it calls the cancel function: the effect follows (`envDo`)
  | .envCancel c => if c != 0 then some { s with pcancel := c :: s.pcancel } else none
  | .envDo c =>
    if s.pcancel.contains c then some { s with pcancel := s.pcancel.erase c, croots := c :: s.croots } else none
  | .envCancelW a =>
    match s.calls[a]? with
    | some c => (match c.op with
                 | .waitExited _ => some { s with wcx := a :: s.wcx }
                 | _ => none)
    | none => none
  -- the harness logs `env errch a e` before it sends error `e` on (e = 0: closes, or sends context.Canceled on)
  -- the error channel given to WaitExited call `a`
  | .envErr a e =>
    match s.calls[a]? with
    | some c => (match c.op with
                 | .waitExited _ => some { s with werr := (a, e) :: s.werr }
                 | _ => none)
    | none => none
  | .giveUp n =>
    match s.insts[n]? with
    | some x =>
      -- a waiter whose context is cancelled leaves its select by the `ctx.Done()` branch and then still waits for
      -- its predecessor; nothing can tell that it has left before the predecessor has exited, so the model lets it
      -- leave then (and go on: `drained`) — the same traces, without a state per subset of waiters that have left
      if x.st = .waiting ∧ s.isCancelled x = true ∧ predClosed s x = true then
        (match x.waitOn with
         | some _ => some (setInst s n { x with st := .draining })
         | none => some (setInst s n { x with st := .returned, out := some 0 }))
      else none
    | none => none
  | .drained n =>
    match s.insts[n]? with
    | some x =>
      if x.st = .draining ∧ predClosed s x then some (setInst s n { x with st := .returned, out := some 0 })
      else none
    | none => none
  | .cbin k n f arg root =>
    match s.insts[n]? with
    | some x =>
      (match s.recs[x.rid]? with
       | some r =>
         if x.st = .waiting ∧ predClosed s x ∧ (x.waitOn = none → x.born = false) ∧
            k = s.ent.length ∧ f = r.fn ∧ arg = r.arg ∧ root = x.root then
           some { (setInst s n { x with st := .running }) with ent := s.ent ++ [n] }
         else none
       | none => none)
    | none => none
  | .cbout k o =>
    match s.ent[k]? with
    | some n =>
      (match s.insts[n]? with
       | some x => if x.st = .running then some (setInst s n { x with st := .returned, out := o }) else none
       | none => none)
    | none => none
  | .closeExit n =>
    match s.insts[n]? with
    | some x =>
      if x.st = .returned then
        -- an instance that is no longer its record's current one finds `r.ctx != ctx` in its final section:
        -- that section has no effect and is merged into this event
        let noop := match s.recs[x.rid]? with
          | some r => r.rctx != some n
          | none => true
        some (setInst s n { x with st := .closed, cancelled := true, recorded := noop })
      else none
    | none => none
  | .record n dur =>
    match s.cfg, s.insts[n]? with
    | some cf, some x =>
      if x.st = .closed ∧ x.recorded = false ∧ s.lockq = [] then recordCS s cf n x dur else none
    | _, _ => none
  | .emit o =>
    match s.lockq with
    | o' :: rest => if o = o' ∧ o.isLine = true then some { s with lockq := rest } else none
    | [] => none
  | .fire t =>
    match s.timers[t]? with
    | some tm => if tm.st = .armed then some { s with timers := s.timers.set t { tm with st := .fired } } else none
    | none => none
  | .timerCS t =>
    match s.timers[t]? with
    | some tm =>
      if tm.st = .fired ∧ s.lockq = [] then
        some (timerBody { s with timers := s.timers.set t { tm with st := .dead } } t tm.rid)
      else none
    | none => none
  | .probeCtx k b =>
    match s.ent[k]? with
    | some n => if ctxErrOf s n = b then some s else none
    | none => none
  | .probeW a b =>
    match s.calls[a]? with
    | some c =>
      (match c.st, c.wr with
       | .finished, some p => if instClosed s p = b then some s else none
       | _, _ => none)
    | none => none
  | .quiesce _ _ _ => none

/-- the internal events: every internal event that is enabled in `s` is in this list (`Transfer.complete_routine`),
so a REJECT of the checker is a statement about the model. (Earlier versions tried `giveUp` only once the
predecessor had exited and only one of several interchangeable final sections of superseded records; these
reductions are gone: they were not needed for the state-set sizes any more and had no proof.) -/
def cands (s : St) : List Ev :=
  -- (a woken `WaitExited` must re-sample: offering `wake` lazily would be wrong at quiescence points, because
  -- the environment can cancel the root context without any broadcast)
  ((List.range s.calls.length).flatMap fun a => [Ev.cs a, .wctx a, .wake a]) ++
  ((List.range s.insts.length).flatMap fun n =>
    [Ev.giveUp n, .drained n, .closeExit n, .record n false, .record n true]) ++
  ((List.range s.timers.length).flatMap fun t => [.fire t, .timerCS t]) ++
  s.pcancel.map Ev.envDo

def pendingIds (s : St) : List Nat :=
  (List.range s.calls.length).filter fun a =>
    match s.calls[a]? with
    | some c => (match c.st with
                 | .parked _ => true
                 | _ => false)
    | none => false

def runningKs (s : St) : List Nat :=
  (List.range s.ent.length).filter fun k =>
    match s.ent[k]? with
    | some n => (match s.insts[n]? with
                 | some x => x.st == .running
                 | none => false)
    | none => false

/-- the executing instances whose context is live -/
def liveKs (s : St) : List Nat :=
  (runningKs s).filter fun k =>
    match s.ent[k]? with
    | some n => !ctxErrOf s n
    | none => false

def Call.quiet (c : Call) : Bool :=
  match c.st with
  | .parked _ | .finished => true
  | _ => false

/-- nothing can move without a new API call, script command or environment action (in particular no
instance is about to enter the function: a waiter whose predecessor has exited either gives up or enters) -/
def quiescent (s : St) : Bool :=
  s.lockq.isEmpty && (cands s).all (fun e => (stepI s e).isNone) &&
  s.calls.all Call.quiet && s.insts.all (fun x => !(x.st == .waiting && predClosed s x))

def step (s : St) : Ev → Option St
  | .quiesce pend run live =>
    if quiescent s ∧ pend = pendingIds s ∧ run = runningKs s ∧ live = liveKs s then some s else none
  | e => stepI s e

def Ev.obs : Ev → Option Obs
  | .cfg c => some (.cfg c)
  | .inv a op => some (.inv a op)
  | .ret a r => some (.ret a r)
  | .cbin k _ f arg root => some (.cbin k f arg root)
  | .cbout k o => some (.cbout k o)
  | .envCancel c => some (.envCancel c)
  | .envCancelW a => some (.envCancelW a)
  | .envErr a e => some (.envErr a e)
  | .emit o => some o
  | .probeCtx k b => some (.probeCtx k b)
  | .probeW a b => some (.probeW a b)
  | .quiesce p r l => some (.quiesce p r l)
  | _ => none

def evsOf (s : St) : Obs → List Ev
  | .cfg c => [.cfg c]
  | .inv a op => [.inv a op]
  | .ret a r => [.ret a r]
  | .cbin k f arg root => (List.range s.insts.length).map fun n => .cbin k n f arg root
  | .cbout k o => [.cbout k o]
  | .envCancel c => [.envCancel c]
  | .envCancelW a => [.envCancelW a]
  | .envErr a e => [.envErr a e]
  | .bo r => [.emit (.bo r)]
  | .exitcb j e => [.emit (.exitcb j e)]
  | .probeCtx k b => [.probeCtx k b]
  | .probeW a b => [.probeW a b]
  | .quiesce p r l => [.quiesce p r l]

def model : OLTS St Ev Obs where
  init := {}
  step := step
  obs := Ev.obs
  cands := cands
  evsOf := evsOf

/-! ## parsing of harness lines -/

def pBool (s : String) : Option Bool := if s == "1" then some true else if s == "0" then some false else none

def pErr (s : String) : Option (Option Nat) := if s == "nil" then some none else s.toNat?.map some

def pNats : List String → Option (List Nat)
  | [] => some []
  | x :: xs => do let n ← x.toNat?; let r ← pNats xs; pure (n :: r)

def splitAtSlash : List String → List String × List String
  | [] => ([], [])
  | x :: xs => if x == "/" then ([], xs) else let r := splitAtSlash xs; (x :: r.1, r.2)

def Obs.parse : List String → Option Obs
  | ["cfg", kind, cmp, retry, ncb] => do
    let st ← (if kind == "state" then some true else if kind == "plain" then some false else none)
    pure (.cfg { state := st, cmp := (← cmp.toNat?), retry := (← pBool retry), ncb := (← ncb.toNat?) })
  | ["inv", a, "setcontext", c, r] => do pure (.inv (← a.toNat?) (.setContext (← c.toNat?) (← pBool r)))
  | ["inv", a, "setroutine", f] => do pure (.inv (← a.toNat?) (.setRoutine (← f.toNat?)))
  | ["inv", a, "restart"] => do pure (.inv (← a.toNat?) .restart)
  | ["inv", a, "setstate", v] => do pure (.inv (← a.toNat?) (.setState (← v.toNat?)))
  | ["inv", a, "setstateroutine", f] => do pure (.inv (← a.toNat?) (.setStateRoutine (← f.toNat?)))
  | ["inv", a, "swap", k] => do
    let kk ← (if k == "nil" then some none else k.toNat?.map some)
    pure (.inv (← a.toNat?) (.swap kk))
  | ["inv", a, "getstate"] => do pure (.inv (← a.toNat?) .getState)
  | ["inv", a, "waitexited", r] => do pure (.inv (← a.toNat?) (.waitExited (← pBool r)))
  | ["ret", a, "bool", b] => do pure (.ret (← a.toNat?) (.bool (← pBool b)))
  | ["ret", a, "setr", ch, rs] => do pure (.ret (← a.toNat?) (.setR (← pBool ch) (← pBool rs)))
  | ["ret", a, "sets", ch, cg, rs, rn] => do
    pure (.ret (← a.toNat?) (.setS (← pBool ch) (← pBool cg) (← pBool rs) (← pBool rn)))
  | ["ret", a, "setsr", ch, rs, rn] => do pure (.ret (← a.toNat?) (.setSR (← pBool ch) (← pBool rs) (← pBool rn)))
  | ["ret", a, "swapr", nx, ch, cg, rs, rn] => do
    pure (.ret (← a.toNat?) (.swapR (← nx.toNat?) (← pBool ch) (← pBool cg) (← pBool rs) (← pBool rn)))
  | ["ret", a, "state", v] => do pure (.ret (← a.toNat?) (.state (← v.toNat?)))
  | ["ret", a, "wx", e] => do pure (.ret (← a.toNat?) (.wx (← pErr e)))
  | ["cbin", k, f, arg, root] => do pure (.cbin (← k.toNat?) (← f.toNat?) (← arg.toNat?) (← root.toNat?))
  | ["cbout", k, e] => do pure (.cbout (← k.toNat?) (← pErr e))
  | ["env", "cancel", c] => do pure (.envCancel (← c.toNat?))
  | ["env", "cancelw", a] => do pure (.envCancelW (← a.toNat?))
  | ["env", "errch", a, e] => do pure (.envErr (← a.toNat?) (← e.toNat?))
  | ["bo", "reset"] => some (.bo .reset)
  | ["bo", "stop"] => some (.bo .stop)
  | ["bo", "dur"] => some (.bo .dur)
  | ["exitcb", j, e] => do pure (.exitcb (← j.toNat?) (← pErr e))
  | ["probe", "ctx", k, "live"] => do pure (.probeCtx (← k.toNat?) false)
  | ["probe", "ctx", k, "canceled"] => do pure (.probeCtx (← k.toNat?) true)
  | ["probe", "w", a, "open"] => do pure (.probeW (← a.toNat?) false)
  | ["probe", "w", a, "closed"] => do pure (.probeW (← a.toNat?) true)
  | "quiesce" :: rest => do
    let sp := splitAtSlash rest
    let sp2 := splitAtSlash sp.2
    pure (.quiesce (← pNats sp.1) (← pNats sp2.1) (← pNats sp2.2))
  | _ => none

end UtilModel.Routine
