import UtilModel.Routine.ProofsObs3
/-!
# routine: observable form of the healthy-instance clause of C14

`monC14ha` (first clause of `monC14h`): an executing instance that was seen with a live context is not seen
cancelled unless a mutating API call was in flight when it entered or has been invoked since, or its root
context was cancelled by the environment.

Model side: the only events that cancel an executing instance are critical sections of mutating API calls and
`envDo` (`timerBody_keep`: a retry timer that gets the lock restarts the routine only if the record has exited,
and then the instance it cancels has exited - `RecInv.kx`).
`HLink`: the monitor's bookkeeping against the model.
-/
namespace UtilModel.Routine
open UtilModel

/-! ## announced cancellations are only touched by `envCancel` / `envDo` -/

@[simp] theorem cancelInst_pcancel (s : St) (n : Nat) : (cancelInst s n).pcancel = s.pcancel := by
  unfold cancelInst; split <;> rfl
@[simp] theorem cancelOpt_pcancel (s : St) (o : Option Nat) : (cancelOpt s o).pcancel = s.pcancel := by
  cases o <;> simp [cancelOpt]
@[simp] theorem killTimer_pcancel (s : St) (o : Option Nat) : (killTimer s o).pcancel = s.pcancel := by
  unfold killTimer; split
  · split
    · split <;> rfl
    · rfl
  · rfl
@[simp] theorem normCtx_pcancel (s : St) : (normCtx s).pcancel = s.pcancel := by unfold normCtx; split <;> rfl
@[simp] theorem detachPrev_pcancel (s : St) : (detachPrev s).1.pcancel = s.pcancel := by
  cases hr : s.routine with
  | none => simp [detachPrev, hr]
  | some r => cases hx : s.recs[r]? <;> simp [detachPrev, hr, hx]
@[simp] theorem stopRec_pcancel (s : St) (r : Nat) : (stopRec s r).pcancel = s.pcancel := by
  unfold stopRec; split <;> simp
@[simp] theorem startRec_pcancel (s : St) (r c : Nat) (w : Option Nat) (f : Bool) :
    (startRec s r c w f).pcancel = s.pcancel := by
  unfold startRec; split
  · rfl
  · split <;> simp
@[simp] theorem bcastNow_pcancel (s : St) : s.bcastNow.pcancel = s.pcancel := rfl

@[simp] theorem setContextCS_pcancel (s : St) (c : Nat) (r : Bool) : (setContextCS s c r).1.pcancel = s.pcancel := by
  simp only [setContextCS]
  split
  · rfl
  · split
    · rfl
    · split
      · rfl
      · split
        · rfl
        · split
          · rfl
          · split <;> simp

@[simp] theorem restartCS_pcancel (s : St) : (restartCS s).1.pcancel = s.pcancel := by
  simp only [restartCS]
  split
  · simp
  · split
    · simp
    · split <;> simp

@[simp] theorem setRoutineLocked_pcancel (s : St) (f arg : Nat) : (setRoutineLocked s f arg).1.pcancel = s.pcancel := by
  simp only [setRoutineLocked]
  split
  · split <;> simp
  · split <;> simp

@[simp] theorem setStateCS_pcancel (s : St) (cmp v : Nat) : (setStateCS s cmp v).1.pcancel = s.pcancel := by
  simp only [setStateCS]; split <;> simp [updateStateRoutine]

theorem apiCS_pcancel (s : St) (cf : Cfg) (op : Op) (r : St × Res × Option Nat) (h : apiCS s cf op = some r) :
    r.1.pcancel = s.pcancel := by
  cases op with
  | setContext c restart => simp [apiCS] at h; subst h; simp
  | setRoutine f =>
    simp only [apiCS] at h
    split at h
    · cases h
    · simp at h; subst h; simp
  | restart => simp [apiCS] at h; subst h; simp
  | setState v =>
    simp only [apiCS] at h
    split at h
    · cases h
    · simp at h; subst h; simp
  | setStateRoutine f =>
    simp only [apiCS] at h
    split at h
    · cases h
    · simp at h; subst h; simp [updateStateRoutine]
  | swap k =>
    simp only [apiCS] at h
    split at h
    · cases h
    · split at h
      · split at h
        · simp only [Option.some.injEq] at h; subst h; simp
        · simp only [Option.some.injEq] at h; subst h; rfl
      · simp at h; subst h; rfl
  | getState =>
    simp only [apiCS] at h
    split at h
    · cases h
    · simp at h; subst h; rfl
  | waitExited _ => simp [apiCS] at h

@[simp] theorem timerBody_pcancel (s : St) (t r : Nat) : (timerBody s t r).pcancel = s.pcancel := by
  simp only [timerBody, bcastNow_pcancel]
  split
  · split <;> simp
  · rfl

theorem recordCS_pcancel (s s' : St) (cf : Cfg) (n : Nat) (x : Inst) (dur : Bool)
    (h : recordCS s cf n x dur = some s') : s'.pcancel = s.pcancel := by
  simp only [recordCS] at h
  split at h
  · cases h
  · split at h
    · split at h
      · cases h
      · simp only [Option.some.injEq] at h; subst h
        simp only [bcastNow_pcancel]
        split <;> simp [setInst]
    · split at h
      · cases h
      · simp only [Option.some.injEq] at h; subst h; simp [setInst]

/-! ## who can cancel an executing instance -/

/-- a quiet operation (`GetState`) leaves the container alone -/
theorem apiCS_quiet (s : St) (cf : Cfg) (op : Op) (r : St × Res × Option Nat) (h : apiCS s cf op = some r)
    (hq : op.quiet = true) : r.1 = s := by
  cases op with
  | getState =>
    simp only [apiCS] at h
    split at h
    · cases h
    · simp at h; subst h; rfl
  | waitExited _ => simp [apiCS] at h
  | setContext c restart => simp [Op.quiet] at hq
  | setRoutine f => simp [Op.quiet] at hq
  | restart => simp [Op.quiet] at hq
  | setState v => simp [Op.quiet] at hq
  | setStateRoutine f => simp [Op.quiet] at hq
  | swap k => simp [Op.quiet] at hq

@[simp] theorem normCtx_insts' (s : St) : (normCtx s).insts = s.insts := by unfold normCtx; split <;> rfl

theorem waitSample_insts (s : St) (rinr : Bool) : (waitSample s rinr).1.insts = s.insts := by
  simp [waitSample]

theorem recordCS_insts (s s' : St) (cf : Cfg) (n : Nat) (x : Inst) (dur : Bool)
    (h : recordCS s cf n x dur = some s') : s'.insts = s.insts.set n { x with recorded := true } := by
  simp only [recordCS] at h
  split at h
  · cases h
  · split at h
    · split at h
      · cases h
      · simp only [Option.some.injEq] at h; subst h
        simp only [St.bcastNow]
        split <;> simp [setInst]
    · split at h
      · cases h
      · simp only [Option.some.injEq] at h; subst h; simp [setInst]

/-- cancelling an instance that has exited does not touch one that has not -/
theorem cancelInst_other (s : St) (m n : Nat) (x : Inst) (hx : s.insts[n]? = some x) (hne : m ≠ n) :
    (cancelInst s m).insts[n]? = some x := by
  unfold cancelInst
  split
  · simp [List.getElem?_set, hne, hx]
  · exact hx

/-- **a retry timer does not stop an instance that has not exited**: its critical section restarts the routine
only if the record has exited, and the instance it then cancels is that exited one -/
theorem timerBody_keep (s : St) (ha : AllRec s) (t r n : Nat) (x : Inst) (hx : s.insts[n]? = some x)
    (hc : x.st ≠ .closed) : (timerBody s t r).insts[n]? = some x := by
  simp only [timerBody]
  have hb : ∀ S : St, S.bcastNow.insts = S.insts := fun _ => rfl
  rw [hb]
  split
  · rename_i y hy
    split
    · rename_i hcond
      simp only [Bool.and_eq_true] at hcond
      have hex : y.exited = true := hcond.2
      have hlt := get_lt hy
      unfold startRec
      simp only [get_set_self _ hlt]
      split
      · exact hx
      · -- stopRec cancels `y.cancelOf`, an exited instance
        have hstop : (stopRec { s with recs := s.recs.set r { y with retry := none } } r).insts[n]? = some x := by
          unfold stopRec
          simp only [get_set_self _ hlt]
          have hk : (killTimer (cancelOpt { s with recs := s.recs.set r { y with retry := none } } y.cancelOf) none).insts
              = (cancelOpt { s with recs := s.recs.set r { y with retry := none } } y.cancelOf).insts := by simp
          show (killTimer (cancelOpt { s with recs := s.recs.set r { y with retry := none } } y.cancelOf) none).insts[n]? = some x
          rw [hk]
          cases hco : y.cancelOf with
          | none => exact hx
          | some m =>
            have hrc := (ha r y hy).k2 m hco
            obtain ⟨z, hz, hzc⟩ := (ha r y hy).kx (Or.inr hex) m hrc
            have hne : m ≠ n := by
              intro e; subst e; rw [hx] at hz; cases hz; exact hc hzc
            exact cancelInst_other _ m n x hx hne
        have hlt' := get_lt hstop
        show ((stopRec { s with recs := s.recs.set r { y with retry := none } } r).insts ++ _)[n]? = some x
        rw [List.getElem?_append_left hlt']; exact hstop
    · exact hx
  · exact hx

/-! ## what an event does to calls, as far as "has returned" is concerned -/

def CallsOK (s s' : St) : Prop :=
  ∀ (a : Nat) (c' : Call), s'.calls[a]? = some c' →
    ∃ c : Call, s.calls[a]? = some c ∧ c.op = c'.op ∧ (c.st = .finished → c'.st = .finished)

theorem CallsOK.of_eq {s s' : St} (h : s'.calls = s.calls) : CallsOK s s' := by
  intro a c' hc'; exact ⟨c', by rw [← h]; exact hc', rfl, id⟩

theorem CallsOK.trans {a b c : St} (h1 : CallsOK a b) (h2 : CallsOK b c) : CallsOK a c := by
  intro i c' hc'
  obtain ⟨c1, g1, g2, g3⟩ := h2 i c' hc'
  obtain ⟨c0, f1, f2, f3⟩ := h1 i c1 g1
  exact ⟨c0, f1, f2.trans g2, fun h => g3 (f3 h)⟩

theorem CallsOK.of_wrSame {s s' : St} (h : WrSame s s') : CallsOK s s' := by
  intro i c' hc'
  obtain ⟨c, g1, g2, _⟩ := h.dn i c' hc'
  obtain ⟨c0, f1, f2⟩ := h.fin i c' hc'
  rw [g1] at f1; cases f1
  exact ⟨c, g1, g2, fun hf => f2.2 hf⟩

theorem callsOK_setCall (S : St) (a : Nat) (c c' : Call) (hc : S.calls[a]? = some c) (hop : c'.op = c.op)
    (hst : c.st = .finished → c'.st = .finished) : CallsOK S (setCall S a c') := by
  intro i d hd
  simp only [setCall, List.getElem?_set] at hd
  by_cases h : a = i
  · subst h
    simp [get_lt hc] at hd; subst hd
    exact ⟨c, hc, hop.symm, hst⟩
  · simp [h] at hd; exact ⟨d, hd, rfl, id⟩

/-! ## what an event does to an executing instance -/

structure StepKeep (s s' : St) (q : Prop) : Prop where
  ent : s'.ent = s.ent
  cr : ∀ c, s'.croots.contains c = true ∨ s'.pcancel.contains c = true →
        s.croots.contains c = true ∨ s.pcancel.contains c = true
  calls : CallsOK s s'
  keep : ∀ (n : Nat) (x : Inst), s.insts[n]? = some x → x.st = .running →
        ∃ x' : Inst, s'.insts[n]? = some x' ∧ x'.root = x.root ∧ x'.st = .running ∧
          (q → x.cancelled = false → x'.cancelled = false)

theorem StepKeep.frame {s s' : St} {q : Prop} (h1 : s'.insts = s.insts) (h2 : s'.ent = s.ent)
    (h3 : s'.croots = s.croots) (h4 : s'.pcancel = s.pcancel) (h5 : CallsOK s s') : StepKeep s s' q :=
  ⟨h2, by intro c h; rw [h3, h4] at h; exact h, h5,
   by intro n x hx hr; exact ⟨x, by rw [h1]; exact hx, rfl, hr, fun _ h => h⟩⟩

/-- an event that changes one instance which is not executing, keeping its root and cancellation flag … -/
theorem StepKeep.of_setInst (s : St) (q : Prop) (m : Nat) (x y : Inst) (hx : s.insts[m]? = some x)
    (hnr : x.st ≠ .running) : StepKeep s (setInst s m y) q := by
  refine ⟨rfl, fun _ h => h, CallsOK.of_eq rfl, ?_⟩
  intro n z hz hr
  by_cases hmn : m = n
  · subst hmn; rw [hx] at hz; cases hz; exact absurd hr hnr
  · exact ⟨z, by simp [setInst, List.getElem?_set, hmn, hz], rfl, hr, fun _ h => h⟩

/-- the events the link lemma treats one by one -/
def Ev.special : Ev → Bool
  | .inv _ _ | .cbin _ _ _ _ _ | .cbout _ _ | .envCancel _ => true
  | _ => false

/-- **only the critical section of a mutating call cancels an executing instance** (apart from `envDo`, which
cancels a root context) -/
theorem step_keep (s s' : St) (e : Ev) (ha : AllRec s) (hs : step s e = some s') (hsp : e.special = false) :
    StepKeep s s' (∀ a, e = .cs a → ∀ c, s.calls[a]? = some c → c.st = .invoked → c.op.quiet = true) := by
  cases e with
  | cfg c =>
    simp only [step, stepI] at hs
    split at hs
    · simp at hs; subst hs; exact StepKeep.frame rfl rfl rfl rfl (CallsOK.of_eq rfl)
    · cases hs
  | inv a op => simp [Ev.special] at hsp
  | cs a =>
    simp only [step, stepI] at hs
    split at hs
    · rename_i cf c hcf hc
      split at hs
      · rename_i hinv
        split at hs
        · split at hs
          · rename_i rinr _ _
            simp at hs; subst hs
            refine StepKeep.frame (by simp [setCall, waitSample]) (by simp [setCall, waitSample])
              (by simp [setCall, waitSample]) (by simp [setCall, waitSample]) ?_
            have h1 : CallsOK s (waitSample s rinr).1 := CallsOK.of_eq (by simp [waitSample])
            exact h1.trans (callsOK_setCall _ a c _ (by simpa [waitSample] using hc) rfl
              (by intro h; rw [hinv] at h; cases h))
          · cases hs
        · split at hs
          · cases hs
          · split at hs
            · rename_i r hr
              simp at hs; subst hs
              have hw := wrSame_apiCS s cf _ r hr
              have hca : ∃ c0 : Call, r.1.calls[a]? = some c0 ∧ c0.op = c.op ∧ (c0.st = .finished → c.st = .finished) := by
                have hlt : a < r.1.calls.length := by rw [hw.len]; exact get_lt hc
                obtain ⟨c1, g1, g2, _⟩ := hw.dn a (r.1.calls[a]) (List.getElem?_eq_getElem hlt)
                obtain ⟨c2, f1, f2⟩ := hw.fin a (r.1.calls[a]) (List.getElem?_eq_getElem hlt)
                rw [hc] at g1 f1; cases g1; cases f1
                exact ⟨_, List.getElem?_eq_getElem hlt, g2.symm, f2.1⟩
              obtain ⟨c0, hc0, hop0, hf0⟩ := hca
              refine ⟨by simp [setCall, apiCS_ent s cf _ r hr], ?_, ?_, ?_⟩
              · intro d h
                simpa [setCall, apiCS_croots s cf _ r hr, apiCS_pcancel s cf _ r hr] using h
              · exact (CallsOK.of_wrSame hw).trans (callsOK_setCall _ a c0 _ hc0 hop0.symm
                  (by intro h; have := hf0 h; rw [hinv] at this; cases this))
              · intro n x hx hrun
                obtain ⟨y, hy, hle⟩ := (csok_apiCS s cf _ r hr).1 n x hx
                refine ⟨y, by simpa [setCall] using hy, hle.2.2.1, by rw [hle.2.2.2.1]; exact hrun, ?_⟩
                intro hq hcan
                have hquiet := hq a rfl c hc hinv
                have := apiCS_quiet s cf _ r hr hquiet
                rw [this, hx] at hy; cases hy; exact hcan
            · cases hs
      · cases hs
    · cases hs
  | ret a r =>
    simp only [step, stepI] at hs
    split at hs
    · rename_i c hc
      split at hs
      · simp at hs; subst hs
        exact StepKeep.frame rfl rfl rfl rfl (callsOK_setCall s a c _ hc rfl (fun _ => rfl))
      · split at hs
        · simp at hs; subst hs
          exact StepKeep.frame rfl rfl rfl rfl (callsOK_setCall s a c _ hc rfl (fun _ => rfl))
        · cases hs
    · cases hs
  | wake a =>
    simp only [step, stepI] at hs
    split at hs
    · rename_i c hc
      split at hs
      · rename_i w hst
        split at hs
        · simp at hs; subst hs
          exact StepKeep.frame rfl rfl rfl rfl (callsOK_setCall s a c _ hc rfl (by intro h; rw [hst] at h; cases h))
        · cases hs
      · cases hs
    · cases hs
  | wctx a =>
    simp only [step, stepI] at hs
    split at hs
    · rename_i c hc
      split at hs
      · rename_i w hst
        split at hs
        · simp at hs; subst hs
          exact StepKeep.frame rfl rfl rfl rfl (callsOK_setCall s a c _ hc rfl (by intro h; rw [hst] at h; cases h))
        · cases hs
      · cases hs
    · cases hs
  | envCancel c => simp [Ev.special] at hsp
  | envDo c =>
    simp only [step, stepI] at hs
    split at hs
    · rename_i hpc
      simp at hs; subst hs
      refine ⟨rfl, ?_, CallsOK.of_eq rfl, by intro n x hx hr; exact ⟨x, hx, rfl, hr, fun _ h => h⟩⟩
      intro d h
      simp only [List.contains_cons, Bool.or_eq_true, beq_iff_eq] at h
      rcases h with (h | h) | h
      · subst h; exact Or.inr hpc
      · exact Or.inl h
      · right
        have : d ∈ s.pcancel.erase c := by simpa using h
        simpa using List.mem_of_mem_erase this
    · cases hs
  | envCancelW a =>
    simp only [step, stepI] at hs
    split at hs
    · split at hs
      · simp at hs; subst hs; exact StepKeep.frame rfl rfl rfl rfl (CallsOK.of_eq rfl)
      all_goals cases hs
    · cases hs
  | envErr a e0 =>
    simp only [step, stepI] at hs
    split at hs
    · split at hs
      · simp at hs; subst hs; exact StepKeep.frame rfl rfl rfl rfl (CallsOK.of_eq rfl)
      all_goals cases hs
    · cases hs
  | giveUp n =>
    simp only [step, stepI] at hs
    split at hs
    · rename_i x hx
      split at hs
      · rename_i hg
        split at hs
        · simp at hs; subst hs; exact StepKeep.of_setInst s _ n x _ hx (by rw [hg.1]; simp)
        · simp at hs; subst hs; exact StepKeep.of_setInst s _ n x _ hx (by rw [hg.1]; simp)
      · cases hs
    · cases hs
  | drained n =>
    simp only [step, stepI] at hs
    split at hs
    · rename_i x hx
      split at hs
      · rename_i hg
        simp at hs; subst hs; exact StepKeep.of_setInst s _ n x _ hx (by rw [hg.1]; simp)
      · cases hs
    · cases hs
  | cbin k n f arg root => simp [Ev.special] at hsp
  | cbout k o => simp [Ev.special] at hsp
  | closeExit n =>
    simp only [step, stepI] at hs
    split at hs
    · rename_i x hx
      split at hs
      · rename_i hg
        simp at hs; subst hs; exact StepKeep.of_setInst s _ n x _ hx (by rw [hg]; simp)
      · cases hs
    · cases hs
  | record n dur =>
    simp only [step, stepI] at hs
    split at hs
    · rename_i cf x _ hx
      split at hs
      · rename_i hgd
        refine ⟨recordCS_ent s s' cf n x dur hs, ?_, CallsOK.of_wrSame (wrSame_recordCS s s' cf n x dur hs), ?_⟩
        · intro d h
          rw [recordCS_croots s s' cf n x dur hs, recordCS_pcancel s s' cf n x dur hs] at h; exact h
        · intro m z hz hr
          have hi := recordCS_insts s s' cf n x dur hs
          by_cases hmn : n = m
          · subst hmn; rw [hx] at hz; cases hz; rw [hgd.1] at hr; cases hr
          · exact ⟨z, by rw [hi]; simp [List.getElem?_set, hmn, hz], rfl, hr, fun _ h => h⟩
      · cases hs
    · cases hs
  | emit o =>
    simp only [step, stepI] at hs
    split at hs
    · split at hs
      · simp at hs; subst hs; exact StepKeep.frame rfl rfl rfl rfl (CallsOK.of_eq rfl)
      · cases hs
    · cases hs
  | fire t =>
    simp only [step, stepI] at hs
    split at hs
    · split at hs
      · simp at hs; subst hs; exact StepKeep.frame rfl rfl rfl rfl (CallsOK.of_eq rfl)
      · cases hs
    · cases hs
  | timerCS t =>
    simp only [step, stepI] at hs
    split at hs
    · rename_i tm htm
      split at hs
      · simp at hs; subst hs
        have ha1 : AllRec { s with timers := s.timers.set t { tm with st := .dead } } := allRec_frame ha rfl rfl
        refine ⟨by simp, by intro d h; simpa using h, ?_, ?_⟩
        · exact (CallsOK.of_eq (s := s) (s' := { s with timers := s.timers.set t { tm with st := .dead } }) rfl).trans
            (CallsOK.of_wrSame (wrSame_timerBody _ t tm.rid))
        · intro n x hx hr
          exact ⟨x, timerBody_keep _ ha1 t tm.rid n x hx (by rw [hr]; simp), rfl, hr, fun _ h => h⟩
      · cases hs
    · cases hs
  | probeCtx k b =>
    simp only [step, stepI] at hs
    split at hs
    · split at hs
      · simp at hs; subst hs; exact StepKeep.frame rfl rfl rfl rfl (CallsOK.of_eq rfl)
      · cases hs
    · cases hs
  | probeW a b =>
    simp only [step, stepI] at hs
    split at hs
    · split at hs
      · split at hs
        · simp at hs; subst hs; exact StepKeep.frame rfl rfl rfl rfl (CallsOK.of_eq rfl)
        · cases hs
      · cases hs
    · cases hs
  | quiesce p r l =>
    simp only [step] at hs
    split at hs
    · simp at hs; subst hs; exact StepKeep.frame rfl rfl rfl rfl (CallsOK.of_eq rfl)
    · cases hs

/-! ## the monitor's bookkeeping against the model -/

structure HLink (s : St) (ms : C14haSt) : Prop where
  /-- the monitor's executing entries execute in the model, under the recorded root context; an untouched one that
  was seen live has not been cancelled through its own cancel function -/
  run : ∀ p ∈ ms.running, ∃ (n : Nat) (x : Inst), s.ent[p.1]? = some n ∧ s.insts[n]? = some x ∧ x.st = .running ∧
          ms.roots.find? (·.1 == p.1) = some (p.1, x.root) ∧
          (p.2 = false → p.1 ∈ ms.seenLive → x.cancelled = false)
  /-- while an executing entry is untouched no mutating call is in flight -/
  pm : ∀ p ∈ ms.running, p.2 = false → ms.pendMut = []
  /-- a mutating call that has not returned is in flight for the monitor -/
  cl : ∀ (a : Nat) (c : Call), s.calls[a]? = some c → c.op.quiet = false → c.st = .finished ∨ a ∈ ms.pendMut
  /-- cancelled (or about to be cancelled) root contexts have been announced -/
  cr : ∀ c, s.croots.contains c = true ∨ s.pcancel.contains c = true → ms.croots.contains c = true
  sl : ∀ k ∈ ms.seenLive, k < s.ent.length

theorem hlink_init : HLink {} {} := by
  refine ⟨?_, ?_, ?_, ?_, ?_⟩
  · intro p hp; cases hp
  · intro p hp; cases hp
  · intro a c hc; simp at hc
  · intro c h; simp at h
  · intro k hk; cases hk

theorem HLink.keep {s s' : St} {ms : C14haSt} {q : Prop} (h : HLink s ms) (hk : StepKeep s s' q)
    (hq : ms.pendMut = [] → q) : HLink s' ms := by
  refine ⟨?_, h.pm, ?_, ?_, ?_⟩
  · intro p hp
    obtain ⟨n, x, h1, h2, h3, h4, h5⟩ := h.run p hp
    obtain ⟨x', g1, g2, g3, g4⟩ := hk.keep n x h2 h3
    refine ⟨n, x', by rw [hk.ent]; exact h1, g1, g3, by rw [g2]; exact h4, ?_⟩
    intro hp2 hsl
    exact g4 (hq (h.pm p hp hp2)) (h5 hp2 hsl)
  · intro a c' hc' hqu
    obtain ⟨c, g1, g2, g3⟩ := hk.calls a c' hc'
    rcases h.cl a c g1 (by rw [g2]; exact hqu) with e | e
    · exact Or.inl (g3 e)
    · exact Or.inr e
  · intro c hc; exact h.cr c (hk.cr c hc)
  · intro k hk'; rw [hk.ent]; exact h.sl k hk'

/-- with no mutating call in flight a critical section belongs to a quiet call -/
theorem HLink.quiet {s : St} {ms : C14haSt} (h : HLink s ms) (e : Ev) (hp : ms.pendMut = []) :
    ∀ a, e = .cs a → ∀ c, s.calls[a]? = some c → c.st = .invoked → c.op.quiet = true := by
  intro a _ c hc hinv
  cases hqu : c.op.quiet with
  | true => rfl
  | false =>
    rcases h.cl a c hc hqu with e | e
    · rw [hinv] at e; cases e
    · rw [hp] at e; cases e

theorem hl_generic (s s' : St) (e : Ev) (ms : C14haSt) (hl : HLink s ms) (ha : AllRec s)
    (hs : step s e = some s') (hsp : e.special = false) : HLink s' ms :=
  hl.keep (step_keep s s' e ha hs hsp) (hl.quiet e)

theorem find_cons_ne {k k' r : Nat} {l : List (Nat × Nat)} (h : k ≠ k') :
    ((k, r) :: l).find? (·.1 == k') = l.find? (·.1 == k') := by
  simp [List.find?_cons, h]

/-- one step of the model against the healthy-instance monitor -/
theorem hl_step (s s' : St) (e : Ev) (ms : C14haSt) (msA : C04St) (hl : HLink s ms) (hA : LinkA s msA)
    (ha : AllRec s) (hs : step s e = some s') :
    match Ev.obs e with
    | none => HLink s' ms
    | some o => ∃ ms', monC14ha.step ms o = some ms' ∧ HLink s' ms' := by
  cases e with
  | cfg c => exact ⟨ms, rfl, hl_generic s s' _ ms hl ha hs rfl⟩
  | inv a op =>
    simp only [step, stepI] at hs
    split at hs
    · rename_i hcfg
      simp at hs; subst hs
      have haeq : a = s.calls.length := hcfg.2
      subst haeq
      have hold : ∀ (b : Nat) (cb : Call), (s.calls ++ [({ op := op } : Call)])[b]? = some cb →
          (s.calls[b]? = some cb) ∨ (b = s.calls.length ∧ cb = { op := op }) := by
        intro b cb hcb
        by_cases hlt : b < s.calls.length
        · left; simpa [List.getElem?_append_left hlt] using hcb
        · right
          simp only [List.getElem?_append, hlt, if_false] at hcb
          rcases Nat.lt_or_ge (b - s.calls.length) 1 with g | g
          · have e0 : b - s.calls.length = 0 := by omega
            rw [e0] at hcb; simp at hcb
            exact ⟨by omega, hcb.symm⟩
          · have : [({ op := op } : Call)][b - s.calls.length]? = none := List.getElem?_eq_none (by simpa using g)
            rw [this] at hcb; cases hcb
      cases hqu : op.quiet with
      | true =>
        refine ⟨ms, by simp [Ev.obs, monC14ha, hqu], ?_⟩
        refine ⟨hl.run, hl.pm, ?_, hl.cr, hl.sl⟩
        intro b cb hcb hq
        rcases hold b cb hcb with h0 | ⟨_, h0⟩
        · exact hl.cl b cb h0 hq
        · subst h0; simp [hqu] at hq
      | false =>
        refine ⟨_, by simp only [Ev.obs, monC14ha, hqu]; rfl, ?_⟩
        refine ⟨?_, ?_, ?_, hl.cr, hl.sl⟩
        · intro p hp
          simp only [List.mem_map] at hp
          obtain ⟨p0, hp0, e0⟩ := hp
          subst e0
          obtain ⟨n, x, h1, h2, h3, h4, _⟩ := hl.run p0 hp0
          exact ⟨n, x, h1, h2, h3, h4, by intro h; cases h⟩
        · intro p hp hp2
          simp only [List.mem_map] at hp
          obtain ⟨p0, _, e0⟩ := hp
          subst e0; cases hp2
        · intro b cb hcb hq
          rcases hold b cb hcb with h0 | ⟨h0, _⟩
          · rcases hl.cl b cb h0 hq with e | e
            · exact Or.inl e
            · exact Or.inr (List.mem_cons_of_mem _ e)
          · subst h0; exact Or.inr (List.mem_cons_self)
    · cases hs
  | cs a => exact hl_generic s s' _ ms hl ha hs rfl
  | ret a r =>
    have hl' := hl_generic s s' _ ms hl ha hs rfl
    refine ⟨_, rfl, ?_⟩
    have hfin : ∀ c', s'.calls[a]? = some c' → c'.st = .finished := by
      simp only [step, stepI] at hs
      split at hs
      · rename_i c hc
        split at hs
        · simp at hs; subst hs
          intro c' hc'; simp [setCall, get_lt hc] at hc'; subst hc'; rfl
        · split at hs
          · simp at hs; subst hs
            intro c' hc'; simp [setCall, get_lt hc] at hc'; subst hc'; rfl
          · cases hs
      · cases hs
    refine ⟨hl'.run, ?_, ?_, hl'.cr, hl'.sl⟩
    · intro p hp hp2
      have := hl'.pm p hp hp2
      simp [this]
    · intro b cb hcb hq
      by_cases hba : b = a
      · subst hba; exact Or.inl (hfin cb hcb)
      · rcases hl'.cl b cb hcb hq with e | e
        · exact Or.inl e
        · right; simp only [List.mem_filter]; exact ⟨e, by simpa using hba⟩
  | wake a => exact hl_generic s s' _ ms hl ha hs rfl
  | wctx a => exact hl_generic s s' _ ms hl ha hs rfl
  | envCancel c =>
    simp only [step, stepI] at hs
    split at hs
    · simp at hs; subst hs
      refine ⟨_, rfl, hl.run, hl.pm, hl.cl, ?_, hl.sl⟩
      intro d h
      simp only [List.contains_cons, Bool.or_eq_true, beq_iff_eq] at h ⊢
      rcases h with h | h | h
      · exact Or.inr (hl.cr d (Or.inl h))
      · exact Or.inl h
      · exact Or.inr (hl.cr d (Or.inr h))
    · cases hs
  | envDo c => exact hl_generic s s' _ ms hl ha hs rfl
  | envCancelW a => exact ⟨ms, rfl, hl_generic s s' _ ms hl ha hs rfl⟩
  | envErr a e0 => exact ⟨ms, rfl, hl_generic s s' _ ms hl ha hs rfl⟩
  | giveUp n => exact hl_generic s s' _ ms hl ha hs rfl
  | drained n => exact hl_generic s s' _ ms hl ha hs rfl
  | cbin k n f arg root =>
    simp only [step, stepI] at hs
    split at hs
    · rename_i x hx
      split at hs
      · split at hs
        · rename_i r hr hg
          simp at hs; subst hs
          obtain ⟨hw, _, _, hk, _, _, hroot⟩ := hg
          subst hk
          have hlt := get_lt hx
          refine ⟨_, rfl, ?_⟩
          refine ⟨?_, ?_, hl.cl, hl.cr, ?_⟩
          · intro p hp
            simp only [List.mem_append, List.mem_singleton] at hp
            rcases hp with hp | hp
            · obtain ⟨m, y, h1, h2, h3, h4, h5⟩ := hl.run p hp
              have hpl := get_lt h1
              have hne : n ≠ m := by
                intro e0; subst e0; rw [hx] at h2; cases h2; rw [hw] at h3; cases h3
              refine ⟨m, y, by rw [List.getElem?_append_left hpl]; exact h1,
                by simp [setInst, List.getElem?_set, hne, h2], h3, ?_, h5⟩
              rw [find_cons_ne (by omega)]; exact h4
            · subst hp
              refine ⟨n, { x with st := .running }, by simp, by simp [setInst, hlt], rfl, ?_, ?_⟩
              · simp [List.find?_cons, hroot]
              · intro _ hsl; have := hl.sl _ hsl; omega
          · intro p hp hp2
            simp only [List.mem_append, List.mem_singleton] at hp
            rcases hp with hp | hp
            · exact hl.pm p hp hp2
            · subst hp
              simp only [Bool.not_eq_false'] at hp2
              simpa using hp2
          · intro k' hk'
            have := hl.sl k' hk'
            simp; omega
        · cases hs
      · cases hs
    · cases hs
  | cbout k o =>
    simp only [step, stepI] at hs
    split at hs
    · rename_i n hn
      split at hs
      · rename_i x hx
        split at hs
        · simp at hs; subst hs
          refine ⟨_, rfl, ?_⟩
          refine ⟨?_, ?_, hl.cl, hl.cr, hl.sl⟩
          · intro p hp
            simp only [List.mem_filter, bne_iff_ne, ne_eq] at hp
            obtain ⟨m, y, h1, h2, h3, h4, h5⟩ := hl.run p hp.1
            have hne : n ≠ m := by
              intro e0; subst e0
              exact hp.2 (hA.l4 p.1 k n h1 hn)
            exact ⟨m, y, h1, by simp [setInst, List.getElem?_set, hne, h2], h3, h4, h5⟩
          · intro p hp hp2
            simp only [List.mem_filter] at hp
            exact hl.pm p hp.1 hp2
        · cases hs
      · cases hs
    · cases hs
  | closeExit n => exact hl_generic s s' _ ms hl ha hs rfl
  | record n dur => exact hl_generic s s' _ ms hl ha hs rfl
  | emit o =>
    have hl' := hl_generic s s' _ ms hl ha hs rfl
    have hline : o.isLine = true := by
      simp only [step, stepI] at hs
      split at hs
      · split at hs
        · rename_i h0; exact h0.2
        · cases hs
      · cases hs
    cases o <;> simp [Obs.isLine] at hline
    all_goals exact ⟨ms, rfl, hl'⟩
  | fire t => exact hl_generic s s' _ ms hl ha hs rfl
  | timerCS t => exact hl_generic s s' _ ms hl ha hs rfl
  | probeCtx k b =>
    simp only [step, stepI] at hs
    split at hs
    · rename_i n hn
      split at hs
      · rename_i hb
        simp at hs; subst hs
        cases b with
        | false =>
          refine ⟨_, rfl, ?_⟩
          refine ⟨?_, hl.pm, hl.cl, hl.cr, ?_⟩
          · intro p hp
            obtain ⟨m, y, h1, h2, h3, h4, h5⟩ := hl.run p hp
            refine ⟨m, y, h1, h2, h3, h4, ?_⟩
            intro hp2 hsl
            simp only [List.mem_cons] at hsl
            rcases hsl with e0 | hsl
            · rw [e0, hn] at h1; cases h1
              simp only [ctxErrOf, h2, St.isCancelled, Bool.or_eq_false_iff] at hb
              exact hb.1
            · exact h5 hp2 hsl
          · intro k' hk'
            simp only [List.mem_cons] at hk'
            rcases hk' with e0 | hk'
            · subst e0; exact get_lt hn
            · exact hl.sl k' hk'
        | true =>
          -- the instance is cancelled: it is not healthy for the monitor
          have hstep : ∃ ms', monC14ha.step ms (.probeCtx k true) = some ms' ∧
              ms' = { ms with running := ms.running.map fun p => if p.1 == k then (p.1, true) else p } := by
            simp only [monC14ha]
            split
            · rename_i p' hfind
              split
              · rename_i hh
                exfalso
                simp only [Bool.and_eq_true, List.any_eq_true, beq_iff_eq, Bool.not_eq_true'] at hh
                obtain ⟨⟨⟨p, hp, hpk, hp2⟩, hsl⟩, hroot⟩ := hh
                obtain ⟨m, y, h1, h2, h3, h4, h5⟩ := hl.run p hp
                rw [hpk, hn] at h1; cases h1
                rw [hpk, hfind] at h4
                simp only [Option.some.injEq] at h4
                subst h4
                have hcan := h5 hp2 (by rw [hpk]; simpa using hsl)
                have hcr : s.croots.contains y.root = false := by
                  cases hc : s.croots.contains y.root with
                  | false => rfl
                  | true => have := hl.cr y.root (Or.inl hc); rw [hroot] at this; cases this
                simp only [ctxErrOf, h2, St.isCancelled] at hb
                rw [hcan, hcr] at hb; simp at hb
              · exact ⟨_, rfl, rfl⟩
            · exact ⟨_, by simp, rfl⟩
          obtain ⟨ms', hm1, hm2⟩ := hstep
          subst hm2
          refine ⟨_, hm1, ?_⟩
          · refine ⟨?_, ?_, hl.cl, hl.cr, hl.sl⟩
            · intro p hp
              simp only [List.mem_map] at hp
              obtain ⟨p0, hp0, e0⟩ := hp
              obtain ⟨m, y, h1, h2, h3, h4, h5⟩ := hl.run p0 hp0
              by_cases hk : (p0.1 == k) = true
              · simp only [hk, if_true] at e0; subst e0
                exact ⟨m, y, h1, h2, h3, h4, by intro h; cases h⟩
              · simp only [hk] at e0; subst e0
                exact ⟨m, y, h1, h2, h3, h4, h5⟩
            · intro p hp hp2
              simp only [List.mem_map] at hp
              obtain ⟨p0, hp0, e0⟩ := hp
              by_cases hk : (p0.1 == k) = true
              · simp only [hk, if_true] at e0; subst e0; cases hp2
              · simp only [hk] at e0; subst e0; exact hl.pm p0 hp0 hp2
      · cases hs
    · cases hs
  | probeW a b => exact ⟨ms, rfl, hl_generic s s' _ ms hl ha hs rfl⟩
  | quiesce p r l => exact ⟨ms, rfl, hl_generic s s' _ ms hl ha hs rfl⟩

theorem hl_run (s0 s : St) (es : List Ev) (hg : Good s0) (ms0 : C14haSt) (hl : HLink s0 ms0)
    (msA : C04St) (hA : LinkA s0 msA) (hr : model.run s0 es = some s) :
    ∃ ms, monC14ha.run ms0 (es.filterMap model.obs) = some ms ∧ HLink s ms := by
  induction es generalizing s0 ms0 msA with
  | nil => simp [OLTS.run] at hr; subst hr; exact ⟨ms0, rfl, hl⟩
  | cons e es ih =>
    simp only [OLTS.run] at hr
    cases hst : model.step s0 e with
    | none => simp [hst] at hr
    | some s1 =>
      simp [hst] at hr
      have hk := step_ok s0 s1 e hg.recs hst
      have hg1 : Good s1 := ⟨hk.1, hk.2.inv hg.chain⟩
      have hA1 := link_step s0 s1 e msA hA hg.recs hst hg1
      have hstep := hl_step s0 s1 e ms0 msA hl hA hg.recs hst
      cases hob : Ev.obs e with
      | none =>
        rw [hob] at hA1 hstep
        obtain ⟨ms, h1, h2⟩ := ih s1 hg1 ms0 hstep msA hA1 hr
        refine ⟨ms, ?_, h2⟩
        have : model.obs e = none := hob
        simpa [List.filterMap_cons, this] using h1
      | some o =>
        rw [hob] at hA1 hstep
        obtain ⟨msA', _, hA'⟩ := hA1
        obtain ⟨ms1, hm1, hl1⟩ := hstep
        obtain ⟨ms, h1, h2⟩ := ih s1 hg1 ms1 hl1 msA' hA' hr
        refine ⟨ms, ?_, h2⟩
        have : model.obs e = some o := hob
        simp [List.filterMap_cons, this, ObsMonitor.run, hm1, h1]

end UtilModel.Routine
