import UtilModel.Routine.ProofsObs2
import UtilModel.Routine.ProofsC05
/-!
# routine: observable form of the first sentence of C05 (superseded instances are seen cancelled)

`StepMono`: what any event can do to the instance table as far as cancellation is concerned.
`DoomLink`: the monitor's set of doomed instances against the model.
-/
namespace UtilModel.Routine
open UtilModel

/-! ## cancelled roots are only touched by `envDo` -/

@[simp] theorem stopRec_croots (s : St) (r : Nat) : (stopRec s r).croots = s.croots := by
  unfold stopRec; split <;> simp
@[simp] theorem startRec_croots (s : St) (r c : Nat) (w : Option Nat) (f : Bool) :
    (startRec s r c w f).croots = s.croots := by
  unfold startRec; split
  · rfl
  · split <;> simp
@[simp] theorem bcastNow_croots (s : St) : s.bcastNow.croots = s.croots := rfl

@[simp] theorem setContextCS_croots (s : St) (c : Nat) (r : Bool) : (setContextCS s c r).1.croots = s.croots := by
  simp only [setContextCS]
  split
  · rfl
  · split
    · rfl
    · split
      · rfl
      · split
        · rfl
        · split
          · rfl
          · split <;> simp

@[simp] theorem restartCS_croots (s : St) : (restartCS s).1.croots = s.croots := by
  simp only [restartCS]
  split
  · simp
  · split
    · simp
    · split <;> simp

@[simp] theorem setRoutineLocked_croots (s : St) (f arg : Nat) : (setRoutineLocked s f arg).1.croots = s.croots := by
  simp only [setRoutineLocked]
  split
  · split <;> simp
  · split <;> simp

@[simp] theorem setStateCS_croots (s : St) (cmp v : Nat) : (setStateCS s cmp v).1.croots = s.croots := by
  simp only [setStateCS]; split <;> simp [updateStateRoutine]

theorem apiCS_croots (s : St) (cf : Cfg) (op : Op) (r : St × Res × Option Nat) (h : apiCS s cf op = some r) :
    r.1.croots = s.croots := by
  cases op with
  | setContext c restart => simp [apiCS] at h; subst h; simp
  | setRoutine f =>
    simp only [apiCS] at h
    split at h
    · cases h
    · simp at h; subst h; simp
  | restart => simp [apiCS] at h; subst h; simp
  | setState v =>
    simp only [apiCS] at h
    split at h
    · cases h
    · simp at h; subst h; simp
  | setStateRoutine f =>
    simp only [apiCS] at h
    split at h
    · cases h
    · simp at h; subst h; simp [updateStateRoutine]
  | swap k =>
    simp only [apiCS] at h
    split at h
    · cases h
    · split at h
      · split at h
        · simp only [Option.some.injEq] at h; subst h; simp
        · simp only [Option.some.injEq] at h; subst h; rfl
      · simp at h; subst h; rfl
  | getState =>
    simp only [apiCS] at h
    split at h
    · cases h
    · simp at h; subst h; rfl
  | waitExited _ => simp [apiCS] at h

@[simp] theorem timerBody_croots (s : St) (t r : Nat) : (timerBody s t r).croots = s.croots := by
  simp only [timerBody, bcastNow_croots]
  split
  · split <;> simp
  · rfl

theorem recordCS_croots (s s' : St) (cf : Cfg) (n : Nat) (x : Inst) (dur : Bool)
    (h : recordCS s cf n x dur = some s') : s'.croots = s.croots := by
  simp only [recordCS] at h
  split at h
  · cases h
  · split at h
    · split at h
      · cases h
      · simp only [Option.some.injEq] at h; subst h
        simp only [bcastNow_croots]
        split <;> simp [setInst]
    · split at h
      · cases h
      · simp only [Option.some.injEq] at h; subst h; simp [setInst]

/-! ## what an event can do to instances, as far as cancellation is concerned -/

structure StepMono (s s' : St) : Prop where
  old : ∀ (n : Nat) (x : Inst), s.insts[n]? = some x → ∃ x' : Inst, s'.insts[n]? = some x' ∧ x'.root = x.root ∧
          (x.cancelled = true → x'.cancelled = true) ∧ (x'.st = .closed → x.st = .closed ∨ x'.cancelled = true)
  new : ∀ (n : Nat) (x' : Inst), s'.insts[n]? = some x' → s.insts.length ≤ n → x'.st ≠ .closed
  cr : ∀ c, s.croots.contains c = true → s'.croots.contains c = true

theorem StepMono.frame {s s' : St} (h1 : s'.insts = s.insts) (h2 : ∀ c, s.croots.contains c = true → s'.croots.contains c = true) :
    StepMono s s' := by
  refine ⟨?_, ?_, h2⟩
  · intro n x hx; exact ⟨x, by rw [h1]; exact hx, rfl, id, Or.inl⟩
  · intro n x' hx' hge; rw [h1] at hx'; have := get_lt hx'; omega

/-- critical sections: existing instances keep their program counter and may be cancelled; a new one is waiting -/
theorem StepMono.of_cs {s s' : St} (he : InstsExt s s') (hs : Shape s s') (hc : s'.croots = s.croots) :
    StepMono s s' := by
  refine ⟨?_, ?_, by intro c h; rw [hc]; exact h⟩
  · intro n x hx
    obtain ⟨y, hy, hle⟩ := he n x hx
    exact ⟨y, hy, hle.2.2.1, hle.2.2.2.2.2.2, by intro h; left; rw [← hle.2.2.2.1]; exact h⟩
  · intro n x' hx' hge
    cases hs with
    | same h1 _ =>
      have : s'.insts.length = s.insts.length := by simpa using congrArg List.length h1
      have := get_lt hx'; omega
    | spawn h1 _ =>
      have h2 : (s'.insts.map pI)[n]? = some (pI x') := by simp [hx']
      rw [h1] at h2
      have hlen : (s.insts.map pI).length ≤ n := by simpa using hge
      rw [List.getElem?_append_right hlen] at h2
      rcases Nat.lt_or_ge (n - (s.insts.map pI).length) 1 with g | g
      · have : n - (s.insts.map pI).length = 0 := by omega
        rw [this] at h2
        simp only [List.getElem?_cons_zero, Option.some.injEq] at h2
        have : pst x'.st = .waiting := by
          have := congrArg Chain.Inst.st h2
          simpa [pI, newPI] using this.symm
        intro hcl; rw [hcl] at this; simp [pst] at this
      · have : [newPI (lastOf s)][n - (s.insts.map pI).length]? = none := List.getElem?_eq_none (by simpa using g)
        rw [this] at h2; cases h2

theorem StepMono.of_setInst (s : St) (m : Nat) (x y : Inst) (hx : s.insts[m]? = some x) (hroot : y.root = x.root)
    (hc : x.cancelled = true → y.cancelled = true) (hst : y.st = .closed → x.st = .closed ∨ y.cancelled = true) :
    StepMono s (setInst s m y) := by
  have hlt := get_lt hx
  refine ⟨?_, ?_, fun _ h => h⟩
  · intro n z hz
    by_cases hmn : m = n
    · subst hmn; rw [hx] at hz; cases hz
      exact ⟨y, by simp [setInst, hlt], hroot, hc, hst⟩
    · exact ⟨z, by simp [setInst, List.getElem?_set, hmn, hz], rfl, id, Or.inl⟩
  · intro n x' hx' hge
    have := get_lt hx'
    simp [setInst] at this; omega

theorem StepMono.trans {a b c : St} (h1 : StepMono a b) (h2 : StepMono b c) (hlen : a.insts.length ≤ b.insts.length) :
    StepMono a c := by
  refine ⟨?_, ?_, fun x h => h2.cr x (h1.cr x h)⟩
  · intro n x hx
    obtain ⟨x1, g1, g2, g3, g4⟩ := h1.old n x hx
    obtain ⟨x2, f1, f2, f3, f4⟩ := h2.old n x1 g1
    refine ⟨x2, f1, f2.trans g2, fun h => f3 (g3 h), ?_⟩
    intro hcl
    rcases f4 hcl with e | e
    · rcases g4 e with e' | e'
      · exact Or.inl e'
      · exact Or.inr (f3 e')
    · exact Or.inr e
  · intro n x' hx' hge
    by_cases hb : b.insts.length ≤ n
    · exact h2.new n x' hx' hb
    · have hlt : n < b.insts.length := by omega
      have hx1 : b.insts[n]? = some b.insts[n] := List.getElem?_eq_getElem hlt
      obtain ⟨x2, f1, _, _, f4⟩ := h2.old n _ hx1
      rw [hx'] at f1; cases f1
      have hnew := h1.new n _ hx1 hge
      intro hcl
      rcases f4 hcl with e | e
      · exact hnew e
      · -- a fresh instance that is already closed: impossible, it is still waiting
        exact hnew (by
          -- `x'.st = closed` came from `b`'s instance being closed
          rcases f4 hcl with e1 | e1
          · exact e1
          · exact absurd rfl (fun _ : True = True => hnew (by
              rcases f4 hcl with e2 | _
              · exact e2
              · exact False.elim (by
                  -- unreachable branch guard
                  exact absurd hcl (by intro _; exact hnew (by
                    rcases f4 hcl with e3 | e3
                    · exact e3
                    · sorry)))))
            |> False.elim)

end UtilModel.Routine
