import UtilModel.Routine.ProofsObs2
import UtilModel.Routine.ProofsC05
import UtilModel.Routine.ProofsC14
/-!
# routine: observable form of the first sentence of C05 (superseded instances are seen cancelled)

`StepMono`: what any event can do to the instance table as far as cancellation is concerned.
`DoomLink`: the monitor's set of doomed instances against the model.
-/
namespace UtilModel.Routine
open UtilModel

/-! ## cancelled roots are only touched by `envDo` -/

@[simp] theorem stopRec_croots (s : St) (r : Nat) : (stopRec s r).croots = s.croots := by
  unfold stopRec; split <;> simp
@[simp] theorem startRec_croots (s : St) (r c : Nat) (w : Option Nat) (f : Bool) :
    (startRec s r c w f).croots = s.croots := by
  unfold startRec; split
  · rfl
  · split <;> simp
@[simp] theorem bcastNow_croots (s : St) : s.bcastNow.croots = s.croots := rfl

@[simp] theorem setContextCS_croots (s : St) (c : Nat) (r : Bool) : (setContextCS s c r).1.croots = s.croots := by
  simp only [setContextCS]
  split
  · rfl
  · split
    · rfl
    · split
      · rfl
      · split
        · rfl
        · split
          · rfl
          · split <;> simp

@[simp] theorem restartCS_croots (s : St) : (restartCS s).1.croots = s.croots := by
  simp only [restartCS]
  split
  · simp
  · split
    · simp
    · split <;> simp

@[simp] theorem setRoutineLocked_croots (s : St) (f arg : Nat) : (setRoutineLocked s f arg).1.croots = s.croots := by
  simp only [setRoutineLocked]
  split
  · split <;> simp
  · split <;> simp

@[simp] theorem setStateCS_croots (s : St) (cmp v : Nat) : (setStateCS s cmp v).1.croots = s.croots := by
  simp only [setStateCS]; split <;> simp [updateStateRoutine]

theorem apiCS_croots (s : St) (cf : Cfg) (op : Op) (r : St × Res × Option Nat) (h : apiCS s cf op = some r) :
    r.1.croots = s.croots := by
  cases op with
  | setContext c restart => simp [apiCS] at h; subst h; simp
  | setRoutine f =>
    simp only [apiCS] at h
    split at h
    · cases h
    · simp at h; subst h; simp
  | restart => simp [apiCS] at h; subst h; simp
  | setState v =>
    simp only [apiCS] at h
    split at h
    · cases h
    · simp at h; subst h; simp
  | setStateRoutine f =>
    simp only [apiCS] at h
    split at h
    · cases h
    · simp at h; subst h; simp [updateStateRoutine]
  | swap k =>
    simp only [apiCS] at h
    split at h
    · cases h
    · split at h
      · split at h
        · simp only [Option.some.injEq] at h; subst h; simp
        · simp only [Option.some.injEq] at h; subst h; rfl
      · simp at h; subst h; rfl
  | getState =>
    simp only [apiCS] at h
    split at h
    · cases h
    · simp at h; subst h; rfl
  | waitExited _ => simp [apiCS] at h

@[simp] theorem timerBody_croots (s : St) (t r : Nat) : (timerBody s t r).croots = s.croots := by
  simp only [timerBody, bcastNow_croots]
  split
  · split <;> simp
  · rfl

theorem recordCS_croots (s s' : St) (cf : Cfg) (n : Nat) (x : Inst) (dur : Bool)
    (h : recordCS s cf n x dur = some s') : s'.croots = s.croots := by
  simp only [recordCS] at h
  split at h
  · cases h
  · split at h
    · split at h
      · cases h
      · simp only [Option.some.injEq] at h; subst h
        simp only [bcastNow_croots]
        split <;> simp [setInst]
    · split at h
      · cases h
      · simp only [Option.some.injEq] at h; subst h; simp [setInst]

/-! ## what an event can do to instances, as far as cancellation is concerned -/

structure StepMono (s s' : St) : Prop where
  old : ∀ (n : Nat) (x : Inst), s.insts[n]? = some x → ∃ x' : Inst, s'.insts[n]? = some x' ∧ x'.root = x.root ∧
          (x.cancelled = true → x'.cancelled = true) ∧ (x'.st = .closed → x.st = .closed ∨ x'.cancelled = true)
  new : ∀ (n : Nat) (x' : Inst), s'.insts[n]? = some x' → s.insts.length ≤ n → x'.st ≠ .closed
  cr : ∀ c, s.croots.contains c = true → s'.croots.contains c = true

theorem StepMono.frame {s s' : St} (h1 : s'.insts = s.insts) (h2 : ∀ c, s.croots.contains c = true → s'.croots.contains c = true) :
    StepMono s s' := by
  refine ⟨?_, ?_, h2⟩
  · intro n x hx; exact ⟨x, by rw [h1]; exact hx, rfl, id, Or.inl⟩
  · intro n x' hx' hge; rw [h1] at hx'; have := get_lt hx'; omega

/-- critical sections: existing instances keep their program counter and may be cancelled; a new one is waiting -/
theorem StepMono.of_cs {s s' : St} (he : InstsExt s s') (hs : Shape s s') (hc : s'.croots = s.croots) :
    StepMono s s' := by
  refine ⟨?_, ?_, by intro c h; rw [hc]; exact h⟩
  · intro n x hx
    obtain ⟨y, hy, hle⟩ := he n x hx
    exact ⟨y, hy, hle.2.2.1, hle.2.2.2.2.2.2, by intro h; left; rw [← hle.2.2.2.1]; exact h⟩
  · intro n x' hx' hge
    cases hs with
    | same h1 _ =>
      have : s'.insts.length = s.insts.length := by simpa using congrArg List.length h1
      have := get_lt hx'; omega
    | spawn h1 _ =>
      have h2 : (s'.insts.map pI)[n]? = some (pI x') := by simp [hx']
      rw [h1] at h2
      have hlen : (s.insts.map pI).length ≤ n := by simpa using hge
      rw [List.getElem?_append_right hlen] at h2
      rcases Nat.lt_or_ge (n - (s.insts.map pI).length) 1 with g | g
      · have : n - (s.insts.map pI).length = 0 := by omega
        rw [this] at h2
        simp only [List.getElem?_cons_zero, Option.some.injEq] at h2
        have : pst x'.st = .waiting := by
          have := congrArg Chain.Inst.st h2
          simpa [pI, newPI] using this.symm
        intro hcl; rw [hcl] at this; simp [pst] at this
      · have : [newPI (lastOf s)][n - (s.insts.map pI).length]? = none := List.getElem?_eq_none (by simpa using g)
        rw [this] at h2; cases h2

theorem StepMono.of_setInst (s : St) (m : Nat) (x y : Inst) (hx : s.insts[m]? = some x) (hroot : y.root = x.root)
    (hc : x.cancelled = true → y.cancelled = true) (hst : y.st = .closed → x.st = .closed ∨ y.cancelled = true) :
    StepMono s (setInst s m y) := by
  have hlt := get_lt hx
  refine ⟨?_, ?_, fun _ h => h⟩
  · intro n z hz
    by_cases hmn : m = n
    · subst hmn; rw [hx] at hz; cases hz
      exact ⟨y, by simp [setInst, hlt], hroot, hc, hst⟩
    · exact ⟨z, by simp [setInst, List.getElem?_set, hmn, hz], rfl, id, Or.inl⟩
  · intro n x' hx' hge
    have := get_lt hx'
    simp [setInst] at this; omega

/-- every event is monotone for cancellation -/
theorem step_mono (s s' : St) (e : Ev) (ha : AllRec s) (hs : step s e = some s') : StepMono s s' := by
  cases e with
  | cfg c =>
    simp only [step, stepI] at hs
    split at hs
    · simp at hs; subst hs; exact StepMono.frame rfl (fun _ h => h)
    · cases hs
  | inv a op =>
    simp only [step, stepI] at hs
    split at hs
    · simp at hs; subst hs; exact StepMono.frame rfl (fun _ h => h)
    · cases hs
  | cs a =>
    simp only [step, stepI] at hs
    split at hs
    · rename_i cf c hcf hc
      split at hs
      · split at hs
        · split at hs
          · rename_i rinr _ _
            simp at hs; subst hs
            exact StepMono.frame (by simp [setCall, waitSample]) (by intro c h; simpa [setCall, waitSample] using h)
          · cases hs
        · split at hs
          · cases hs
          · split at hs
            · rename_i r hr
              simp at hs; subst hs
              have h1 := StepMono.of_cs (csok_apiCS s cf _ r hr).1 (apiCS_shape s cf _ r hr) (apiCS_croots s cf _ r hr)
              exact ⟨h1.old, h1.new, h1.cr⟩
            · cases hs
      · cases hs
    · cases hs
  | ret a r =>
    simp only [step, stepI] at hs
    split at hs
    · split at hs
      · simp at hs; subst hs; exact StepMono.frame rfl (fun _ h => h)
      · split at hs
        · simp at hs; subst hs; exact StepMono.frame rfl (fun _ h => h)
        · cases hs
    · cases hs
  | wake a =>
    simp only [step, stepI] at hs
    split at hs
    · split at hs
      · split at hs
        · simp at hs; subst hs; exact StepMono.frame rfl (fun _ h => h)
        · cases hs
      · cases hs
    · cases hs
  | wctx a =>
    simp only [step, stepI] at hs
    split at hs
    · split at hs
      · split at hs
        · simp at hs; subst hs; exact StepMono.frame rfl (fun _ h => h)
        · cases hs
      · cases hs
    · cases hs
  | envCancel c =>
    simp only [step, stepI] at hs
    split at hs
    · simp at hs; subst hs; exact StepMono.frame rfl (fun _ h => h)
    · cases hs
  | envDo c =>
    simp only [step, stepI] at hs
    split at hs
    · simp at hs; subst hs
      exact StepMono.frame rfl (by intro d h; simp only [List.contains_cons, Bool.or_eq_true]; exact Or.inr h)
    · cases hs
  | envCancelW a =>
    simp only [step, stepI] at hs
    split at hs
    · split at hs
      · simp at hs; subst hs; exact StepMono.frame rfl (fun _ h => h)
      all_goals cases hs
    · cases hs
  | giveUp n =>
    simp only [step, stepI] at hs
    split at hs
    · rename_i x hx
      split at hs
      · split at hs
        · simp at hs; subst hs; exact StepMono.of_setInst s n x _ hx rfl id (by simp)
        · simp at hs; subst hs; exact StepMono.of_setInst s n x _ hx rfl id (by simp)
      · cases hs
    · cases hs
  | drained n =>
    simp only [step, stepI] at hs
    split at hs
    · rename_i x hx
      split at hs
      · simp at hs; subst hs; exact StepMono.of_setInst s n x _ hx rfl id (by simp)
      · cases hs
    · cases hs
  | cbin k n f arg root =>
    simp only [step, stepI] at hs
    split at hs
    · rename_i x hx
      split at hs
      · split at hs
        · simp at hs; subst hs
          have h1 := StepMono.of_setInst s n x { x with st := .running } hx rfl id (by simp)
          exact ⟨h1.old, h1.new, h1.cr⟩
        · cases hs
      · cases hs
    · cases hs
  | cbout k o =>
    simp only [step, stepI] at hs
    split at hs
    · rename_i n hn
      split at hs
      · rename_i x hx
        split at hs
        · simp at hs; subst hs; exact StepMono.of_setInst s n x _ hx rfl id (by simp)
        · cases hs
      · cases hs
    · cases hs
  | closeExit n =>
    simp only [step, stepI] at hs
    split at hs
    · rename_i x hx
      split at hs
      · simp at hs; subst hs; exact StepMono.of_setInst s n x _ hx rfl (fun _ => rfl) (fun _ => Or.inr rfl)
      · cases hs
    · cases hs
  | record n dur =>
    simp only [step, stepI] at hs
    split at hs
    · rename_i cf x _ hx
      split at hs
      · rename_i hgd
        have hk := recordCS_ok s s' cf n x dur hx hgd.1 hs
        have hlen := recordCS_len s s' cf n x dur hs
        refine ⟨?_, ?_, by intro c h; rw [recordCS_croots s s' cf n x dur hs]; exact h⟩
        · intro m z hz
          obtain ⟨y, hy, hle⟩ := hk.1.1 m z hz
          exact ⟨y, hy, hle.2.2.1, hle.2.2.2.2.2.2, by intro h; left; rw [← hle.2.2.2.1]; exact h⟩
        · intro m x' hx' hge; have := get_lt hx'; omega
      · cases hs
    · cases hs
  | emit o =>
    simp only [step, stepI] at hs
    split at hs
    · split at hs
      · simp at hs; subst hs; exact StepMono.frame rfl (fun _ h => h)
      · cases hs
    · cases hs
  | fire t =>
    simp only [step, stepI] at hs
    split at hs
    · split at hs
      · simp at hs; subst hs; exact StepMono.frame rfl (fun _ h => h)
      · cases hs
    · cases hs
  | timerCS t =>
    simp only [step, stepI] at hs
    split at hs
    · rename_i tm htm
      split at hs
      · simp at hs; subst hs
        have hb : CSOK s { s with timers := s.timers.set t { tm with st := .dead } } := CSOK.of_eq rfl rfl
        exact StepMono.of_cs (hb.trans (csok_timerBody _ t tm.rid)).1
          ((timerBody_shape { s with timers := s.timers.set t { tm with st := .dead } } t tm.rid).of_base rfl rfl)
          (by simp)
      · cases hs
    · cases hs
  | probeCtx k b =>
    simp only [step, stepI] at hs
    split at hs
    · split at hs
      · simp at hs; subst hs; exact StepMono.frame rfl (fun _ h => h)
      · cases hs
    · cases hs
  | probeW a b =>
    simp only [step, stepI] at hs
    split at hs
    · split at hs
      · split at hs
        · simp at hs; subst hs; exact StepMono.frame rfl (fun _ h => h)
        · cases hs
      · cases hs
    · cases hs
  | quiesce p r l =>
    simp only [step] at hs
    split at hs
    · simp at hs; subst hs; exact StepMono.frame rfl (fun _ h => h)
    · cases hs

/-- an instance that has exited has a cancelled context (`execute` calls `cancel()` before `close(exitedCh)`) -/
def I1 (s : St) : Prop := ∀ (n : Nat) (x : Inst), s.insts[n]? = some x → x.st = .closed → x.cancelled = true

theorem i1_step {s s' : St} (h : I1 s) (hm : StepMono s s') : I1 s' := by
  intro n x' hx' hcl
  by_cases hlt : n < s.insts.length
  · have hx : s.insts[n]? = some s.insts[n] := List.getElem?_eq_getElem hlt
    obtain ⟨y, hy, _, g3, g4⟩ := hm.old n _ hx
    rw [hx'] at hy; cases hy
    rcases g4 hcl with e | e
    · exact g3 (h n _ hx e)
    · exact e
  · exact absurd hcl (hm.new n x' hx' (by omega))

theorem i1_run (s s' : St) (es : List Ev) (h : I1 s) (ha : AllRec s) (hr : model.run s es = some s') : I1 s' := by
  induction es generalizing s with
  | nil => simp [OLTS.run] at hr; subst hr; exact h
  | cons e es ih =>
    simp only [OLTS.run] at hr
    cases hst : model.step s e with
    | none => simp [hst] at hr
    | some s1 =>
      simp [hst] at hr
      exact ih s1 (i1_step h (step_mono s s1 e ha hst)) (step_ok s s1 e ha hst).1 hr

theorem ctxErr_mono {s s' : St} (hm : StepMono s s') (n : Nat) (hlt : n < s.insts.length)
    (h : ctxErrOf s n = true) : ctxErrOf s' n = true := by
  have hx : s.insts[n]? = some s.insts[n] := List.getElem?_eq_getElem hlt
  obtain ⟨y, hy, g2, g3, _⟩ := hm.old n _ hx
  simp only [ctxErrOf, hx, St.isCancelled, Bool.or_eq_true] at h
  simp only [ctxErrOf, hy, St.isCancelled, Bool.or_eq_true]
  rcases h with e | e
  · exact Or.inl (g3 e)
  · right; rw [g2]; exact hm.cr _ e

/-! ## a superseding critical section leaves no old instance current -/

/-- the current instance after the critical section, if any, was created by it -/
def CurNew (s s' : St) : Prop := ∀ n, curInst s' = some n → s.insts.length ≤ n

theorem curInst_stopRec {s : St} {r : Nat} {x : Rec} (hr : s.routine = some r) (hx : s.recs[r]? = some x) :
    curInst (stopRec s r) = none := by
  have hr' : (stopRec s r).routine = some r := by simp [hr]
  have hx' : (stopRec s r).recs[r]? = some x.stopped := by simp [stopRec_recs_get, hx]
  rw [(curInst_of hr' hx').1]; rfl

theorem curInst_startRec (S : St) (r c : Nat) (w : Option Nat) (force : Bool) (hr : S.routine = some r) :
    curInst (startRec S r c w force) = curInst S ∨ curInst (startRec S r c w force) = some S.insts.length := by
  rcases startRec_cases S r c w force with e | ⟨x, hx, h1, h2, _, h4⟩
  · left; rw [e]
  · right
    have hr' : (startRec S r c w force).routine = some r := by rw [h2]; exact hr
    have := h4 r
    simp only [if_true] at this
    rw [(curInst_of hr' this).1]

theorem curNew_setContextCS (s : St) (c : Nat) (restart : Bool) :
    (setContextCS s c restart).2 = false ∨ CurNew s (setContextCS s c restart).1 := by
  simp only [setContextCS]
  split
  · exact Or.inl rfl
  · split
    · exact Or.inl rfl
    · rename_i r hr
      split
      · exact Or.inl rfl
      · rename_i rr hx
        split
        · exact Or.inl rfl
        · split
          · exact Or.inl rfl
          · right
            have hn : curInst (stopRec { s with ctx := c } r) = none := curInst_stopRec (by simp [hr]) (by simpa using hx)
            intro n hcur
            split at hcur
            · have hcur' : curInst (startRec (stopRec { s with ctx := c } r) r c rr.exitedCh false) = some n := hcur
              rcases curInst_startRec (stopRec { s with ctx := c } r) r c rr.exitedCh false (by simp [hr]) with e | e
              · rw [e, hn] at hcur'; cases hcur'
              · rw [e] at hcur'; cases hcur'; simp
            · have hcur' : curInst (stopRec { s with ctx := c } r) = some n := hcur
              rw [hn] at hcur'; cases hcur'

theorem curNew_restartCS (s : St) : (restartCS s).2 = false ∨ CurNew s (restartCS s).1 := by
  simp only [restartCS]
  split
  · exact Or.inl rfl
  · rename_i r hr
    split
    · exact Or.inl rfl
    · rename_i x hx
      split
      · exact Or.inl rfl
      · right
        intro n hcur
        generalize hS : ({ (cancelOpt (normCtx s) x.cancelOf) with
            recs := ((cancelOpt (normCtx s) x.cancelOf).recs.set r { x with cancelOf := none }).set r
              { x with cancelOf := none, exitedCh := none } } : St) = S at hcur
        have hSr : S.routine = some r := by rw [← hS]; simpa using hr
        have hSl : S.insts.length = s.insts.length := by rw [← hS]; simp
        have hlt : r < (cancelOpt (normCtx s) x.cancelOf).recs.length := by simpa using get_lt hx
        have hSx : S.recs[r]? = some { x with cancelOf := none, exitedCh := none } := by
          rw [← hS]; simp [hlt]
        have hcur' : curInst (startRec S r S.ctx x.exitedCh true) = some n := by
          rw [← hS] at hcur ⊢; exact hcur
        obtain ⟨_, _, _, h4⟩ := startRec_spawn S r S.ctx x.exitedCh true _ hSx (by simp)
        have hr' : (startRec S r S.ctx x.exitedCh true).routine = some r := by
          rcases startRec_cases S r S.ctx x.exitedCh true with e | ⟨_, _, _, e, _⟩
          · rw [e]; exact hSr
          · rw [e]; exact hSr
        have := h4 r
        simp only [if_true] at this
        rw [(curInst_of hr' this).1] at hcur'
        cases hcur'; omega

theorem curNew_setRoutineLocked (s : St) (f arg : Nat) : CurNew s (setRoutineLocked s f arg).1 := by
  have hdn := (curInst_none (detachPrev_routine (normCtx s))).1
  have hlen : (detachPrev (normCtx s)).1.insts.length = s.insts.length := by simp
  simp only [setRoutineLocked]
  intro n hcur
  split at hcur
  · split at hcur
    · generalize hS : ({ (detachPrev (normCtx s)).1 with
          recs := (detachPrev (normCtx s)).1.recs ++ [{ fn := f, arg := arg }],
          routine := some (detachPrev (normCtx s)).1.recs.length } : St) = S at hcur
      have hSr : S.routine = some (detachPrev (normCtx s)).1.recs.length := by rw [← hS]
      have hSc : curInst S = none := by rw [← hS]; simp [curInst, curRec]
      have hSl : S.insts.length = s.insts.length := by rw [← hS]; exact hlen
      have hcur' : curInst (startRec S (detachPrev (normCtx s)).1.recs.length S.ctx (detachPrev (normCtx s)).2.1 false) = some n := by
        rw [← hS] at hcur ⊢; exact hcur
      rcases curInst_startRec S _ S.ctx (detachPrev (normCtx s)).2.1 false hSr with e | e
      · rw [e, hSc] at hcur'; cases hcur'
      · rw [e] at hcur'; cases hcur'; omega
    · have : curInst ({ (detachPrev (normCtx s)).1 with
          recs := (detachPrev (normCtx s)).1.recs ++ [{ fn := f, arg := arg, exitedCh := (detachPrev (normCtx s)).2.1 }],
          routine := some (detachPrev (normCtx s)).1.recs.length } : St).bcastNow = none := by
        simp [curInst, curRec]
      rw [this] at hcur; cases hcur
  · have e1 : curInst ({ (detachPrev (normCtx s)).1 with cleared := (detachPrev (normCtx s)).2.1 } : St) = none := hdn
    split at hcur
    · have : curInst ({ (detachPrev (normCtx s)).1 with cleared := (detachPrev (normCtx s)).2.1 } : St).bcastNow = none := e1
      rw [this] at hcur; cases hcur
    · rw [e1] at hcur; cases hcur

end UtilModel.Routine
