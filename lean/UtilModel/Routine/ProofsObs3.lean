import UtilModel.Routine.ProofsObs2
import UtilModel.Routine.ProofsC05
import UtilModel.Routine.ProofsC14
import UtilModel.Routine.Monitors
/-!
# routine: observable form of the first sentence of C05 (superseded instances are seen cancelled)

`StepMono`: what any event can do to the instance table as far as cancellation is concerned.
`DoomLink`: the monitor's set of doomed instances against the model.
-/
namespace UtilModel.Routine
open UtilModel

/-! ## cancelled roots are only touched by `envDo` -/

@[simp] theorem stopRec_croots (s : St) (r : Nat) : (stopRec s r).croots = s.croots := by
  unfold stopRec; split <;> simp
@[simp] theorem startRec_croots (s : St) (r c : Nat) (w : Option Nat) (f : Bool) :
    (startRec s r c w f).croots = s.croots := by
  unfold startRec; split
  · rfl
  · split <;> simp
@[simp] theorem bcastNow_croots (s : St) : s.bcastNow.croots = s.croots := rfl

@[simp] theorem setContextCS_croots (s : St) (c : Nat) (r : Bool) : (setContextCS s c r).1.croots = s.croots := by
  simp only [setContextCS]
  split
  · rfl
  · split
    · rfl
    · split
      · rfl
      · split
        · rfl
        · split
          · rfl
          · split <;> simp

@[simp] theorem restartCS_croots (s : St) : (restartCS s).1.croots = s.croots := by
  simp only [restartCS]
  split
  · simp
  · split
    · simp
    · split <;> simp

@[simp] theorem setRoutineLocked_croots (s : St) (f arg : Nat) : (setRoutineLocked s f arg).1.croots = s.croots := by
  simp only [setRoutineLocked]
  split
  · split <;> simp
  · split <;> simp

@[simp] theorem setStateCS_croots (s : St) (cmp v : Nat) : (setStateCS s cmp v).1.croots = s.croots := by
  simp only [setStateCS]; split <;> simp [updateStateRoutine]

theorem apiCS_croots (s : St) (cf : Cfg) (op : Op) (r : St × Res × Option Nat) (h : apiCS s cf op = some r) :
    r.1.croots = s.croots := by
  cases op with
  | setContext c restart => simp [apiCS] at h; subst h; simp
  | setRoutine f =>
    simp only [apiCS] at h
    split at h
    · cases h
    · simp at h; subst h; simp
  | restart => simp [apiCS] at h; subst h; simp
  | setState v =>
    simp only [apiCS] at h
    split at h
    · cases h
    · simp at h; subst h; simp
  | setStateRoutine f =>
    simp only [apiCS] at h
    split at h
    · cases h
    · simp at h; subst h; simp [updateStateRoutine]
  | swap k =>
    simp only [apiCS] at h
    split at h
    · cases h
    · split at h
      · split at h
        · simp only [Option.some.injEq] at h; subst h; simp
        · simp only [Option.some.injEq] at h; subst h; rfl
      · simp at h; subst h; rfl
  | getState =>
    simp only [apiCS] at h
    split at h
    · cases h
    · simp at h; subst h; rfl
  | waitExited _ => simp [apiCS] at h

@[simp] theorem timerBody_croots (s : St) (t r : Nat) : (timerBody s t r).croots = s.croots := by
  simp only [timerBody, bcastNow_croots]
  split
  · split <;> simp
  · rfl

theorem recordCS_croots (s s' : St) (cf : Cfg) (n : Nat) (x : Inst) (dur : Bool)
    (h : recordCS s cf n x dur = some s') : s'.croots = s.croots := by
  simp only [recordCS] at h
  split at h
  · cases h
  · split at h
    · split at h
      · cases h
      · simp only [Option.some.injEq] at h; subst h
        simp only [bcastNow_croots]
        split <;> simp [setInst]
    · split at h
      · cases h
      · simp only [Option.some.injEq] at h; subst h; simp [setInst]

/-! ## what an event can do to instances, as far as cancellation is concerned -/

structure StepMono (s s' : St) : Prop where
  old : ∀ (n : Nat) (x : Inst), s.insts[n]? = some x → ∃ x' : Inst, s'.insts[n]? = some x' ∧ x'.root = x.root ∧
          (x.cancelled = true → x'.cancelled = true) ∧ (x'.st = .closed → x.st = .closed ∨ x'.cancelled = true)
  new : ∀ (n : Nat) (x' : Inst), s'.insts[n]? = some x' → s.insts.length ≤ n → x'.st ≠ .closed
  cr : ∀ c, s.croots.contains c = true → s'.croots.contains c = true
  /-- an instance belongs to the same record for ever -/
  rid : ∀ (n : Nat) (x : Inst), s.insts[n]? = some x → ∃ x' : Inst, s'.insts[n]? = some x' ∧ x'.rid = x.rid

theorem StepMono.frame {s s' : St} (h1 : s'.insts = s.insts) (h2 : ∀ c, s.croots.contains c = true → s'.croots.contains c = true) :
    StepMono s s' := by
  refine ⟨?_, ?_, h2, ?_⟩
  · intro n x hx; exact ⟨x, by rw [h1]; exact hx, rfl, id, Or.inl⟩
  · intro n x' hx' hge; rw [h1] at hx'; have := get_lt hx'; omega
  · intro n x hx; exact ⟨x, by rw [h1]; exact hx, rfl⟩

/-- critical sections: existing instances keep their program counter and may be cancelled; a new one is waiting -/
theorem StepMono.of_cs {s s' : St} (he : InstsExt s s') (hs : Shape s s') (hc : s'.croots = s.croots) :
    StepMono s s' := by
  refine ⟨?_, ?_, by intro c h; rw [hc]; exact h, ?_⟩
  rotate_left 2
  · intro n x hx
    obtain ⟨y, hy, hle⟩ := he n x hx
    exact ⟨y, hy, hle.1⟩
  · intro n x hx
    obtain ⟨y, hy, hle⟩ := he n x hx
    exact ⟨y, hy, hle.2.2.1, hle.2.2.2.2.2.2, by intro h; left; rw [← hle.2.2.2.1]; exact h⟩
  · intro n x' hx' hge
    cases hs with
    | same h1 _ =>
      have : s'.insts.length = s.insts.length := by simpa using congrArg List.length h1
      have := get_lt hx'; omega
    | spawn h1 _ =>
      have h2 : (s'.insts.map pI)[n]? = some (pI x') := by simp [hx']
      rw [h1] at h2
      have hlen : (s.insts.map pI).length ≤ n := by simpa using hge
      rw [List.getElem?_append_right hlen] at h2
      rcases Nat.lt_or_ge (n - (s.insts.map pI).length) 1 with g | g
      · have : n - (s.insts.map pI).length = 0 := by omega
        rw [this] at h2
        simp only [List.getElem?_cons_zero, Option.some.injEq] at h2
        have : pst x'.st = .waiting := by
          have := congrArg Chain.Inst.st h2
          simpa [pI, newPI] using this.symm
        intro hcl; rw [hcl] at this; simp [pst] at this
      · have : [newPI (lastOf s)][n - (s.insts.map pI).length]? = none := List.getElem?_eq_none (by simpa using g)
        rw [this] at h2; cases h2

theorem StepMono.of_setInst (s : St) (m : Nat) (x y : Inst) (hx : s.insts[m]? = some x) (hroot : y.root = x.root)
    (hc : x.cancelled = true → y.cancelled = true) (hst : y.st = .closed → x.st = .closed ∨ y.cancelled = true)
    (hrid : y.rid = x.rid := by rfl) :
    StepMono s (setInst s m y) := by
  have hlt := get_lt hx
  refine ⟨?_, ?_, fun _ h => h, ?_⟩
  rotate_left 2
  · intro n z hz
    by_cases hmn : m = n
    · subst hmn; rw [hx] at hz; cases hz
      exact ⟨y, by simp [setInst, hlt], hrid⟩
    · exact ⟨z, by simp [setInst, List.getElem?_set, hmn, hz], rfl⟩
  · intro n z hz
    by_cases hmn : m = n
    · subst hmn; rw [hx] at hz; cases hz
      exact ⟨y, by simp [setInst, hlt], hroot, hc, hst⟩
    · exact ⟨z, by simp [setInst, List.getElem?_set, hmn, hz], rfl, id, Or.inl⟩
  · intro n x' hx' hge
    have := get_lt hx'
    simp [setInst] at this; omega

/-- every event is monotone for cancellation -/
theorem step_mono (s s' : St) (e : Ev) (ha : AllRec s) (hs : step s e = some s') : StepMono s s' := by
  cases e with
  | cfg c =>
    simp only [step, stepI] at hs
    split at hs
    · simp at hs; subst hs; exact StepMono.frame rfl (fun _ h => h)
    · cases hs
  | inv a op =>
    simp only [step, stepI] at hs
    split at hs
    · simp at hs; subst hs; exact StepMono.frame rfl (fun _ h => h)
    · cases hs
  | cs a =>
    simp only [step, stepI] at hs
    split at hs
    · rename_i cf c hcf hc
      split at hs
      · split at hs
        · split at hs
          · rename_i rinr _ _
            simp at hs; subst hs
            exact StepMono.frame (by simp [setCall, waitSample]) (by intro c h; simpa [setCall, waitSample] using h)
          · cases hs
        · split at hs
          · cases hs
          · split at hs
            · rename_i r hr
              simp at hs; subst hs
              have h1 := StepMono.of_cs (csok_apiCS s cf _ r hr).1 (apiCS_shape s cf _ r hr) (apiCS_croots s cf _ r hr)
              exact ⟨h1.old, h1.new, h1.cr, h1.rid⟩
            · cases hs
      · cases hs
    · cases hs
  | ret a r =>
    simp only [step, stepI] at hs
    split at hs
    · split at hs
      · simp at hs; subst hs; exact StepMono.frame rfl (fun _ h => h)
      · split at hs
        · simp at hs; subst hs; exact StepMono.frame rfl (fun _ h => h)
        · cases hs
    · cases hs
  | wake a =>
    simp only [step, stepI] at hs
    split at hs
    · split at hs
      · split at hs
        · simp at hs; subst hs; exact StepMono.frame rfl (fun _ h => h)
        · cases hs
      · cases hs
    · cases hs
  | wctx a =>
    simp only [step, stepI] at hs
    split at hs
    · split at hs
      · split at hs
        · simp at hs; subst hs; exact StepMono.frame rfl (fun _ h => h)
        · cases hs
      · cases hs
    · cases hs
  | envCancel c =>
    simp only [step, stepI] at hs
    split at hs
    · simp at hs; subst hs; exact StepMono.frame rfl (fun _ h => h)
    · cases hs
  | envDo c =>
    simp only [step, stepI] at hs
    split at hs
    · simp at hs; subst hs
      exact StepMono.frame rfl (by intro d h; simp only [List.contains_cons, Bool.or_eq_true]; exact Or.inr h)
    · cases hs
  | envCancelW a =>
    simp only [step, stepI] at hs
    split at hs
    · split at hs
      · simp at hs; subst hs; exact StepMono.frame rfl (fun _ h => h)
      all_goals cases hs
    · cases hs
  | envErr a e0 =>
    simp only [step, stepI] at hs
    split at hs
    · split at hs
      · simp at hs; subst hs; exact StepMono.frame rfl (fun _ h => h)
      all_goals cases hs
    · cases hs
  | giveUp n =>
    simp only [step, stepI] at hs
    split at hs
    · rename_i x hx
      split at hs
      · split at hs
        · simp at hs; subst hs; exact StepMono.of_setInst s n x _ hx rfl id (by simp)
        · simp at hs; subst hs; exact StepMono.of_setInst s n x _ hx rfl id (by simp)
      · cases hs
    · cases hs
  | drained n =>
    simp only [step, stepI] at hs
    split at hs
    · rename_i x hx
      split at hs
      · simp at hs; subst hs; exact StepMono.of_setInst s n x _ hx rfl id (by simp)
      · cases hs
    · cases hs
  | cbin k n f arg root =>
    simp only [step, stepI] at hs
    split at hs
    · rename_i x hx
      split at hs
      · split at hs
        · simp at hs; subst hs
          have h1 := StepMono.of_setInst s n x { x with st := .running } hx rfl id (by simp)
          exact ⟨h1.old, h1.new, h1.cr, h1.rid⟩
        · cases hs
      · cases hs
    · cases hs
  | cbout k o =>
    simp only [step, stepI] at hs
    split at hs
    · rename_i n hn
      split at hs
      · rename_i x hx
        split at hs
        · simp at hs; subst hs; exact StepMono.of_setInst s n x _ hx rfl id (by simp)
        · cases hs
      · cases hs
    · cases hs
  | closeExit n =>
    simp only [step, stepI] at hs
    split at hs
    · rename_i x hx
      split at hs
      · simp at hs; subst hs; exact StepMono.of_setInst s n x _ hx rfl (fun _ => rfl) (fun _ => Or.inr rfl)
      · cases hs
    · cases hs
  | record n dur =>
    simp only [step, stepI] at hs
    split at hs
    · rename_i cf x _ hx
      split at hs
      · rename_i hgd
        have hk := recordCS_ok s s' cf n x dur hx hgd.1 hs
        have hlen := recordCS_len s s' cf n x dur hs
        refine ⟨?_, ?_, by intro c h; rw [recordCS_croots s s' cf n x dur hs]; exact h, ?_⟩
        rotate_left 2
        · intro m z hz
          obtain ⟨y, hy, hle⟩ := hk.1.1 m z hz
          exact ⟨y, hy, hle.1⟩
        · intro m z hz
          obtain ⟨y, hy, hle⟩ := hk.1.1 m z hz
          exact ⟨y, hy, hle.2.2.1, hle.2.2.2.2.2.2, by intro h; left; rw [← hle.2.2.2.1]; exact h⟩
        · intro m x' hx' hge; have := get_lt hx'; omega
      · cases hs
    · cases hs
  | emit o =>
    simp only [step, stepI] at hs
    split at hs
    · split at hs
      · simp at hs; subst hs; exact StepMono.frame rfl (fun _ h => h)
      · cases hs
    · cases hs
  | fire t =>
    simp only [step, stepI] at hs
    split at hs
    · split at hs
      · simp at hs; subst hs; exact StepMono.frame rfl (fun _ h => h)
      · cases hs
    · cases hs
  | timerCS t =>
    simp only [step, stepI] at hs
    split at hs
    · rename_i tm htm
      split at hs
      · simp at hs; subst hs
        have hb : CSOK s { s with timers := s.timers.set t { tm with st := .dead } } := CSOK.of_eq rfl rfl
        exact StepMono.of_cs (hb.trans (csok_timerBody _ t tm.rid)).1
          ((timerBody_shape { s with timers := s.timers.set t { tm with st := .dead } } t tm.rid).of_base rfl rfl)
          (by simp)
      · cases hs
    · cases hs
  | probeCtx k b =>
    simp only [step, stepI] at hs
    split at hs
    · split at hs
      · simp at hs; subst hs; exact StepMono.frame rfl (fun _ h => h)
      · cases hs
    · cases hs
  | probeW a b =>
    simp only [step, stepI] at hs
    split at hs
    · split at hs
      · split at hs
        · simp at hs; subst hs; exact StepMono.frame rfl (fun _ h => h)
        · cases hs
      · cases hs
    · cases hs
  | quiesce p r l =>
    simp only [step] at hs
    split at hs
    · simp at hs; subst hs; exact StepMono.frame rfl (fun _ h => h)
    · cases hs

/-- an instance that has exited has a cancelled context (`execute` calls `cancel()` before `close(exitedCh)`) -/
def I1 (s : St) : Prop := ∀ (n : Nat) (x : Inst), s.insts[n]? = some x → x.st = .closed → x.cancelled = true

theorem i1_step {s s' : St} (h : I1 s) (hm : StepMono s s') : I1 s' := by
  intro n x' hx' hcl
  by_cases hlt : n < s.insts.length
  · have hx : s.insts[n]? = some s.insts[n] := List.getElem?_eq_getElem hlt
    obtain ⟨y, hy, _, g3, g4⟩ := hm.old n _ hx
    rw [hx'] at hy; cases hy
    rcases g4 hcl with e | e
    · exact g3 (h n _ hx e)
    · exact e
  · exact absurd hcl (hm.new n x' hx' (by omega))

theorem i1_run (s s' : St) (es : List Ev) (h : I1 s) (ha : AllRec s) (hr : model.run s es = some s') : I1 s' := by
  induction es generalizing s with
  | nil => simp [OLTS.run] at hr; subst hr; exact h
  | cons e es ih =>
    simp only [OLTS.run] at hr
    cases hst : model.step s e with
    | none => simp [hst] at hr
    | some s1 =>
      simp [hst] at hr
      exact ih s1 (i1_step h (step_mono s s1 e ha hst)) (step_ok s s1 e ha hst).1 hr

theorem ctxErr_mono {s s' : St} (hm : StepMono s s') (n : Nat) (hlt : n < s.insts.length)
    (h : ctxErrOf s n = true) : ctxErrOf s' n = true := by
  have hx : s.insts[n]? = some s.insts[n] := List.getElem?_eq_getElem hlt
  obtain ⟨y, hy, g2, g3, _⟩ := hm.old n _ hx
  simp only [ctxErrOf, hx, St.isCancelled, Bool.or_eq_true] at h
  simp only [ctxErrOf, hy, St.isCancelled, Bool.or_eq_true]
  rcases h with e | e
  · exact Or.inl (g3 e)
  · right; rw [g2]; exact hm.cr _ e

/-! ## a superseding critical section leaves no old instance current -/

/-- the current instance after the critical section, if any, was created by it -/
def CurNew (s s' : St) : Prop := ∀ n, curInst s' = some n → s.insts.length ≤ n

theorem curInst_stopRec {s : St} {r : Nat} {x : Rec} (hr : s.routine = some r) (hx : s.recs[r]? = some x) :
    curInst (stopRec s r) = none := by
  have hr' : (stopRec s r).routine = some r := by simp [hr]
  have hx' : (stopRec s r).recs[r]? = some x.stopped := by simp [stopRec_recs_get, hx]
  rw [(curInst_of hr' hx').1]; rfl

theorem curInst_startRec (S : St) (r c : Nat) (w : Option Nat) (force : Bool) (hr : S.routine = some r) :
    curInst (startRec S r c w force) = curInst S ∨ curInst (startRec S r c w force) = some S.insts.length := by
  rcases startRec_cases S r c w force with e | ⟨x, hx, h1, h2, _, h4⟩
  · left; rw [e]
  · right
    have hr' : (startRec S r c w force).routine = some r := by rw [h2]; exact hr
    have := h4 r
    simp only [if_true] at this
    rw [(curInst_of hr' this).1]

theorem curNew_setContextCS (s : St) (c : Nat) (restart : Bool) :
    (setContextCS s c restart).2 = false ∨ CurNew s (setContextCS s c restart).1 := by
  simp only [setContextCS]
  split
  · exact Or.inl rfl
  · split
    · exact Or.inl rfl
    · rename_i r hr
      split
      · exact Or.inl rfl
      · rename_i rr hx
        split
        · exact Or.inl rfl
        · split
          · exact Or.inl rfl
          · right
            have hn : curInst (stopRec { s with ctx := c } r) = none := curInst_stopRec (by simp [hr]) (by simpa using hx)
            intro n hcur
            split at hcur
            · have hcur' : curInst (startRec (stopRec { s with ctx := c } r) r c rr.exitedCh false) = some n := hcur
              rcases curInst_startRec (stopRec { s with ctx := c } r) r c rr.exitedCh false (by simp [hr]) with e | e
              · rw [e, hn] at hcur'; cases hcur'
              · rw [e] at hcur'; cases hcur'; simp
            · have hcur' : curInst (stopRec { s with ctx := c } r) = some n := hcur
              rw [hn] at hcur'; cases hcur'

theorem curNew_restartCS (s : St) : (restartCS s).2 = false ∨ CurNew s (restartCS s).1 := by
  simp only [restartCS]
  split
  · exact Or.inl rfl
  · rename_i r hr
    split
    · exact Or.inl rfl
    · rename_i x hx
      split
      · exact Or.inl rfl
      · right
        intro n hcur
        have hlt : r < (cancelOpt (normCtx s) x.cancelOf).recs.length := by simpa using get_lt hx
        have key : ∀ S : St, S.routine = some r → S.insts.length = s.insts.length → (∃ y, S.recs[r]? = some y) →
            ∀ (c : Nat) (w : Option Nat) (n : Nat), curInst (startRec S r c w true).bcastNow = some n →
            s.insts.length ≤ n := by
          intro S hSr hSl ⟨y, hy⟩ c w n hc
          obtain ⟨_, h2, _, h4⟩ := startRec_spawn S r c w true y hy (by simp)
          have hr' : (startRec S r c w true).routine = some r := by rw [h2]; exact hSr
          have := h4 r
          simp only [if_true] at this
          have e := (curInst_of hr' this).1
          have hc' : curInst (startRec S r c w true) = some n := hc
          rw [e] at hc'; cases hc'; omega
        dsimp only at hcur
        refine key _ ?_ ?_ ?_ _ _ n hcur
        · simpa using hr
        · simp
        · have hlt' : r < s.recs.length := by simpa using hlt
          exact ⟨_, by simp only [cancelOpt_recs, normCtx_recs, List.set_set]; exact get_set_self' _ hlt'⟩

theorem curNew_setRoutineLocked (s : St) (f arg : Nat) : CurNew s (setRoutineLocked s f arg).1 := by
  have hdn := (curInst_none (detachPrev_routine (normCtx s))).1
  have hlen : (detachPrev (normCtx s)).1.insts.length = s.insts.length := by simp
  simp only [setRoutineLocked]
  intro n hcur
  split at hcur
  · split at hcur
    · have key : ∀ (S : St) (r : Nat), S.routine = some r → S.insts.length = s.insts.length → curInst S = none →
          ∀ (c : Nat) (w : Option Nat) (n : Nat), curInst (startRec S r c w false).bcastNow = some n →
          s.insts.length ≤ n := by
        intro S r hSr hSl hSc c w n hc
        have hc' : curInst (startRec S r c w false) = some n := hc
        rcases curInst_startRec S r c w false hSr with e | e
        · rw [e, hSc] at hc'; cases hc'
        · rw [e] at hc'; cases hc'; omega
      dsimp only at hcur
      refine key _ _ ?_ ?_ ?_ _ _ n hcur
      · rfl
      · exact hlen
      · simp [curInst, curRec]
    · have : curInst ({ (detachPrev (normCtx s)).1 with
          recs := (detachPrev (normCtx s)).1.recs ++ [{ fn := f, arg := arg, exitedCh := (detachPrev (normCtx s)).2.1 }],
          routine := some (detachPrev (normCtx s)).1.recs.length } : St).bcastNow = none := by
        simp [curInst, curRec]
      rw [this] at hcur; cases hcur
  · have e1 : curInst ({ (detachPrev (normCtx s)).1 with cleared := (detachPrev (normCtx s)).2.1 } : St) = none := hdn
    split at hcur
    · have : curInst ({ (detachPrev (normCtx s)).1 with cleared := (detachPrev (normCtx s)).2.1 } : St).bcastNow = none := e1
      rw [this] at hcur; cases hcur
    · rw [e1] at hcur; cases hcur

theorem setContextCS_zero_ctx (s : St) (r : Bool) : (setContextCS s 0 r).1.ctx = 0 := by
  simp only [setContextCS]
  split
  · rename_i h; simp only [Bool.and_eq_true] at h; simpa using h.1
  · split
    · rfl
    · split
      · rfl
      · split
        · rfl
        · split
          · rfl
          · split
            · rename_i h; simp at h
            · simp only [bcastNow_recs, St.bcastNow, stopRec_ctx]

/-- after a critical section that dooms (see `doomsRet`), every instance that existed before it has a cancelled
context -/
theorem doom_cs (s : St) (cf : Cfg) (op : Op) (r : St × Res × Option Nat) (h : apiCS s cf op = some r)
    (hd : doomsRet op.isClearCtx r.2.1 = true) (hc : Cur r.1) (hi : I1 r.1)
    (n : Nat) (x' : Inst) (hn : n < s.insts.length) (hx' : r.1.insts[n]? = some x') : r.1.isCancelled x' = true := by
  -- enough: `n` is not the current instance, or the container has no context
  have fin : (CurNew s r.1 ∨ r.1.ctx = 0) → r.1.isCancelled x' = true := by
    intro hor
    by_cases hcur : curInst r.1 = some n
    · rcases hor with hnew | hz
      · have := hnew n hcur; omega
      · by_cases hcl : x'.st = .closed
        · simp [St.isCancelled, hi n x' hx' hcl]
        · cases hlive : r.1.isCancelled x' with
          | true => rfl
          | false => exact absurd hz (hc.2 n x' hcur hx' hcl hlive).2
    · exact hc.1.sc n x' hx' hcur
  cases op with
  | setContext c restart =>
    simp [apiCS] at h; subst h
    simp only [doomsRet, Bool.or_eq_true] at hd
    apply fin
    rcases curNew_setContextCS s c restart with e | e
    · rcases hd with hd | hd
      · rw [e] at hd; cases hd
      · right
        have hc0 : c = 0 := by
          cases c with
          | zero => rfl
          | succ m => simp [Op.isClearCtx] at hd
        subst hc0; exact setContextCS_zero_ctx s restart
    · exact Or.inl e
  | setRoutine f =>
    simp only [apiCS] at h
    split at h
    · cases h
    · simp at h; subst h; exact fin (Or.inl (curNew_setRoutineLocked s f 0))
  | restart =>
    simp [apiCS] at h; subst h
    simp only [doomsRet, Op.isClearCtx, Bool.or_false] at hd
    apply fin
    rcases curNew_restartCS s with e | e
    · rw [e] at hd; cases hd
    · exact Or.inl e
  | setState v =>
    simp only [apiCS] at h
    split at h
    · cases h
    · simp at h; subst h
      simp only [doomsRet, setStateCS] at hd
      apply fin
      left
      simp only [setStateCS]
      split
      · simp only [updateStateRoutine]
        exact curNew_setRoutineLocked { s with sval := v } _ _
      · rename_i hnc; simp [hnc] at hd
  | setStateRoutine f =>
    simp only [apiCS] at h
    split at h
    · cases h
    · simp at h; subst h
      apply fin
      left
      simp only [updateStateRoutine]
      exact curNew_setRoutineLocked { s with sfn := f } _ _
  | swap k =>
    simp only [apiCS] at h
    split at h
    · cases h
    · split at h
      · split at h
        · simp only [Option.some.injEq] at h; subst h
          simp only [doomsRet, setStateCS] at hd
          apply fin
          left
          simp only [setStateCS]
          split
          · simp only [updateStateRoutine]
            exact curNew_setRoutineLocked _ _ _
          · rename_i hnc; simp [hnc] at hd
        · simp only [Option.some.injEq] at h; subst h; simp [doomsRet] at hd
      · simp at h; subst h; simp [doomsRet] at hd
  | getState =>
    simp only [apiCS] at h
    split at h
    · cases h
    · simp at h; subst h; simp [doomsRet] at hd
  | waitExited _ => simp [apiCS] at h

/-! ## the monitor's doomed set against the model -/

structure DoomLink (s : St) (ms : C05aSt) : Prop where
  dv : ∀ (k n : Nat), s.ent[k]? = some n → n < s.insts.length
  dr : ∀ k ∈ ms.running, k < s.ent.length
  d1 : ∀ k ∈ ms.doomed, ∀ n : Nat, s.ent[k]? = some n → ctxErrOf s n = true
  d2 : ∀ (a : Nat) (c : Call) (r : Res), s.calls[a]? = some c → c.st = .done r →
        doomsRet (ms.clears.contains a) r = true →
        ∀ k ∈ lookupSnap ms.snaps a, ∀ n : Nat, s.ent[k]? = some n → ctxErrOf s n = true
  d3 : ∀ q ∈ ms.snaps, q.1 < s.calls.length
  d4 : ∀ q ∈ ms.snaps, ∀ k ∈ q.2, k < s.ent.length
  d5 : ∀ (a : Nat) (c : Call), s.calls[a]? = some c → ms.clears.contains a = c.op.isClearCtx
  d6 : ∀ a ∈ ms.clears, a < s.calls.length
  d7 : ∀ k ∈ ms.doomed, k < s.ent.length

theorem doomLink_init : DoomLink {} {} := by
  refine ⟨?_, ?_, ?_, ?_, ?_, ?_, ?_, ?_, ?_⟩ <;> intros <;> simp_all

theorem stepMono_len {s s' : St} (h : StepMono s s') : s.insts.length ≤ s'.insts.length := by
  rcases Nat.lt_or_ge s'.insts.length s.insts.length with hlt | hge
  · have hl : s'.insts.length < s.insts.length := hlt
    obtain ⟨y, h1, _⟩ := h.old s'.insts.length _ (List.getElem?_eq_getElem hl)
    have := get_lt h1; omega
  · exact hge

/-- frame: entry table unchanged, calls unchanged up to waking parked waiters -/
theorem DoomLink.keep {s s' : St} {ms : C05aSt} (h : DoomLink s ms) (hm : StepMono s s') (he : s'.ent = s.ent)
    (hw : WrSame s s') : DoomLink s' ms := by
  have hlen := stepMono_len hm
  refine ⟨?_, ?_, ?_, ?_, ?_, ?_, ?_, ?_, by intro k hk; rw [he]; exact h.d7 k hk⟩
  · intro k n hk; rw [he] at hk; have := h.dv k n hk; omega
  · intro k hk; rw [he]; exact h.dr k hk
  · intro k hk n hn; rw [he] at hn
    exact ctxErr_mono hm n (h.dv k n hn) (h.d1 k hk n hn)
  · intro a c' r hc' hst hd k hk n hn
    rw [he] at hn
    obtain ⟨c, hc, _, hiff⟩ := hw.dn a c' hc'
    exact ctxErr_mono hm n (h.dv k n hn) (h.d2 a c r hc ((hiff r).1 hst) hd k hk n hn)
  · intro q hq; rw [hw.len]; exact h.d3 q hq
  · intro q hq k hk; rw [he]; exact h.d4 q hq k hk
  · intro a c' hc'
    obtain ⟨c, hc, hop, _⟩ := hw.dn a c' hc'
    rw [h.d5 a c hc, hop]
  · intro a ha; rw [hw.len]; exact h.d6 a ha

/-- one call changes its status without its critical section being (newly) reported as done -/
theorem DoomLink.setCall' {s : St} {ms : C05aSt} (h : DoomLink s ms) (a : Nat) (c c' : Call)
    (hc : s.calls[a]? = some c) (hop : c'.op = c.op)
    (hdn : ∀ r, c'.st = .done r → c.st = .done r ∨ doomsRet (ms.clears.contains a) r = false) :
    DoomLink (setCall s a c') ms := by
  have hlt := get_lt hc
  have hget : ∀ b, (setCall s a c').calls[b]? = if a = b then some c' else s.calls[b]? := by
    intro b; simp [setCall, List.getElem?_set, hlt]
  refine ⟨h.dv, h.dr, h.d1, ?_, ?_, h.d4, ?_, ?_, h.d7⟩
  · intro b cb r hcb hst hd k hk n hn
    rw [hget] at hcb
    by_cases hab : a = b
    · subst hab
      simp at hcb; subst hcb
      rcases hdn r hst with e | e
      · exact h.d2 a c r hc e hd k hk n hn
      · rw [e] at hd; cases hd
    · simp [hab] at hcb; exact h.d2 b cb r hcb hst hd k hk n hn
  · intro q hq; simpa [setCall] using h.d3 q hq
  · intro b cb hcb
    rw [hget] at hcb
    by_cases hab : a = b
    · subst hab; simp at hcb; subst hcb; rw [hop]; exact h.d5 a c hc
    · simp [hab] at hcb; exact h.d5 b cb hcb
  · intro b hb; simpa [setCall] using h.d6 b hb

theorem DoomLink.congr {s : St} {ms ms' : C05aSt} (h : DoomLink s ms) (e1 : ms'.running = ms.running)
    (e2 : ms'.snaps = ms.snaps) (e3 : ms'.doomed = ms.doomed) (e4 : ms'.clears = ms.clears) : DoomLink s ms' := by
  cases ms; cases ms'; simp only at e1 e2 e3 e4; subst e1 e2 e3 e4; exact h

theorem ite_done {c : Bool} {e : Option Nat} {r : Res}
    (h : (if c = true then CallSt.done (.wx e) else CallSt.parked false) = .done r) : r = .wx e := by
  cases c <;> simp at h
  exact h.symm

theorem waitSample_done (s : St) (rinr : Bool) (r : Res) (h : (waitSample s rinr).2 = .done r) : ∃ e, r = .wx e := by
  unfold waitSample at h
  dsimp only at h
  exact ⟨_, ite_done h⟩

theorem monC05a_ret (ms : C05aSt) (a : Nat) (r : Res) :
    monC05a.step ms (.ret a r) =
      some (if doomsRet (ms.clears.contains a) r then { ms with doomed := lookupSnap ms.snaps a ++ ms.doomed } else ms) := rfl

/-- one step of the model against the doomed-instances monitor -/
theorem doom_step (s s' : St) (e : Ev) (ms : C05aSt) (hl : DoomLink s ms) (ha : AllRec s) (hc : Cur s) (hi : I1 s)
    (hs : step s e = some s') :
    match Ev.obs e with
    | none => DoomLink s' ms
    | some o => ∃ ms', monC05a.step ms o = some ms' ∧ DoomLink s' ms' := by
  have hm := step_mono s s' e ha hs
  have hc' := step_cur s s' e hc ha hs
  have hi' := i1_step hi hm
  cases e with
  | cfg c =>
    simp only [step, stepI] at hs
    split at hs
    · simp at hs; subst hs; exact ⟨ms, rfl, hl.keep hm rfl (WrSame.of_eq rfl)⟩
    · cases hs
  | inv a op =>
    simp only [step, stepI] at hs
    split at hs
    · rename_i hcfg
      simp at hs; subst hs
      have haeq : a = s.calls.length := hcfg.2
      subst haeq
      refine ⟨_, rfl, ?_⟩
      have hold : ∀ (b : Nat) (cb : Call), (s.calls ++ [({ op := op } : Call)])[b]? = some cb →
          (b < s.calls.length ∧ s.calls[b]? = some cb) ∨ (b = s.calls.length ∧ cb = { op := op }) := by
        intro b cb hcb
        by_cases hlt : b < s.calls.length
        · left; exact ⟨hlt, by simpa [List.getElem?_append_left hlt] using hcb⟩
        · right
          simp only [List.getElem?_append, hlt, if_false] at hcb
          rcases Nat.lt_or_ge (b - s.calls.length) 1 with g | g
          · have e0 : b - s.calls.length = 0 := by omega
            rw [e0] at hcb; simp at hcb
            exact ⟨by omega, hcb.symm⟩
          · have : [({ op := op } : Call)][b - s.calls.length]? = none := List.getElem?_eq_none (by simpa using g)
            rw [this] at hcb; cases hcb
      have hnot : ms.clears.contains s.calls.length = false := by
        cases hcn : ms.clears.contains s.calls.length with
        | false => rfl
        | true => have := hl.d6 s.calls.length (by simpa using hcn); omega
      have hclr : ∀ b, b < s.calls.length →
          (if op.isClearCtx = true then s.calls.length :: ms.clears else ms.clears).contains b = ms.clears.contains b := by
        intro b hb
        have hne : b ≠ s.calls.length := by omega
        split
        · simp [hne]
        · rfl
      refine ⟨hl.dv, hl.dr, hl.d1, ?_, ?_, ?_, ?_, ?_, hl.d7⟩
      · intro b cb r hcb hst hd k hk n hn
        rcases hold b cb hcb with ⟨hlt, hcb0⟩ | ⟨_, hcb0⟩
        · have hk' : k ∈ lookupSnap ms.snaps b := by
            have hne : ¬ (s.calls.length == b) = true := by simp; omega
            simpa [lookupSnap, List.find?_cons, hne] using hk
          have hd' : doomsRet (ms.clears.contains b) r = true := by
            have := hclr b hlt
            simp only at hd
            rw [this] at hd; exact hd
          exact hl.d2 b cb r hcb0 hst hd' k hk' n hn
        · subst hcb0; cases hst
      · intro q hq
        simp only [List.mem_cons] at hq
        rcases hq with e0 | e0
        · subst e0; simp
        · have := hl.d3 q e0; simp; omega
      · intro q hq k hk
        simp only [List.mem_cons] at hq
        rcases hq with e0 | e0
        · subst e0; exact hl.dr k hk
        · exact hl.d4 q e0 k hk
      · intro b cb hcb
        rcases hold b cb hcb with ⟨hlt, hcb0⟩ | ⟨hb, hcb0⟩
        · have := hclr b hlt
          simp only
          rw [this]; exact hl.d5 b cb hcb0
        · subst hb; subst hcb0
          simp only
          cases hcc : op.isClearCtx with
          | true => simp
          | false => simpa using hnot
      · intro b hb
        simp only at hb
        split at hb
        · simp only [List.mem_cons] at hb
          rcases hb with e0 | e0
          · subst e0; simp
          · have := hl.d6 b e0; simp; omega
        · have := hl.d6 b hb; simp; omega
    · cases hs
  | cs a =>
    simp only [step, stepI] at hs
    split at hs
    · rename_i cf c hcf hca
      split at hs
      · rename_i hinv
        split at hs
        · split at hs
          · rename_i rinr hop _
            simp at hs; subst hs
            have hm0 : StepMono s (waitSample s rinr).1 :=
              StepMono.frame (by simp [waitSample]) (by intro c h; simpa [waitSample] using h)
            have h1 : DoomLink (waitSample s rinr).1 ms :=
              hl.keep hm0 (by simp [waitSample]) (WrSame.of_eq (by simp [waitSample]))
            have hc1 : (waitSample s rinr).1.calls[a]? = some c := by simpa [waitSample] using hca
            refine h1.setCall' a c _ hc1 rfl ?_
            intro r hr
            right
            have : ∃ e, r = .wx e := waitSample_done s rinr r hr
            obtain ⟨e, he⟩ := this
            subst he; rfl
          · cases hs
        · split at hs
          · cases hs
          · split at hs
            · rename_i r hr
              simp at hs; subst hs
              have hw := wrSame_apiCS s cf c.op r hr
              have hent := apiCS_ent s cf c.op r hr
              have hlt : a < r.1.calls.length := by rw [hw.len]; exact get_lt hca
              have hlen := stepMono_len hm
              have hget : ∀ b, (setCall r.1 a { c with st := .done r.2.1, wr := r.2.2 }).calls[b]? =
                  if a = b then some { c with st := .done r.2.1, wr := r.2.2 } else r.1.calls[b]? := by
                intro b; simp [setCall, List.getElem?_set, hlt]
              refine ⟨?_, ?_, ?_, ?_, ?_, ?_, ?_, ?_, by intro k hk; show k < r.1.ent.length; rw [hent]; exact hl.d7 k hk⟩
              · intro k n hk
                have hk' : s.ent[k]? = some n := by rw [← hent]; exact hk
                have := hl.dv k n hk'
                have hlen' : s.insts.length ≤ r.1.insts.length := hlen
                show n < r.1.insts.length
                omega
              · intro k hk; show k < r.1.ent.length; rw [hent]; exact hl.dr k hk
              · intro k hk n hn
                have hn' : s.ent[k]? = some n := by rw [← hent]; exact hn
                exact ctxErr_mono hm n (hl.dv k n hn') (hl.d1 k hk n hn')
              · intro b cb r0 hcb hst hd k hk n hn
                have hn' : s.ent[k]? = some n := by rw [← hent]; exact hn
                have hnlt := hl.dv k n hn'
                rw [hget] at hcb
                by_cases hab : a = b
                · subst hab
                  simp only [if_true, Option.some.injEq] at hcb
                  subst hcb
                  simp only [CallSt.done.injEq] at hst
                  subst hst
                  rw [hl.d5 a c hca] at hd
                  have hnlt' : n < r.1.insts.length := Nat.lt_of_lt_of_le hnlt hlen
                  obtain ⟨x', hx'⟩ : ∃ x', r.1.insts[n]? = some x' := ⟨_, List.getElem?_eq_getElem hnlt'⟩
                  have hcr : Cur r.1 := hc'.frame rfl rfl rfl rfl rfl
                  have hir : I1 r.1 := hi'
                  have := doom_cs s cf c.op r hr hd hcr hir n x' hnlt hx'
                  simp only [ctxErrOf]
                  have hx'' : (setCall r.1 a { c with st := .done r.2.1, wr := r.2.2 }).insts[n]? = some x' := hx'
                  rw [hx'']; exact this
                · simp only [hab, if_false] at hcb
                  obtain ⟨c0, hc0, _, hiff⟩ := hw.dn b cb hcb
                  exact ctxErr_mono hm n hnlt (hl.d2 b c0 r0 hc0 ((hiff r0).1 hst) hd k hk n hn')
              · intro q hq; simp only [setCall, List.length_set]; rw [hw.len]; exact hl.d3 q hq
              · intro q hq k hk; show k < r.1.ent.length; rw [hent]; exact hl.d4 q hq k hk
              · intro b cb hcb
                rw [hget] at hcb
                by_cases hab : a = b
                · subst hab
                  simp only [if_true, Option.some.injEq] at hcb
                  subst hcb; exact hl.d5 a c hca
                · simp only [hab, if_false] at hcb
                  obtain ⟨c0, hc0, hop, _⟩ := hw.dn b cb hcb
                  rw [hl.d5 b c0 hc0, hop]
              · intro b hb; simp only [setCall, List.length_set]; rw [hw.len]; exact hl.d6 b hb
            · cases hs
      · cases hs
    · cases hs
  | ret a r =>
    simp only [step, stepI] at hs
    split at hs
    · rename_i c hca
      have h1 := hl.setCall' a c { c with st := .finished } hca rfl (by intro r0 h0; cases h0)
      have fin : (c.st = .done r ∨ doomsRet (ms.clears.contains a) r = false) →
          ∃ ms', monC05a.step ms (.ret a r) = some ms' ∧ DoomLink (setCall s a { c with st := .finished }) ms' := by
        intro hor
        by_cases hd : doomsRet (ms.clears.contains a) r = true
        · refine ⟨{ ms with doomed := lookupSnap ms.snaps a ++ ms.doomed }, by rw [monC05a_ret, hd]; rfl, ?_⟩
          have hst : c.st = .done r := by
            rcases hor with e0 | e0
            · exact e0
            · rw [e0] at hd; cases hd
          refine ⟨h1.dv, h1.dr, ?_, h1.d2, h1.d3, h1.d4, h1.d5, h1.d6, ?_⟩
          · intro k hk n hn
            rcases List.mem_append.1 hk with e0 | e0
            · exact hl.d2 a c r hca hst hd k e0 n hn
            · exact hl.d1 k e0 n hn
          · intro k hk
            rcases List.mem_append.1 hk with e0 | e0
            · obtain ⟨q, hq, _, hkq⟩ := lookupSnap_mem e0
              exact hl.d4 q hq k hkq
            · exact hl.d7 k e0
        · have hd' : doomsRet (ms.clears.contains a) r = false := by
            cases h0 : doomsRet (ms.clears.contains a) r with
            | false => rfl
            | true => exact absurd h0 hd
          exact ⟨ms, by rw [monC05a_ret, hd']; rfl, h1⟩
      split at hs
      · rename_i hst
        simp at hs; subst hs
        exact fin (Or.inl hst)
      · split at hs
        · rename_i hst
          simp at hs; subst hs
          exact fin (Or.inr (by obtain ⟨e, he⟩ := wxOK_wx hst.2; rw [he]; rfl))
        · cases hs
    · cases hs
  | wake a =>
    simp only [step, stepI] at hs
    split at hs
    · rename_i c hca
      split at hs
      · split at hs
        · simp at hs; subst hs
          exact hl.setCall' a c _ hca rfl (by intro r0 h0; cases h0)
        · cases hs
      · cases hs
    · cases hs
  | wctx a =>
    simp only [step, stepI] at hs
    split at hs
    · rename_i c hca
      split at hs
      · split at hs
        · simp at hs; subst hs
          exact hl.setCall' a c _ hca rfl (by intro r0 h0; cases h0)
        · cases hs
      · cases hs
    · cases hs
  | envCancel c =>
    simp only [step, stepI] at hs
    split at hs
    · simp at hs; subst hs; exact ⟨ms, rfl, hl.keep hm rfl (WrSame.of_eq rfl)⟩
    · cases hs
  | envDo c =>
    simp only [step, stepI] at hs
    split at hs
    · simp at hs; subst hs; exact hl.keep hm rfl (WrSame.of_eq rfl)
    · cases hs
  | envCancelW a =>
    simp only [step, stepI] at hs
    split at hs
    · split at hs
      · simp at hs; subst hs; exact ⟨ms, rfl, hl.keep hm rfl (WrSame.of_eq rfl)⟩
      all_goals cases hs
    · cases hs
  | envErr a e0 =>
    simp only [step, stepI] at hs
    split at hs
    · split at hs
      · simp at hs; subst hs; exact ⟨ms, rfl, hl.keep hm rfl (WrSame.of_eq rfl)⟩
      all_goals cases hs
    · cases hs
  | giveUp n =>
    simp only [step, stepI] at hs
    split at hs
    · split at hs
      · split at hs
        · simp at hs; subst hs; exact hl.keep hm rfl (WrSame.of_eq rfl)
        · simp at hs; subst hs; exact hl.keep hm rfl (WrSame.of_eq rfl)
      · cases hs
    · cases hs
  | drained n =>
    simp only [step, stepI] at hs
    split at hs
    · split at hs
      · simp at hs; subst hs; exact hl.keep hm rfl (WrSame.of_eq rfl)
      · cases hs
    · cases hs
  | cbin k n f arg root =>
    simp only [step, stepI] at hs
    split at hs
    · rename_i x hx
      split at hs
      · split at hs
        · rename_i hgd
          simp at hs; subst hs
          have hk : k = s.ent.length := hgd.2.2.2.1
          have hm1 : StepMono s (setInst s n { x with st := .running }) :=
            StepMono.of_setInst s n x _ hx rfl id (by simp)
          have h1 : DoomLink (setInst s n { x with st := .running }) ms := hl.keep hm1 rfl (WrSame.of_eq rfl)
          have hentget : ∀ k' m, (s.ent ++ [n])[k']? = some m → k' < s.ent.length → s.ent[k']? = some m := by
            intro k' m h0 hlt; rwa [List.getElem?_append_left hlt] at h0
          refine ⟨{ ms with running := ms.running ++ [k] }, rfl, ?_, ?_, ?_, ?_, h1.d3, ?_, h1.d5, h1.d6,
            by intro k' hk'; have := hl.d7 k' hk'; show k' < (s.ent ++ [n]).length; simp; omega⟩
          · intro k' m hk'
            have hk'' : (s.ent ++ [n])[k']? = some m := hk'
            by_cases hlt : k' < s.ent.length
            · exact h1.dv k' m (hentget k' m hk'' hlt)
            · simp only [List.getElem?_append, hlt, if_false] at hk''
              rcases Nat.lt_or_ge (k' - s.ent.length) 1 with g | g
              · have e0 : k' - s.ent.length = 0 := by omega
                rw [e0] at hk''; simp at hk''; subst hk''
                simpa [setInst] using get_lt hx
              · have : [n][k' - s.ent.length]? = none := List.getElem?_eq_none (by simpa using g)
                rw [this] at hk''; cases hk''
          · intro k' hk'
            show k' < (s.ent ++ [n]).length
            rcases List.mem_append.1 hk' with e0 | e0
            · have := hl.dr k' e0; simp; omega
            · simp at e0; subst e0; simp [hk]
          · intro k' hk' m hm'
            have hlt : k' < s.ent.length := hl.d7 k' hk'
            exact h1.d1 k' hk' m (hentget k' m hm' hlt)
          · intro a c r hca hst hd k' hk' m hm'
            obtain ⟨q, hq, _, hkq⟩ := lookupSnap_mem hk'
            have hlt := hl.d4 q hq k' hkq
            exact h1.d2 a c r hca hst hd k' hk' m (hentget k' m hm' hlt)
          · intro q hq k' hk'
            have := hl.d4 q hq k' hk'
            show k' < (s.ent ++ [n]).length
            simp; omega
        · cases hs
      · cases hs
    · cases hs
  | cbout k o =>
    simp only [step, stepI] at hs
    split at hs
    · split at hs
      · split at hs
        · simp at hs; subst hs
          have h1 := hl.keep hm rfl (WrSame.of_eq rfl)
          exact ⟨{ ms with running := ms.running.filter (· != k) }, rfl, h1.dv,
            fun k' hk' => h1.dr k' (List.mem_filter.1 hk').1, h1.d1, h1.d2, h1.d3, h1.d4, h1.d5, h1.d6, h1.d7⟩
        · cases hs
      · cases hs
    · cases hs
  | closeExit n =>
    simp only [step, stepI] at hs
    split at hs
    · split at hs
      · simp at hs; subst hs; exact hl.keep hm rfl (WrSame.of_eq rfl)
      · cases hs
    · cases hs
  | record n dur =>
    simp only [step, stepI] at hs
    split at hs
    · rename_i cf x _ hx
      split at hs
      · exact hl.keep hm (recordCS_ent s s' cf n x dur hs) (wrSame_recordCS s s' cf n x dur hs)
      · cases hs
    · cases hs
  | emit o =>
    have hline : o.isLine = true := by
      simp only [step, stepI] at hs
      split at hs
      · split at hs
        · rename_i h0; exact h0.2
        · cases hs
      · cases hs
    simp only [step, stepI] at hs
    split at hs
    · split at hs
      · simp at hs; subst hs
        have h1 := hl.keep hm rfl (WrSame.of_eq rfl)
        cases o <;> simp [Obs.isLine] at hline
        all_goals exact ⟨ms, rfl, h1⟩
      · cases hs
    · cases hs
  | fire t =>
    simp only [step, stepI] at hs
    split at hs
    · split at hs
      · simp at hs; subst hs; exact hl.keep hm rfl (WrSame.of_eq rfl)
      · cases hs
    · cases hs
  | timerCS t =>
    simp only [step, stepI] at hs
    split at hs
    · rename_i tm htm
      split at hs
      · simp at hs; subst hs
        exact hl.keep hm (by simp) ((WrSame.of_eq (s := s) (s' := { s with timers := s.timers.set t { tm with st := .dead } }) rfl).trans
          (wrSame_timerBody _ t tm.rid))
      · cases hs
    · cases hs
  | probeCtx k b =>
    simp only [step, stepI] at hs
    split at hs
    · rename_i n hn
      split at hs
      · rename_i hb
        simp at hs; subst hs
        cases b with
        | true => exact ⟨ms, rfl, hl⟩
        | false =>
          refine ⟨ms, ?_, hl⟩
          have : ms.doomed.contains k = false := by
            cases hcn : ms.doomed.contains k with
            | false => rfl
            | true =>
              have := hl.d1 k (by simpa using hcn) n hn
              rw [this] at hb; cases hb
          simp only [monC05a, this]; rfl
      · cases hs
    · cases hs
  | probeW a b =>
    simp only [step, stepI] at hs
    split at hs
    · split at hs
      · split at hs
        · simp at hs; subst hs; exact ⟨ms, rfl, hl⟩
        · cases hs
      · cases hs
    · cases hs
  | quiesce p r l =>
    simp only [step] at hs
    split at hs
    · simp at hs; subst hs; exact ⟨ms, rfl, hl⟩
    · cases hs

theorem i1_init : I1 {} := by intro n x hx; simp at hx

theorem doom_run (s0 s : St) (ms0 : C05aSt) (es : List Ev) (ha : AllRec s0) (hc : Cur s0) (hi : I1 s0)
    (hl : DoomLink s0 ms0) (hr : model.run s0 es = some s) :
    ∃ ms, monC05a.run ms0 (es.filterMap model.obs) = some ms ∧ DoomLink s ms := by
  induction es generalizing s0 ms0 with
  | nil => simp [OLTS.run] at hr; subst hr; exact ⟨ms0, rfl, hl⟩
  | cons e es ih =>
    simp only [OLTS.run] at hr
    cases hst : model.step s0 e with
    | none => simp [hst] at hr
    | some s1 =>
      simp [hst] at hr
      have ha1 := (step_ok s0 s1 e ha hst).1
      have hc1 := step_cur s0 s1 e hc ha hst
      have hi1 := i1_step hi (step_mono s0 s1 e ha hst)
      have hstep := doom_step s0 s1 e ms0 hl ha hc hi hst
      cases hob : Ev.obs e with
      | none =>
        rw [hob] at hstep
        obtain ⟨ms, h1, h2⟩ := ih s1 ms0 ha1 hc1 hi1 hstep hr
        refine ⟨ms, ?_, h2⟩
        have : model.obs e = none := hob
        simpa [List.filterMap_cons, this] using h1
      | some o =>
        rw [hob] at hstep
        obtain ⟨ms1, hm1, hl1⟩ := hstep
        obtain ⟨ms, h1, h2⟩ := ih s1 ms1 ha1 hc1 hi1 hl1 hr
        refine ⟨ms, ?_, h2⟩
        have : model.obs e = some o := hob
        simp [List.filterMap_cons, this, ObsMonitor.run, hm1, h1]

/-! ## at most one executing instance has a live context -/

theorem length_le_one_of_all_eq {l : List Nat} (hn : l.Nodup) (h : ∀ a ∈ l, ∀ b ∈ l, a = b) : l.length ≤ 1 := by
  cases l with
  | nil => simp
  | cons a t =>
    cases t with
    | nil => simp
    | cons b t' =>
      have := h a (by simp) b (by simp)
      subst this
      simp at hn

theorem liveKs_le_one (s : St) (ms : C04St) (hc : Cur s) (hl : LinkA s ms) : (liveKs s).length ≤ 1 := by
  apply length_le_one_of_all_eq
  · unfold liveKs runningKs
    exact (List.nodup_range.filter _).filter _
  · intro k1 h1 k2 h2
    have key : ∀ k ∈ liveKs s, ∃ n, s.ent[k]? = some n ∧ curInst s = some n := by
      intro k hk
      simp only [liveKs, List.mem_filter] at hk
      obtain ⟨_, hlive⟩ := hk
      cases hn : s.ent[k]? with
      | none => simp [hn] at hlive
      | some n =>
        simp only [hn] at hlive
        refine ⟨n, rfl, ?_⟩
        cases hx : s.insts[n]? with
        | none => simp [ctxErrOf, hx] at hlive
        | some x =>
          have hnc : s.isCancelled x = false := by simpa [ctxErrOf, hx] using hlive
          cases hd : decide (curInst s = some n) with
          | true => simpa using hd
          | false =>
            have : curInst s ≠ some n := by simpa using hd
            have := hc.1.sc n x hx this
            rw [this] at hnc; cases hnc
    obtain ⟨n1, e1, c1⟩ := key k1 h1
    obtain ⟨n2, e2, c2⟩ := key k2 h2
    rw [c1] at c2
    have : n1 = n2 := Option.some.inj c2
    subst this
    exact hl.l4 k1 k2 n1 e1 e2

theorem c05b_step (s s' : St) (e : Ev) (msA : C04St) (hc : Cur s) (hl : LinkA s msA) (hs : step s e = some s') :
    ∀ o, Ev.obs e = some o → monC05b.step () o = some () := by
  intro o ho
  cases e with
  | quiesce p r l =>
    simp only [Ev.obs, Option.some.injEq] at ho
    subst ho
    simp only [step] at hs
    split at hs
    · rename_i hq
      have : l = liveKs s := hq.2.2.2
      subst this
      simp [monC05b, liveKs_le_one s msA hc hl]
    · cases hs
  | emit o' =>
    simp only [Ev.obs, Option.some.injEq] at ho
    subst ho
    have hline : o'.isLine = true := by
      simp only [step, stepI] at hs
      split at hs
      · split at hs
        · rename_i h0; exact h0.2
        · cases hs
      · cases hs
    cases o' <;> simp [Obs.isLine] at hline <;> rfl
  | cfg c => simp only [Ev.obs, Option.some.injEq] at ho; subst ho; rfl
  | inv a op => simp only [Ev.obs, Option.some.injEq] at ho; subst ho; rfl
  | ret a r => simp only [Ev.obs, Option.some.injEq] at ho; subst ho; rfl
  | cbin k n f arg root => simp only [Ev.obs, Option.some.injEq] at ho; subst ho; rfl
  | cbout k o' => simp only [Ev.obs, Option.some.injEq] at ho; subst ho; rfl
  | envCancel c => simp only [Ev.obs, Option.some.injEq] at ho; subst ho; rfl
  | envCancelW a => simp only [Ev.obs, Option.some.injEq] at ho; subst ho; rfl
  | envErr a e0 => simp only [Ev.obs, Option.some.injEq] at ho; subst ho; rfl
  | probeCtx k b => simp only [Ev.obs, Option.some.injEq] at ho; subst ho; rfl
  | probeW a b => simp only [Ev.obs, Option.some.injEq] at ho; subst ho; rfl
  | cs a => simp [Ev.obs] at ho
  | wake a => simp [Ev.obs] at ho
  | wctx a => simp [Ev.obs] at ho
  | envDo c => simp [Ev.obs] at ho
  | giveUp n => simp [Ev.obs] at ho
  | drained n => simp [Ev.obs] at ho
  | closeExit n => simp [Ev.obs] at ho
  | record n dur => simp [Ev.obs] at ho
  | fire t => simp [Ev.obs] at ho
  | timerCS t => simp [Ev.obs] at ho

theorem c05b_run (s0 s : St) (es : List Ev) (hg : Good s0) (hc : Cur s0) (msA : C04St) (hl : LinkA s0 msA)
    (hr : model.run s0 es = some s) : monC05b.run () (es.filterMap model.obs) = some () := by
  induction es generalizing s0 msA with
  | nil => rfl
  | cons e es ih =>
    simp only [OLTS.run] at hr
    cases hst : model.step s0 e with
    | none => simp [hst] at hr
    | some s1 =>
      simp [hst] at hr
      have hk := step_ok s0 s1 e hg.recs hst
      have hg1 : Good s1 := ⟨hk.1, hk.2.inv hg.chain⟩
      have hc1 := step_cur s0 s1 e hc hg.recs hst
      have hA := link_step s0 s1 e msA hl hg.recs hst hg1
      have hb := c05b_step s0 s1 e msA hc hl hst
      cases hob : Ev.obs e with
      | none =>
        rw [hob] at hA
        have : model.obs e = none := hob
        simpa [List.filterMap_cons, this] using ih s1 hg1 hc1 msA hA hr
      | some o =>
        rw [hob] at hA
        obtain ⟨msA', _, hl'⟩ := hA
        have : model.obs e = some o := hob
        simp [List.filterMap_cons, this, ObsMonitor.run, hb o hob, ih s1 hg1 hc1 msA' hl' hr]

end UtilModel.Routine
