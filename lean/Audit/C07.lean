import UtilModel.Keyed.Props
open UtilModel UtilModel.Keyed
#print axioms UtilModel.accepts_sound
#print axioms UtilModel.accepted_satisfies
#print axioms UtilModel.Chain.chain_one_running
#print axioms UtilModel.Keyed.kinv_reachable
#print axioms UtilModel.Keyed.inv3_reachable
#print axioms UtilModel.Keyed.one_running_per_key
#print axioms UtilModel.Keyed.kd_reachable
#print axioms UtilModel.Keyed.C07_obs_one_running
#print axioms UtilModel.Keyed.removed_cancelled
#print axioms UtilModel.Keyed.removed_dead
#print axioms UtilModel.Keyed.removed_never_restarted
#print axioms UtilModel.Keyed.retry_pending_armed
#print axioms UtilModel.Keyed.retry_pending_setKey_nostart
#print axioms UtilModel.Keyed.retry_pending_sync_norestart
#print axioms UtilModel.Keyed.retry_pending_other_key
#print axioms UtilModel.Keyed.retry_pending_fires
