import UtilModel.Keyed.Refine7
open UtilModel UtilModel.Keyed
#print axioms UtilModel.accepts_sound
