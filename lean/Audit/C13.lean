import UtilModel.Race.Lockset
import UtilModel.Race.Gen.LockTable
open UtilModel.Race
#print axioms lockset_sound
#print axioms checkTable_of_grouped
#print axioms groupsOK_var
#print axioms step_inv
#print axioms Gen.table_ok
