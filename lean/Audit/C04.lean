import UtilModel.Routine.Props
import UtilModel.Routine.Transfer
open UtilModel UtilModel.Routine
#print axioms UtilModel.accepts_sound
#print axioms UtilModel.Chain.chain_one_running
#print axioms UtilModel.Routine.step_ok
#print axioms UtilModel.Routine.good_run
#print axioms UtilModel.Routine.one_running
#print axioms UtilModel.Routine.C04_full_holds
#print axioms UtilModel.Routine.chain_inv
#print axioms UtilModel.Routine.waitReturn_after_all
#print axioms UtilModel.Routine.C04a_obs
#print axioms UtilModel.Routine.C04_obs
#print axioms UtilModel.Routine.C04a_accepted
#print axioms UtilModel.Routine.C04_accepted
#print axioms UtilModel.Routine.complete_routine
#print axioms UtilModel.Routine.reject_sound_routine
