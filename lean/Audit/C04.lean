import UtilModel.Core.LTS
open UtilModel
#print axioms UtilModel.accepts_sound
