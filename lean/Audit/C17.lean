import UtilModel.CCall.Props
import UtilModel.CCall.Transfer
open UtilModel UtilModel.CCall
#print axioms UtilModel.accepts_sound
#print axioms UtilModel.accepted_satisfies
#print axioms UtilModel.monitor_of_simulation
#print axioms CCall.reachable_inv
#print axioms CCall.each_once
#print axioms CCall.each_once_quiescent
#print axioms CCall.nil_only_if_all_nil
#print axioms CCall.error_returned_is_real
#print axioms CCall.error_not_swallowed
#print axioms CCall.canceled_only_if
#print axioms CCall.canceled_first
#print axioms CCall.quiescent_not_cancelled
#print axioms CCall.parked_open
#print axioms CCall.quiescent_pending
#print axioms CCall.ctx_cancelled_after_return
#print axioms CCall.probe_after_return
#print axioms CCall.no_panic
#print axioms CCall.inline_passthrough
#print axioms CCall.C17_obs
#print axioms UtilModel.C17_accepted
#print axioms UtilModel.acceptsH_sound
#print axioms UtilModel.complete_ccall
#print axioms UtilModel.reject_sound_ccall
