import UtilModel.Core.LTSHash
import UtilModel.Promise.SimCur
import UtilModel.Promise.Transfer
open UtilModel
#print axioms UtilModel.acceptsH_sound
#print axioms UtilModel.accepted_satisfies
#print axioms UtilModel.monitor_of_simulation
#print axioms Promise.reachable_inv
#print axioms Promise.set_once
#print axioms Promise.await_result
#print axioms Promise.born_resolved
#print axioms Promise.container_await_result
#print axioms Promise.await_enabled
#print axioms Promise.await_blocks
#print axioms Promise.container_enabled
#print axioms Promise.sampled_is_current
#print axioms Promise.container_follows_current
#print axioms Promise.container_blocks
#print axioms Promise.own_step_decreases
#print axioms Promise.own_run_bounded
#print axioms Promise.quiescent_no_internal
#print axioms Promise.witnessD9_run
#print axioms Promise.container_channel_clause_false
#print axioms Promise.container_channel_clause_partial
#print axioms Promise.C11why_obs
#print axioms Promise.C11set_obs
#print axioms Promise.C11live_obs
#print axioms Promise.C11cur_obs
#print axioms Promise.C11ch_obs_false
#print axioms Promise.slot_mem_candidates
#print axioms UtilModel.C11_accepted
#print axioms UtilModel.complete_promise
#print axioms UtilModel.reject_sound_promise
#print axioms UtilModel.rejectH_sound
