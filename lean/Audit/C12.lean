import UtilModel.Treiber.Props
import UtilModel.LinkedList.Props
import UtilModel.Treiber.Transfer
import UtilModel.LinkedList.Transfer
open UtilModel
#print axioms UtilModel.accepts_sound
#print axioms UtilModel.accepted_satisfies
#print axioms UtilModel.Lin.linearizable_of_sim
#print axioms UtilModel.Lin.linearizable_textbook
#print axioms UtilModel.Lin.flow_of_linearizable
#print axioms UtilModel.Lin.empty_of_linearizable
#print axioms UtilModel.Lin.container_of_linearizable
#print axioms Treiber.treiber_refines_stack
#print axioms Treiber.treiber_linearizable
#print axioms Treiber.lincheck_sound
#print axioms Treiber.lincheck_sound_textbook
#print axioms Treiber.no_crash
#print axioms Treiber.conservation
#print axioms Treiber.pop_zero_iff_empty
#print axioms Treiber.stack_values_pushed
#print axioms Treiber.abs_denotes
#print axioms Treiber.C12_obs_lifo
#print axioms Treiber.reduced_search_complete
#print axioms Treiber.reduced_search_covers_model
#print axioms Treiber.allCands_complete
#print axioms LinkedList.linkedlist_refines_deque
#print axioms LinkedList.linkedlist_refines_deque_run
#print axioms LinkedList.head_tail_consistent
#print axioms LinkedList.linkedlist_linearizable
#print axioms LinkedList.lincheck_sound
#print axioms LinkedList.lincheck_sound_textbook
#print axioms LinkedList.mutator_excluded_by_reader
#print axioms LinkedList.no_panic
#print axioms LinkedList.C12_obs_linkedlist
#print axioms LinkedList.abs_eq
#print axioms LinkedList.cands_complete
#print axioms LinkedList.deque_conservation
#print axioms UtilModel.C12_accepted_lifo
#print axioms UtilModel.C12_accepted_linkedlist
#print axioms UtilModel.acceptsH_sound
#print axioms UtilModel.rejectH_sound
#print axioms UtilModel.OLTS.accRunH_restrict
#print axioms UtilModel.complete_lifo_allCands
#print axioms UtilModel.not_complete_lifo
#print axioms UtilModel.complete_lifo_reduced
#print axioms UtilModel.reject_sound_lifo
#print axioms UtilModel.complete_linkedlist
#print axioms UtilModel.reject_sound_linkedlist
