import UtilModel.Routine.Props
open UtilModel UtilModel.Routine
#print axioms UtilModel.accepts_sound
#print axioms UtilModel.Routine.step_allQ
#print axioms UtilModel.Routine.rerun_only_by
#print axioms UtilModel.Routine.error_rerun_only_by
#print axioms UtilModel.Routine.success_not_rerun
#print axioms UtilModel.Routine.retry_armed
#print axioms UtilModel.Routine.retry_kept
#print axioms UtilModel.Routine.exit_cb_once
#print axioms UtilModel.Routine.record_once
#print axioms UtilModel.Routine.waitExited_current
#print axioms UtilModel.Routine.C14ha_obs
#print axioms UtilModel.Routine.timer_keeps_running
#print axioms UtilModel.Routine.Backoff.never_stops
#print axioms UtilModel.Routine.Backoff.defaults
#print axioms UtilModel.Routine.Backoff.constant_interval
#print axioms UtilModel.Routine.Backoff.C14bo_obs
