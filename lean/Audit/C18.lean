import UtilModel.Conc.Props
import UtilModel.Core.LTSHash
import UtilModel.Conc.Transfer
open UtilModel UtilModel.Conc
#print axioms UtilModel.accepts_sound
#print axioms UtilModel.acceptsH_sound
#print axioms UtilModel.accepted_satisfies
#print axioms Conc.reachable_inv
#print axioms Conc.active_le_limit
#print axioms Conc.each_job_at_most_once
#print axioms Conc.each_job_once
#print axioms Conc.quiescent_queue_full
#print axioms Conc.fifo_assignment
#print axioms Conc.fifo_when_one
#print axioms Conc.queued_pos_imp_full_state
#print axioms Conc.queued_pos_imp_full
#print axioms Conc.waitIdle_sound
#print axioms Conc.invWI_records
#print axioms Conc.waitIdle_parked_open
#print axioms Conc.waitIdle_enabled
#print axioms Conc.watch_parked_open
#print axioms Conc.watch_stale_queued
#print axioms Conc.quiescent_waiters
#print axioms Conc.C18_obs
#print axioms Conc.C18_obs_core
#print axioms UtilModel.monitor_of_simulation
#print axioms UtilModel.C18_accepted
#print axioms UtilModel.not_complete_conc
#print axioms UtilModel.complete_conc_allCands
#print axioms UtilModel.complete_conc_reduced
#print axioms UtilModel.Conc.reduced_covers_model
#print axioms UtilModel.reject_sound_conc
