import UtilModel.Conc.Model
