import UtilModel.CSync.RWProps
import UtilModel.CSync.MxProps
import UtilModel.CSync.Transfer
open UtilModel UtilModel.CSync
#print axioms UtilModel.accepts_sound
#print axioms UtilModel.accepted_satisfies
#print axioms UtilModel.monitor_of_simulation
#print axioms RW.reachable_inv
#print axioms RW.rw_exclusion
#print axioms RW.release_idem
#print axioms RW.failed_noeffect
#print axioms RW.C01_obs_rw
#print axioms Mx.reachable_inv
#print axioms Mx.mutex_exclusion
#print axioms Mx.C01_obs_mutex
#print axioms UtilModel.acceptsH_sound
#print axioms C01_accepted_rw
#print axioms C01_accepted_mutex
#print axioms cands_complete_rw
#print axioms cands_complete_mutex
#print axioms UtilModel.rejectH_sound
#print axioms UtilModel.reject_sound
#print axioms UtilModel.CSync.complete_rw
#print axioms UtilModel.CSync.complete_mutex
#print axioms UtilModel.CSync.reject_sound_rw
#print axioms UtilModel.CSync.reject_sound_mutex
