import UtilModel.Core.LTSHash
import UtilModel.Once.Monitors
import UtilModel.Memo.Monitors
open UtilModel
#print axioms UtilModel.acceptsH_sound
#print axioms UtilModel.monitor_of_simulation
