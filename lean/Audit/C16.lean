import UtilModel.Core.LTSHash
import UtilModel.Once.Sim
import UtilModel.Memo.Props
import UtilModel.Once.Transfer
import UtilModel.Memo.Transfer
open UtilModel
#print axioms UtilModel.acceptsH_sound
#print axioms UtilModel.accepted_satisfies
#print axioms UtilModel.monitor_of_simulation
#print axioms Once.reachable_inv
#print axioms Once.once_not_concurrent
#print axioms Once.success_is_last
#print axioms Once.success_no_new_call
#print axioms Once.success_join
#print axioms Once.success_value
#print axioms Once.error_cleared_before_published
#print axioms Once.error_retried
#print axioms Once.cancelled_returns
#print axioms Once.canceled_only_if_cancelled
#print axioms Once.waiting_instance_in_progress
#print axioms Once.canceled_result_retried
#print axioms Once.quiescent_pending
#print axioms Once.C16_obs_once
#print axioms Memo.reachable_inv
#print axioms Memo.memo_exactly_once
#print axioms Memo.memo_all_same
#print axioms Memo.waiting_enabled
#print axioms Memo.C16_obs_memo
#print axioms UtilModel.C16_accepted_once
#print axioms UtilModel.C16_accepted_memo
#print axioms UtilModel.complete_once
#print axioms UtilModel.reject_sound_once
#print axioms UtilModel.complete_memo
#print axioms UtilModel.reject_sound_memo
