import UtilModel.Seq.Props
import UtilModel.Seq.Transfer
open UtilModel UtilModel.Seq
#print axioms UtilModel.accepts_sound
#print axioms UtilModel.accepted_satisfies
#print axioms UtilModel.monitor_of_simulation
-- ioseek
#print axioms IOSeek.reachable_inv
#print axioms IOSeek.pos_in_range
#print axioms IOSeek.seek_refines_section
#print axioms IOSeek.failed_seek_unchanged
#print axioms IOSeek.ok_seek_moves
#print axioms IOSeek.read_is_readAt
#print axioms IOSeek.C20_obs_ioseek
-- iosizer
#print axioms IOSizer.total_is_sum
#print axioms IOSizer.ret_adds
#print axioms IOSizer.outside_guard_not_counted
#print axioms IOSizer.ret_is_cb
#print axioms IOSizer.C20_obs_iosizer
-- iocloser
#print axioms IOCloser.close_func_once
#print axioms IOCloser.untouched_after_close
#print axioms IOCloser.eof_after_close
#print axioms IOCloser.pass_through
#print axioms IOCloser.C20_obs_iocloser
-- ioproxy
#print axioms IOProxy.bytes_in_order
#print axioms IOProxy.delivers_all
#print axioms IOProxy.closed_and_called_back
#print axioms IOProxy.teardown_enabled
#print axioms IOProxy.C20_obs_ioproxy
-- unique
#print axioms Unique.nodup_keys
#print axioms Unique.append_spec
#print axioms Unique.set_spec
#print axioms Unique.remove_spec
#print axioms Unique.replay_notifications
#print axioms Unique.replay_notifications_any_order
#print axioms Unique.C20_obs_unique
#print axioms UtilModel.C20_accepted_ioseek
#print axioms UtilModel.C20_accepted_iosizer
#print axioms UtilModel.C20_accepted_iocloser
#print axioms UtilModel.C20_accepted_ioproxy
#print axioms UtilModel.C20_accepted_unique
#print axioms UtilModel.acceptsH_sound
#print axioms UtilModel.reject_sound
#print axioms UtilModel.Seq.detModel_complete
#print axioms UtilModel.complete_ioseek
#print axioms UtilModel.reject_sound_ioseek
#print axioms UtilModel.complete_iosizer
#print axioms UtilModel.reject_sound_iosizer
#print axioms UtilModel.complete_iocloser
#print axioms UtilModel.reject_sound_iocloser
#print axioms UtilModel.complete_ioproxy
#print axioms UtilModel.reject_sound_ioproxy
#print axioms UtilModel.complete_unique
#print axioms UtilModel.reject_sound_unique
