import UtilModel.CContainer.Props
open UtilModel UtilModel.CContainer
#print axioms UtilModel.accepts_sound
#print axioms UtilModel.monitor_of_simulation
