import UtilModel.CContainer.Props
import UtilModel.CContainer.Transfer
import UtilModel.CContainer.WProps
open UtilModel UtilModel.CContainer
#print axioms UtilModel.accepts_sound
#print axioms UtilModel.monitor_of_simulation
#print axioms UtilModel.CContainer.reachable_inv
#print axioms UtilModel.CContainer.op_atomic
#print axioms UtilModel.CContainer.cell_atomic
#print axioms UtilModel.CContainer.swap_inc_adds
#print axioms UtilModel.CContainer.wait_returns_held_value
#print axioms UtilModel.CContainer.wait_canceled_only_if_fired
#print axioms UtilModel.CContainer.wait_err_only_if_fired
#print axioms UtilModel.CContainer.wait_parked_open_false
#print axioms UtilModel.CContainer.wait_satisfied_enabled
#print axioms UtilModel.CContainer.wait_quiescent_none_true
#print axioms UtilModel.CContainer.C15_obs
#print axioms UtilModel.C15_accepted
#print axioms UtilModel.acceptsH_sound
#print axioms UtilModel.complete_ccontainer
#print axioms UtilModel.quotok_ccontainer
#print axioms UtilModel.reject_sound_ccontainer
#print axioms UtilModel.rejectH_sound_quot
#print axioms UtilModel.CContainer.wrun_core
#print axioms UtilModel.CContainer.C15_core_obs_w
#print axioms UtilModel.CContainer.C15_watch_obs
#print axioms UtilModel.CContainer.C15_obs_w
#print axioms UtilModel.C15W_accepted
#print axioms UtilModel.complete_ccontainer_w
#print axioms UtilModel.quotok_ccontainer_w
#print axioms UtilModel.reject_sound_ccontainer_w
