import UtilModel.Keyed.Refine7
open UtilModel UtilModel.Keyed
#print axioms UtilModel.accepts_sound
#print axioms UtilModel.Keyed.execOp_refines
#print axioms UtilModel.Keyed.step_refines
#print axioms UtilModel.Keyed.rinv_reachable
