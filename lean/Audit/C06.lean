import UtilModel.Keyed.Props
import UtilModel.Keyed.Transfer
open UtilModel UtilModel.Keyed
#print axioms UtilModel.accepts_sound
#print axioms UtilModel.accepted_satisfies
#print axioms UtilModel.Keyed.execOp_refines
#print axioms UtilModel.Keyed.step_refines
#print axioms UtilModel.Keyed.rinv_reachable
#print axioms UtilModel.Keyed.C06_refinement
#print axioms UtilModel.Keyed.C06_ret_is_result
#print axioms UtilModel.Keyed.C06_leaving_until_expiry
#print axioms UtilModel.Keyed.C06_removed_with_delay
#print axioms UtilModel.Keyed.C06_expiry_after_advance
#print axioms UtilModel.Keyed.C06_leaving_expires
#print axioms UtilModel.Keyed.C06_rerequest_setKey
#print axioms UtilModel.Keyed.C06_rerequest_sync
#print axioms UtilModel.Keyed.C06_rerequest_ref
#print axioms UtilModel.Keyed.C06_present_for_good
#print axioms UtilModel.Keyed.C06_refs_present_step
#print axioms UtilModel.Keyed.cinv_reachable
#print axioms UtilModel.Keyed.C06_double_release
#print axioms UtilModel.Keyed.g6_reachable
#print axioms UtilModel.Keyed.ret_sound
#print axioms UtilModel.Keyed.C06_obs
#print axioms UtilModel.Keyed.C06_reset_conds
#print axioms UtilModel.Keyed.C06_accepted
#print axioms UtilModel.Keyed.complete_keyed
#print axioms UtilModel.Keyed.reject_sound_keyed
