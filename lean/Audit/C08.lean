import UtilModel.RefCount.Props
import UtilModel.RefCount.ObsOnce
import UtilModel.RefCount.ObsHeld
import UtilModel.RefCount.ObsHidden
import UtilModel.RefCount.ObsEv
import UtilModel.RefCount.ConsLift
import UtilModel.RefCount.Transfer
open UtilModel UtilModel.RefCount
#print axioms UtilModel.accepts_sound
#print axioms UtilModel.accepted_satisfies
#print axioms UtilModel.monitor_of_simulation
#print axioms RefCount.reachable_inv
#print axioms RefCount.step_acct
#print axioms RefCount.flip_cases
#print axioms RefCount.rel_exact
#print axioms RefCount.rel_at_most_once
#print axioms RefCount.rel_only_returned
#print axioms RefCount.rel_not_while_held
#print axioms RefCount.unreleased_is_current
#print axioms RefCount.quiescent_settled
#print axioms RefCount.rel_eventually
#print axioms RefCount.stale_released_in_store
#print axioms RefCount.rel_after_hidden
#print axioms RefCount.calls_frame
#print axioms RefCount.idx_step
#print axioms RefCount.relIn_step
#print axioms RefCount.rel_once_obs
#print axioms RefCount.th_frame
#print axioms RefCount.items_frame
#print axioms RefCount.rel_held_obs
#print axioms RefCount.rel_hidden_obs
#print axioms RefCount.step_relTh
#print axioms RefCount.rel_eventually_obs
#print axioms RefCount.c08_obs
#print axioms RefCount.Cons.lift_sim
#print axioms RefCount.Cons.c08c_obs
#print axioms UtilModel.C08_accepted_refcount
#print axioms UtilModel.C08c_accepted_refcount_consumers
#print axioms UtilModel.complete_refcount
#print axioms UtilModel.reject_sound_refcount
#print axioms UtilModel.complete_refcount_consumers
#print axioms UtilModel.reject_sound_refcount_consumers
