import UtilModel.RefCount.Props
open UtilModel
#print axioms UtilModel.accepts_sound
