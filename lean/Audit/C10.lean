import UtilModel.RefCount.ConsProps
import UtilModel.RefCount.ConsRelA
import UtilModel.RefCount.ConsRelB
import UtilModel.RefCount.ConsRelC
import UtilModel.RefCount.ConsRelD
import UtilModel.RefCount.WrcProofs
import UtilModel.RefCount.Transfer
open UtilModel UtilModel.RefCount UtilModel.RefCount.Cons
#print axioms UtilModel.accepts_sound
#print axioms UtilModel.accepted_satisfies
#print axioms RefCount.Cons.creachable_inv
#print axioms RefCount.Cons.cstep_frame
#print axioms RefCount.Cons.access_snapshot
#print axioms RefCount.Cons.access_value_current
#print axioms RefCount.Cons.access_cancel_enabled
#print axioms RefCount.Cons.access_cancel_quiescent
#print axioms RefCount.Cons.access_reinvoke
#print axioms RefCount.Cons.access_result
#print axioms RefCount.Cons.released_once
#print axioms RefCount.Cons.released_fires_iff
#print axioms RefCount.Cons.wait_keeps_alive
#print axioms RefCount.rel_not_while_held_inv
#print axioms RefCount.Cons.r0_step
#print axioms RefCount.Cons.c10_value_obs
#print axioms RefCount.Cons.rb_step
#print axioms RefCount.Cons.c10_result_obs
#print axioms RefCount.Cons.c10_cancel_obs
#print axioms RefCount.Cons.c10_released_obs
#print axioms RefCount.Cons.rd_step
#print axioms RefCount.Cons.c10_fires_obs
#print axioms RefCount.Cons.c10_alive_obs
#print axioms RefCount.Cons.c10_obs
#print axioms RefCount.Wrc.sim_step
#print axioms RefCount.Wrc.wrc_obs
#print axioms UtilModel.C10_accepted_wrc
#print axioms UtilModel.reject_sound_wrc
#print axioms UtilModel.C10_accepted_refcount_consumers
#print axioms UtilModel.complete_refcount_consumers
#print axioms UtilModel.reject_sound_refcount_consumers
#print axioms UtilModel.complete_wrc
