import UtilModel.RefCount.Props
import UtilModel.RefCount.ObsC09
import UtilModel.RefCount.ObsNoPanic
import UtilModel.RefCount.Proofs7
import UtilModel.RefCount.ObsProg
import UtilModel.RefCount.ConsLift
import UtilModel.RefCount.Transfer
open UtilModel UtilModel.RefCount
#print axioms UtilModel.accepts_sound
#print axioms UtilModel.accepted_satisfies
#print axioms UtilModel.Chain.chain_one_running
#print axioms RefCount.reachable_inv
#print axioms RefCount.progress_inv
#print axioms RefCount.released_restarts
#print axioms RefCount.one_resolver_running
#print axioms RefCount.no_panic
#print axioms RefCount.quiescent_no_pending_api
#print axioms RefCount.running_frame
#print axioms RefCount.one_resolver_obs
#print axioms RefCount.reachable_thinv
#print axioms RefCount.api_not_stuck
#print axioms RefCount.no_panic_obs
#print axioms RefCount.run_back
#print axioms RefCount.progress_obs
#print axioms RefCount.c09_obs
#print axioms RefCount.Cons.c09c_obs
#print axioms UtilModel.C09_accepted_refcount
#print axioms UtilModel.C09c_accepted_refcount_consumers
#print axioms UtilModel.complete_refcount
#print axioms UtilModel.reject_sound_refcount
#print axioms UtilModel.complete_refcount_consumers
#print axioms UtilModel.reject_sound_refcount_consumers
