import UtilModel.Routine.Props
import UtilModel.Routine.Transfer
open UtilModel UtilModel.Routine
#print axioms UtilModel.accepts_sound
#print axioms UtilModel.Routine.step_cur
#print axioms UtilModel.Routine.cur_run
#print axioms UtilModel.Routine.superseded_cancelled
#print axioms UtilModel.Routine.quiescent_survivor
#print axioms UtilModel.Routine.survivor_unique
#print axioms UtilModel.Routine.step_k4
#print axioms UtilModel.Routine.survivor_state
#print axioms UtilModel.Routine.C05a_obs
#print axioms UtilModel.Routine.exited_cancelled
#print axioms UtilModel.Routine.C05b_obs
#print axioms UtilModel.Routine.C05c_obs
#print axioms UtilModel.Routine.C05l_obs
#print axioms UtilModel.Routine.C05g_obs
#print axioms UtilModel.Routine.C05_obs
#print axioms UtilModel.Routine.C05a_accepted
#print axioms UtilModel.Routine.C05b_accepted
#print axioms UtilModel.Routine.C05l_accepted
#print axioms UtilModel.Routine.C05g_accepted
#print axioms UtilModel.Routine.C05_accepted
#print axioms UtilModel.Routine.complete_routine
#print axioms UtilModel.Routine.reject_sound_routine
