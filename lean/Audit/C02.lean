import UtilModel.CSync.RWProps
import UtilModel.CSync.MxProps
import UtilModel.CSync.RWObsC02
import UtilModel.CSync.MxObsC02
import UtilModel.CSync.Transfer
open UtilModel UtilModel.CSync
#print axioms UtilModel.accepts_sound
#print axioms RW.reachable_inv
#print axioms RW.parked_blocked
#print axioms RW.grantable_enabled
#print axioms RW.quiescent_not_grantable
#print axioms RW.cancel_no_trace
#print axioms RW.writer_pref
#print axioms Mx.parked_locked
#print axioms Mx.free_enabled
#print axioms Mx.quiescent_locked
#print axioms Mx.cancel_no_trace
#print axioms RW.C02_obs_rw
#print axioms Mx.C02_obs_mutex
#print axioms UtilModel.monitor_of_simulation
#print axioms UtilModel.acceptsH_sound
#print axioms C02_accepted_rw
#print axioms C02_accepted_mutex
#print axioms UtilModel.rejectH_sound
#print axioms UtilModel.reject_sound
#print axioms UtilModel.CSync.complete_rw
#print axioms UtilModel.CSync.complete_mutex
#print axioms UtilModel.CSync.reject_sound_rw
#print axioms UtilModel.CSync.reject_sound_mutex
