import UtilModel.Codec.Props
import UtilModel.Codec.Transfer
open UtilModel UtilModel.Codec
#print axioms UtilModel.accepts_sound
#print axioms UtilModel.accepted_satisfies
#print axioms UtilModel.monitor_of_simulation
#print axioms pad_eq_spec
#print axioms pad_total
#print axioms pad_cap_irrelevant
#print axioms pad_len
#print axioms pad_prefix
#print axioms unpad_pad
#print axioms unpad_total
#print axioms unpad_nil
#print axioms prefix_common
#print axioms prefix_longest
#print axioms trim_exact
#print axioms readChunks_readerAt
#print axioms read_chunk_independent
#print axioms streamBytes_eq_expand
#print axioms read_chunk_lengths
#print axioms read_rechunk
#print axioms read_words_only
#print axioms seed_determinism
#print axioms C19_obs
#print axioms UtilModel.C19_accepted
#print axioms UtilModel.acceptsH_sound
