import UtilModel.Broadcast.Lock
import UtilModel.Broadcast.Transfer
open UtilModel UtilModel.Broadcast
#print axioms UtilModel.accepts_sound
#print axioms UtilModel.monitor_of_simulation
#print axioms UtilModel.Broadcast.exec_spec
#print axioms UtilModel.Broadcast.reachable_inv
#print axioms UtilModel.Broadcast.step_closed_iff
#print axioms UtilModel.Broadcast.handle_closed_iff
#print axioms UtilModel.Broadcast.wait_nil
#print axioms UtilModel.Broadcast.wait_err
#print axioms UtilModel.Broadcast.wait_canceled
#print axioms UtilModel.Broadcast.wait_badarg
#print axioms UtilModel.Broadcast.disciplined_not_dirty
#print axioms UtilModel.Broadcast.wait_parked_open_false
#print axioms UtilModel.Broadcast.wait_satisfied_enabled
#print axioms UtilModel.Broadcast.wait_quiescent_none_true
#print axioms UtilModel.Broadcast.C03_probe_obs
#print axioms UtilModel.Broadcast.C03_wait_obs
#print axioms UtilModel.Broadcast.C03_obs
#print axioms UtilModel.Broadcast.lrun_core
#print axioms UtilModel.Broadcast.C03_excl_obs
#print axioms UtilModel.Broadcast.C03_obs_l
#print axioms UtilModel.Broadcast.body_exclusive
#print axioms UtilModel.C03_accepted
#print axioms UtilModel.acceptsH_sound
#print axioms UtilModel.complete_broadcast
#print axioms UtilModel.complete_broadcast_core
