import UtilModel.Registry
open UtilModel

def main (args : List String) : IO UInt32 := driverMain registry args
