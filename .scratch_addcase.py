import re,sys
for p in sys.argv[1:]:
    lines=open(p).read().split('\n')
    out=[]
    n=0
    for i,l in enumerate(lines):
        out.append(l)
        m=re.match(r'^(\s*)\| probeCtx (\S+) (\S+) (\S+) => (.+)$',l)
        if m and not (i+1<len(lines) and 'probeProm' in lines[i+1]):
            ind,a,b,c,rhs=m.groups()
            out.append(f"{ind}| probeProm {a} _ _ _ => {rhs}"); n+=1
        m=re.match(r'^(\s*)\| resolve => (.+)$',l)
        if m and not (i+1<len(lines) and '| promise' in lines[i+1]):
            ind,rhs=m.groups()
            out.append(f"{ind}| promise => {rhs}"); n+=1
    open(p,'w').write('\n'.join(out))
    print(p,n)
