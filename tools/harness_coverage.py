#!/usr/bin/env python3
"""harness_coverage.py [--n N] [--seeds a,b,c] — statement coverage of the library under the
correspondence harness' scenario generators (generator quality, not a verdict).

Builds vharness with `go build -cover` for all packages of github.com/aperturerobotics/util, runs
every registered component's generator + corpus, and reports per anchored source file the statements
no scenario reached. A block nobody reaches is a blind spot of the correspondence check: a change
there cannot be observed. Output: table on stdout, JSON in /verif/.build/coverage.json.
Scratch data lives under /verif/.build/cov and is removed at the end."""
import collections, json, os, re, shutil, subprocess, sys
n, seeds = "300", ["5", "6"]
a = sys.argv[1:]
while a:
    if a[0] == "--n": n = a[1]; a = a[2:]
    elif a[0] == "--seeds": seeds = a[1].split(","); a = a[2:]
    else: sys.exit(__doc__)
env = dict(os.environ, GOFLAGS="-mod=mod", GOPROXY="off", GOSUMDB="off", GOTOOLCHAIN="local")
W = "/verif/.build/cov"
shutil.rmtree(W, ignore_errors=True); os.makedirs(W + "/data")
shutil.copy("/repo/go.sum", "/verif/harness/go.sum")
r = subprocess.run(["go", "build", "-cover", "-coverpkg=github.com/aperturerobotics/util/...,verifharness/cmd/vharness", "-tags", "verif",
                    "-o", W + "/vh", "./cmd/vharness"], cwd="/verif/harness", env=env, capture_output=True, text=True)
if r.returncode != 0: sys.exit(r.stdout + r.stderr)
comps = [l.split()[0] for l in subprocess.run([W + "/vh", "-list"], capture_output=True, text=True).stdout.splitlines() if l.strip()]
procs = []
for s in seeds:
    for c in comps:
        procs.append(subprocess.Popen([W + "/vh", "-comp", c, "-seed", s, "-n", n, "-tier", "quick"], env=dict(env, GOCOVERDIR=W + "/data"),
                                      stdout=subprocess.DEVNULL, stderr=subprocess.DEVNULL))
    for p in procs: p.wait()
subprocess.run(["go", "tool", "covdata", "textfmt", "-i=" + W + "/data", "-o", W + "/prof.txt"], env=env, check=True)
blocks = collections.defaultdict(lambda: [0, 0])
for l in open(W + "/prof.txt"):
    m = re.match(r"github.com/aperturerobotics/util/(.+):(\d+)\.\d+,(\d+)\.\d+ (\d+) (\d+)", l)
    if not m: continue
    f, sl, el, ns, cnt = m.group(1), int(m.group(2)), int(m.group(3)), int(m.group(4)), int(m.group(5))
    b = blocks[(f, sl, el)]; b[0] = ns; b[1] += cnt
anchors = set()
for l in open("/verif/properties.jsonl"):
    anchors |= set(json.loads(l)["anchors"]["files"])
out = {}
for f in sorted(anchors):
    bs = {k: v for k, v in blocks.items() if k[0] == f}
    tot = sum(v[0] for v in bs.values()); cov = sum(v[0] for v in bs.values() if v[1] > 0)
    unc = sorted((k[1], k[2]) for k, v in bs.items() if v[1] == 0)
    out[f] = {"statements": tot, "covered": cov, "uncovered_blocks": unc}
    pct = 100.0 * cov / tot if tot else 0.0
    print(f"{f:34s} {cov:4d}/{tot:4d} {pct:5.1f}%  uncovered lines: " + " ".join(f"{a}-{b}" for a, b in unc))
T = sum(v["statements"] for v in out.values()); C = sum(v["covered"] for v in out.values())
print(f"anchored files: {C}/{T} statements = {100.0*C/T:.1f}% reached by the scenario generators (seeds {','.join(seeds)}, n={n} + corpus)")
json.dump({"seeds": seeds, "n": n, "files": out, "total": [C, T]}, open("/verif/.build/coverage.json", "w"), indent=1)
shutil.rmtree(W, ignore_errors=True)
