#!/usr/bin/env python3
"""Regenerates the AUTO sections of DESIGN.md (as-built table, per-property notes, seeded changes)."""
import json, os, re, subprocess
R = "/verif"
def sh(c): return subprocess.run(c, shell=True, capture_output=True, text=True).stdout
asbuilt = sh(f"python3 {R}/tools/design_table.py")
notes = []
for i in range(1, 21):
    pid = "C%02d" % i
    mp = f"{R}/manifest.d/{pid}.json"
    if not os.path.exists(mp): continue
    m = json.load(open(mp))
    ap = f"{R}/lean/Audit/{pid}.lean"
    thms = re.findall(r"#print axioms\s+(\S+)", open(ap).read()) if os.path.exists(ap) else []
    notes.append(f"**{pid}.** {m['text']}\n\n*Assumed / partial / not modelled:* {m['note']}\n\n*Audited theorems:* " + ", ".join(f"`{t}`" for t in thms) + "\n")
seeds = sh(f"python3 {R}/tools/seed_table.py")
kf = json.load(open(f"{R}/known-findings.json"))
openf = "\n".join(f"* **{f['property']} {f.get('id','')}** — {f['what']}" for f in kf["findings"] if f["status"] == "open") or "(none)"
fixed = "\n".join(f"* `{l}`" for l in kf.get("fixed_lines", []))
auto = {
 "asbuilt": asbuilt,
 "notes": "\n".join(notes),
 "seeds": seeds,
 "findings": "Open (printed as KNOWN-FINDING, exit 0):\n\n" + openf + "\n\nFixed in /repo (`fix:` commits; entries suppress nothing, their scenarios stay in the corpora):\n\n" + fixed,
}
p = f"{R}/DESIGN.md"
s = open(p).read()
for k, v in auto.items():
    b, e = f"<!-- BEGIN AUTO:{k} -->", f"<!-- END AUTO:{k} -->"
    if b not in s:
        raise SystemExit(f"marker {b} missing in DESIGN.md")
    s = s[:s.index(b) + len(b)] + "\n" + v.strip() + "\n" + s[s.index(e):]
open(p, "w").write(s)
print("DESIGN.md AUTO sections updated")
