#!/usr/bin/env python3
"""Regenerates /verif/MANIFEST.json from the table below (keeps it valid at all times)."""
import json, os, subprocess
ROOT = os.path.dirname(os.path.dirname(os.path.abspath(__file__)))

def hook_commits():
    try:
        out = subprocess.run(["git", "-C", "/repo", "log", "--format=%H %s"], capture_output=True, text=True).stdout
        return [l.split()[0] for l in out.splitlines() if l.split(" ", 1)[1].startswith("verif:")]
    except Exception:
        return []

def load_claimed():
    out = {}
    d = os.path.join(ROOT, "manifest.d")
    for fn in sorted(os.listdir(d)):
        if fn.endswith(".json"):
            out[fn[:-5]] = json.load(open(os.path.join(d, fn)))
    return out

def registered_models():
    import re
    src = open(os.path.join(ROOT, "lean", "UtilModel", "Registry.lean")).read()
    return set(re.findall(r'mkEntryH?\s+"([^"]+)"', src))

def ready(pid):
    """a property is claimed only when its check can run with the compiled driver: every model it
    uses is in the Lean registry (or it uses the lock-table engine)"""
    cp = os.path.join(ROOT, "checks.d", pid + ".json")
    if not os.path.exists(cp): return False
    cfg = json.load(open(cp))
    if cfg.get("engine") == "locktable": return True
    models = registered_models()
    comps = cfg.get("components", [])
    return bool(comps) and all(c["model"] in models for c in comps)

CLAIMED = {k: v for k, v in load_claimed().items() if ready(k)}
ALL = ["C%02d" % i for i in range(1, 21)]
PENDING_REASON = "check not integrated yet (its model is not in the compiled driver's registry); work in progress, see DESIGN.md §6 for the model and theorems"

def main():
    checks = []
    for pid in ALL:
        if pid not in CLAIMED: continue
        c = CLAIMED[pid]
        checks.append({
            "property_id": pid,
            "quick_cmd": f"./check {pid} --tier quick",
            "thorough_cmd": f"./check {pid} --tier thorough",
            "evidence_file": f"/verif/evidence/{pid}.json",
            "replay_cmd_template": f"./check {pid} --replay {{path}}",
            "engine": "lean-model+go-harness",
            "level_claimed": {"category": c.get("category", "proof"), "text": c["text"], "design_ref": c["design"]},
            "level_note": c["note"],
            "technique": c["technique"],
        })
    m = {
        "version": 1,
        "setup_cmd": "cd /verif/lean && lake build && cd /verif/harness && cp /repo/go.sum . && GOFLAGS=-mod=mod GOPROXY=off GOSUMDB=off GOTOOLCHAIN=local go build -tags verif -o /verif/.build/vharness ./cmd/vharness",
        "hooks": {
            "guard": "verif",
            "enable": "go build -tags verif (harness module with replace github.com/aperturerobotics/util => /repo)",
            "baseline_off_cmd": "cd /repo && go test -vet=off -count=1 ./...",
            "source_commits": hook_commits(),
            "add_only": True,
        },
        "engines": [
            {"name": "lean-model+go-harness", "path": "/verif/check", "serves_properties": [c["property_id"] for c in checks],
             "kind_free_text": "Lean 4 models + theorems (lean/UtilModel), compiled Lean driver deciding trace inclusion and property monitors, Go harness recording histories from the real code (harness/), orchestrated by ./check"},
        ],
        "checks": checks,
        "not_applicable": [{"property_id": p, "reason": PENDING_REASON} for p in ALL if p not in CLAIMED],
        "notes": "See DESIGN.md. known-findings.json lists recorded findings; replays/ is written at run time.",
    }
    json.dump(m, open(os.path.join(ROOT, "MANIFEST.json"), "w"), indent=1)

if __name__ == "__main__":
    main()
