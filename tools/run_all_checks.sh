#!/bin/bash
# Runs every registered quick check on the unchanged tree (rewrites evidence/*.json); prints one line per check.
cd /verif
for p in $(python3 -c "import json; print(' '.join(c['property_id'] for c in json.load(open('MANIFEST.json'))['checks']))"); do
  VERIF_SEED=${VERIF_SEED:-1} ./check $p --tier ${1:-quick} | grep -E "VIOLATION|KNOWN-FINDING|CHECK-ERROR|^C[0-9]+:" | cut -c1-220
done
