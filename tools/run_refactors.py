#!/usr/bin/env python3
"""run_refactors.py [ids…] — false-alarm test: for every behaviour-preserving rewrite under
/verif/refactors/<id>/patch.diff, apply it to a scratch worktree of /repo and run the quick check of
every property whose anchor files it touches, plus C13 (the static lock table sees every file).
Expected: every check exits 0. A VIOLATION here is either a false alarm of the machinery (to be
corrected) or — when it ends with no-failing-input-found — a proof obligation / correspondence that
the rewrite broke without breaking the property (allowed by the brief, but recorded).
Outcome is stored in /verif/refactors/<id>/meta.json ("last_run")."""
import json, os, re, subprocess, sys, time
from concurrent.futures import ThreadPoolExecutor
ROOT = "/verif"
ids = sys.argv[1:] or sorted(d for d in os.listdir(f"{ROOT}/refactors") if os.path.exists(f"{ROOT}/refactors/{d}/patch.diff"))
props = [json.loads(l) for l in open(f"{ROOT}/properties.jsonl")]

def touched(patch):
    return set(re.findall(r"^\+\+\+ b/(\S+)", open(patch).read(), flags=re.M))

def run_one(rid):
    d = f"{ROOT}/refactors/{rid}"
    files = touched(f"{d}/patch.diff")
    pkgs = set(f.rsplit("/", 1)[0] for f in files)
    # every property anchored in a touched package (helpers of the same package count), plus C13
    todo = sorted(set(p["id"] for p in props if pkgs & set(f.rsplit("/", 1)[0] for f in p["anchors"]["files"])) | {"C13"})
    wt = f"/tmp/refrun-{rid}"
    subprocess.run(["git", "-C", "/repo", "worktree", "remove", "--force", wt], capture_output=True)
    subprocess.run(["git", "-C", "/repo", "worktree", "add", "--detach", wt, "HEAD"], check=True, capture_output=True)
    res = {}
    try:
        r = subprocess.run(["git", "-C", wt, "apply", f"{d}/patch.diff"], capture_output=True, text=True)
        if r.returncode != 0:
            return rid, {"apply": {"exit": 3, "violations": [], "why": [r.stderr[:300]]}}
        env = dict(os.environ, VERIF_REPO=wt, VERIF_SKIP_LAKE="1")
        for p in todo:
            t0 = time.time()
            r = subprocess.run([f"{ROOT}/check", p, "--tier", "quick"], cwd=ROOT, env=env, capture_output=True, text=True)
            viol = [l for l in r.stdout.splitlines() if l.startswith("VIOLATION")]
            why = [l for l in r.stdout.splitlines() if l.startswith("# ")]
            res[p] = {"exit": r.returncode, "violations": viol[:3], "why": why[:3], "wall_s": round(time.time() - t0, 1)}
    finally:
        subprocess.run(["git", "-C", "/repo", "worktree", "remove", "--force", wt], capture_output=True)
    mp = f"{d}/meta.json"
    meta = json.load(open(mp)) if os.path.exists(mp) else {"id": rid, "files": sorted(files)}
    meta["last_run"] = {"results": res, "repo_head": subprocess.run(["git", "-C", "/repo", "rev-parse", "--short", "HEAD"], capture_output=True, text=True).stdout.strip()}
    json.dump(meta, open(mp, "w"), indent=1)
    return rid, res

with ThreadPoolExecutor(max_workers=3) as ex:
    out = list(ex.map(run_one, ids))
bad = 0
for rid, res in out:
    alarms = {p: r for p, r in res.items() if r["exit"] != 0}
    bad += bool(alarms)
    print(f"{rid:12s} checks={','.join(sorted(res))} " + ("all pass" if not alarms else "ALARM " + "; ".join(f"{p}: exit {r['exit']} {(r['why'] or [''])[0][:140]} {'(no-failing-input-found)' if any('no-failing-input-found' in v for v in r['violations']) else ''}" for p, r in alarms.items())))
print(f"{len(out) - bad}/{len(out)} harmless rewrites pass every check")
sys.exit(1 if bad else 0)
