#!/usr/bin/env python3
"""run_seeded.py [--in-repo] [ids…] — runs, for every validated seeded change under /verif/seeded/<id>/, the quick
check of the property it breaks (and optionally others named in meta.json "also_run") against a tree that has
the change applied, and records the outcome in meta.json ("last_run").

Default: a scratch worktree of /repo under /tmp per seed (VERIF_REPO), several seeds in parallel.
--in-repo: the official procedure — `git -C /repo apply`, run the registered quick command, `git -C /repo checkout -- .`
(sequential; only when nothing else is building against /repo)."""
import json, os, subprocess, sys, time
from concurrent.futures import ThreadPoolExecutor
ROOT = "/verif"
args = [a for a in sys.argv[1:] if not a.startswith("--")]
in_repo = "--in-repo" in sys.argv
ids = args or sorted(d for d in os.listdir(f"{ROOT}/seeded") if os.path.exists(f"{ROOT}/seeded/{d}/meta.json")
                    and "obsolete" not in json.load(open(f"{ROOT}/seeded/{d}/meta.json")))

def apply_patch(tree, patch):
    """git apply; if hook lines added later shifted the context, fall back to patch(1) with fuzz"""
    r = subprocess.run(["git", "-C", tree, "apply", patch], capture_output=True, text=True)
    if r.returncode == 0: return
    r2 = subprocess.run(["patch", "-p1", "-F3", "--no-backup-if-mismatch", "-s", "-i", patch], cwd=tree, capture_output=True, text=True)
    if r2.returncode != 0:
        raise RuntimeError(f"patch {patch} does not apply to {tree}: {r.stderr} {r2.stdout} {r2.stderr}")

def run_one(sid):
    d = f"{ROOT}/seeded/{sid}"
    meta = json.load(open(f"{d}/meta.json"))
    props = [meta["property"]] + meta.get("also_run", [])
    res = {}
    if in_repo:
        apply_patch("/repo", f"{d}/patch.diff")
        env = dict(os.environ)
    else:
        wt = f"/tmp/seedrun-{sid}"
        subprocess.run(["git", "-C", "/repo", "worktree", "remove", "--force", wt], capture_output=True)
        subprocess.run(["git", "-C", "/repo", "worktree", "add", "--detach", wt, "HEAD"], check=True, capture_output=True)
        apply_patch(wt, f"{d}/patch.diff")
        env = dict(os.environ, VERIF_REPO=wt, VERIF_SKIP_LAKE="1")
    try:
        for p in props:
            t0 = time.time()
            r = subprocess.run([f"{ROOT}/check", p, "--tier", "quick"], cwd=ROOT, env=env, capture_output=True, text=True)
            viol = [l for l in r.stdout.splitlines() if l.startswith("VIOLATION")]
            why = [l for l in r.stdout.splitlines() if l.startswith("# ")]
            res[p] = {"exit": r.returncode, "violations": viol[:3], "why": why[:3], "wall_s": round(time.time() - t0, 1)}
    finally:
        if in_repo:
            subprocess.run(["git", "-C", "/repo", "checkout", "--", "."], check=True)
        else:
            subprocess.run(["git", "-C", "/repo", "worktree", "remove", "--force", wt], capture_output=True)
    meta["last_run"] = {"mode": "in-repo" if in_repo else "scratch-worktree", "results": res,
                        "repo_head": subprocess.run(["git", "-C", "/repo", "rev-parse", "--short", "HEAD"], capture_output=True, text=True).stdout.strip()}
    json.dump(meta, open(f"{d}/meta.json", "w"), indent=1)
    main = res[meta["property"]]
    concrete = any("no-failing-input-found" not in v for v in main["violations"])
    if main["exit"] == 1 and not main["violations"]:
        return sid, 3, "CHECK-ERROR (no VIOLATION line)", []
    return sid, main["exit"], ("concrete replay" if concrete else "no-failing-input-found") if main["exit"] == 1 else ("MISSED" if main["exit"] == 0 else "CHECK-ERROR"), main["why"][:1]

if in_repo:
    out = [run_one(s) for s in ids]
else:
    with ThreadPoolExecutor(max_workers=4) as ex:
        out = list(ex.map(run_one, ids))
for sid, rc, kind, why in out:
    print(f"{sid:10s} exit={rc} {kind:28s} {why[0][:120] if why else ''}")
missed = [o for o in out if o[1] != 1]
print(f"{len(out) - len(missed)}/{len(out)} seeded changes detected")
sys.exit(1 if missed else 0)
