#!/usr/bin/env python3
"""Prints the markdown table 'seeded change → what catches it' from /verif/seeded/*/meta.json."""
import json, os
rows = []
for d in sorted(os.listdir("/verif/seeded")):
    mp = f"/verif/seeded/{d}/meta.json"
    if not os.path.exists(mp): continue
    m = json.load(open(mp))
    readme = ""
    rp = f"/verif/seeded/{d}/README.md"
    if os.path.exists(rp):
        for line in open(rp):
            line = line.strip()
            if line and not line.startswith("#"):
                readme = line[:160]; break
    lr = m.get("last_run", {}).get("results", {})
    verdict = "; ".join(f"{p}: " + ("VIOLATION" + (" (no-failing-input-found)" if r["violations"] and all("no-failing-input-found" in v for v in r["violations"]) else " with concrete replay") if r["exit"] == 1 else "missed") for p, r in lr.items())
    if "obsolete" in m:
        verdict = "obsolete: " + str(m["obsolete"])[:120]
    caught = "; ".join(m.get("detected_by", []))
    if not caught:   # later rounds: what the last run printed
        caught = "; ".join(f"{p}: {w.lstrip('# ')}" for p, r in lr.items() if r["exit"] == 1 for w in r.get("why", [])[:1])
    if m.get("missed_at_first"):
        caught += " — missed at first: " + m["missed_at_first"]
    rows.append(f"| {d} | {m['property']} | {readme} | {verdict} | {caught[:260]} |")
print("| seeded change | breaks | what it is (first line of its README) | last run of the checks | caught by |")
print("|---|---|---|---|---|")
print("\n".join(rows))
