#!/usr/bin/env python3
"""monitor_fuzz.py [--n N] [--seed S] [--variants K] [components…] — false-alarm fuzz of the
property monitors against the *models* (no implementation involved in the verdict).

A monitor that has an `_obs` simulation theorem accepts every observable trace of its model. The
heuristic monitors (monC06, monC07, monC14) have no such theorem, so a legal but rare behaviour of
the code could be flagged. This tool looks for such behaviours without waiting for the code to show
them: it records implementation histories, permutes them (random swaps of adjacent lines that respect client causality: a client action
is never moved in front of a `ret`, nothing crosses a quiesce/advance/env line — i.e. other
real-time orders of the same calls and callbacks), and feeds the variants to the model driver. A variant the MODEL ACCEPTS is an
observable trace of the model; if any monitor registered for that model FAILS on it, the monitor (or
the model) is wrong: printed as FALSE-ALARM-CANDIDATE with the variant. Exit 1 if any was found."""
import os, random, re, subprocess, sys, tempfile
ROOT = "/verif"
n, seed, K, comps = "200", 1, 12, []
a = sys.argv[1:]
while a:
    if a[0] == "--n": n = a[1]; a = a[2:]
    elif a[0] == "--seed": seed = int(a[1]); a = a[2:]
    elif a[0] == "--variants": K = int(a[1]); a = a[2:]
    else: comps.append(a[0]); a = a[1:]
env = dict(os.environ, GOFLAGS="-mod=mod", GOPROXY="off", GOSUMDB="off", GOTOOLCHAIN="local")
W = tempfile.mkdtemp(prefix="monfuzz-", dir=f"{ROOT}/.build")
vh = f"{W}/vharness"
subprocess.run(["cp", "/repo/go.sum", f"{ROOT}/harness/go.sum"], check=True)
subprocess.run(["go", "build", "-tags", "verif", "-o", vh, "./cmd/vharness"], cwd=f"{ROOT}/harness", env=env, check=True)
vd = f"{ROOT}/lean/.lake/build/bin/vdriver"
listing = dict(l.split()[:2] for l in subprocess.run([vh, "-list"], capture_output=True, text=True).stdout.splitlines() if l.strip())
comps = comps or sorted(listing)
rng = random.Random(seed)
found = 0
for comp in comps:
    model = listing[comp]
    out = subprocess.run([vh, "-comp", comp, "-seed", str(seed), "-n", n, "-tier", "quick"], capture_output=True, text=True).stdout
    blocks, cur = [], None
    for line in out.splitlines():
        if line.startswith("BEGIN "): cur = {"id": line.split()[1], "head": line, "S": [], "H": [], "unstable": False}
        elif cur is None: continue
        elif line.startswith("S "): cur["S"].append(line)
        elif line.startswith("H "): cur["H"].append(line)
        elif line.startswith("UNSTABLE"): cur["unstable"] = True
        elif line.startswith("END "): blocks.append(cur); cur = None
    feed, variants = [], {}
    for b in blocks:
        if b["unstable"] or len(b["H"]) < 4: continue
        for k in range(K):
            h = list(b["H"])
            for _ in range(rng.randint(1, 4)):
                i = rng.randrange(len(h) - 1)
                # never move a line across a quiesce/advance marker: those are timing observations
                if any(h[j].startswith(("H quiesce", "H advance", "H env")) for j in (i, i + 1)): continue
                # client causality: an action of the client (inv, probe, w-lines of watchers …) may use
                # what an earlier `ret` handed out, so it is never moved in front of a `ret`; every other
                # swap only delays a client action or reorders library-side events — always possible
                if h[i].startswith("H ret") and not h[i + 1].startswith(("H ret", "H cb", "H exitcb", "H bo")): continue
                h[i], h[i + 1] = h[i + 1], h[i]
            if h == b["H"]: continue
            vid = f"{b['id']}~{k}"
            variants[vid] = (b, h)
            feed += [f"BEGIN {vid} seed=0"] + h + [f"END {vid}"]
    if not feed: continue
    d = subprocess.run([vd, model], input="\n".join(feed) + "\n", capture_output=True, text=True, cwd=f"{ROOT}/lean")
    acc = rej = 0
    for line in d.stdout.splitlines():
        m = re.match(r"RESULT (\S+) (\S+)(.*)", line)
        if not m: continue
        vid, verdict, rest = m.group(1), m.group(2), m.group(3)
        if verdict != "ACCEPT": rej += 1; continue
        acc += 1
        fails = re.findall(r"(\S+)=FAIL@(\d+)", rest)
        if fails:
            found += 1
            b, h = variants[vid]
            print(f"FALSE-ALARM-CANDIDATE component={comp} model={model} variant={vid} monitors={fails}")
            print("  script: " + " | ".join(s[2:] for s in b["S"])[:600])
            for i, l in enumerate(h): print(f"  {i:3d} {l[2:]}")
    print(f"{comp}: {len(blocks)} histories, {len(variants)} permuted variants, model accepts {acc}, rejects {rej}")
subprocess.run(["rm", "-rf", W])
print(f"{found} false-alarm candidates")
sys.exit(1 if found else 0)
