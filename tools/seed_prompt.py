#!/usr/bin/env python3
"""seed_prompt.py <Cxx> <tag> — creates /tmp/seed-<Cxx><tag> worktree and prints the prompt for a seeding sub-agent."""
import json, subprocess, sys
pid, tag = sys.argv[1], sys.argv[2]
wt = f"/tmp/seed-{pid}{tag}"
subprocess.run(["git", "-C", "/repo", "worktree", "add", "--detach", wt, "HEAD"], capture_output=True)
p = next(json.loads(l) for l in open("/verif/properties.jsonl") if json.loads(l)["id"] == pid)
files = ", ".join(p["anchors"]["files"])
pkgs = sorted(set("./" + f.rsplit("/", 1)[0] for f in p["anchors"]["files"]))
print(f"""You are helping to evaluate a verification tool by writing realistic bugs ("seeded changes") into a Go library. Work ONLY inside the git worktree {wt} (a scratch checkout of the library github.com/aperturerobotics/util). Do not read or write anything under /verif or /repo, and do not look at other /tmp/seed-* directories. No network: every shell call needs `export GOFLAGS=-mod=mod GOPROXY=off GOSUMDB=off GOTOOLCHAIN=local`. The `verifhook.Point(...)` calls in the sources are no-op schedule points; leave them alone.

The property to break (source files: {files}):

"{p['title']}. {p['statement']} — {p['quantifier']['text']}."

Task: produce THREE different, independent changes to the library source (non-test files), each of which (a) still compiles, (b) still passes the existing test suite of the touched package(s) (`go test -count=1 {' '.join(pkgs)}` — run it 3 times), (c) breaks the property above, and (d) needs something specific to manifest — a particular interleaving, a fault or cancellation at a particular point, a multi-step sequence of operations, an unusual input, or two cooperating sites that each look fine alone — NOT something ordinary use exposes at once. Realistic slips a maintainer could make (a dropped condition, a wrong branch, an early return, a reordered statement, an off-by-one, a missing check), each ≤ ~10 changed lines. For each change also write a demonstration: a Go test file that FAILS with the change and PASSES without it (deterministic if possible — short sleeps, many iterations or runtime.Gosched loops are fine; say how reliable it is).

For each change k ∈ {{1,2,3}} create directory {wt}/out/k/ containing: `patch.diff` (output of `git diff` for the library change only, applicable with `git apply` at the worktree root on a clean checkout), `demo_test.go` (the demonstration; say in which package directory it must be placed and use a package clause that works there), `README.md` (what the bug is, why the existing tests miss it, what it needs to manifest, how you ran the demonstration with and without the change and what you saw). Leave the worktree's tracked files CLEAN at the end (git checkout -- . ; the out/ directory is untracked and stays). In your final message list the three changes in two lines each, and for each the package directory of the demo.""")
