#!/usr/bin/env python3
"""confirm_seed.py <out-dir-of-seed-agent>/<k> <seed-id> <property> <demo-pkg-dir> <test-pkgs...>
Confirms a seeded change in a scratch worktree (compiles, existing tests pass with it, the demonstration
fails with it and passes without it) and stores it under /verif/seeded/<seed-id>/."""
import json, os, shutil, subprocess, sys, time
src, sid, prop, demopkg, pkgs = sys.argv[1], sys.argv[2], sys.argv[3], sys.argv[4], sys.argv[5:]
env = dict(os.environ, GOFLAGS="-mod=mod", GOPROXY="off", GOSUMDB="off", GOTOOLCHAIN="local")
RACE = ["-race"] if os.environ.get("SEED_DEMO_RACE") else []   # C13 demonstrations only fail under the race detector
wt = f"/tmp/confirm-{sid}"
subprocess.run(["git", "-C", "/repo", "worktree", "remove", "--force", wt], capture_output=True)
subprocess.run(["git", "-C", "/repo", "worktree", "add", "--detach", wt, "HEAD"], check=True, capture_output=True)
def run(cmd, timeout=600):
    r = subprocess.run(cmd, cwd=wt, env=env, capture_output=True, text=True, timeout=timeout)
    return r.returncode, (r.stdout + r.stderr)[-1500:]
log = {}
try:
    demo = os.path.join(src, "demo_test.go")
    dst = os.path.join(wt, demopkg, "zz_seed_demo_test.go")
    # 1. clean tree: demo passes
    shutil.copy(demo, dst)
    rc, out = run(["go", "test", "-count=1"] + RACE + ["-run", ".", "./" + demopkg])
    log["demo_without_change"] = "pass" if rc == 0 else "FAIL: " + out
    os.remove(dst)
    # 2. apply the change: builds, existing tests pass
    rc, out = run(["git", "apply", os.path.join(src, "patch.diff")])
    assert rc == 0, out
    rc, out = run(["go", "build", "./..."])
    log["build_with_change"] = "ok" if rc == 0 else "FAIL: " + out
    rc, out = run(["go", "test", "-count=1"] + ["./" + p for p in pkgs])
    log["existing_tests_with_change"] = "pass" if rc == 0 else "FAIL: " + out
    # 3. demo fails with the change
    shutil.copy(demo, dst)
    rc, out = run(["go", "test", "-count=1"] + RACE + ["-run", ".", "./" + demopkg])
    log["demo_with_change"] = "fails (as required)" if rc != 0 else "PASSES (seed rejected)"
    ok = (log["demo_without_change"] == "pass" and log["build_with_change"] == "ok" and
          log["existing_tests_with_change"] == "pass" and rc != 0)
finally:
    subprocess.run(["git", "-C", "/repo", "worktree", "remove", "--force", wt], capture_output=True)
print(json.dumps(log, indent=1))
if not ok:
    print("NOT CONFIRMED"); sys.exit(1)
d = f"/verif/seeded/{sid}"
os.makedirs(d, exist_ok=True)
shutil.copy(os.path.join(src, "patch.diff"), d)
shutil.copy(demo, os.path.join(d, "demo_test.go"))
needs = ""
rp = os.path.join(src, "README.md")
if os.path.exists(rp):
    shutil.copy(rp, os.path.join(d, "README.md"))
for fn in os.listdir(src):
    if fn.startswith("demo_") and fn != "demo_test.go":
        shutil.copy(os.path.join(src, fn), d)
meta = {"id": sid, "property": prop, "demo_package_dir": demopkg, "existing_tests_run": pkgs,
        "needs_to_manifest": "see README.md", "confirmed": log, "confirmed_at_repo_head": subprocess.run(["git", "-C", "/repo", "rev-parse", "HEAD"], capture_output=True, text=True).stdout.strip(),
        "detected_by": []}
json.dump(meta, open(os.path.join(d, "meta.json"), "w"), indent=1)
print("stored", d)
