#!/usr/bin/env python3
"""Prints the per-property 'as built' table for DESIGN.md from checks.d, manifest.d, Audit and seeded."""
import json, os, re
R = "/verif"
rows = []
for i in range(1, 21):
    pid = "C%02d" % i
    cp, mp, ap = f"{R}/checks.d/{pid}.json", f"{R}/manifest.d/{pid}.json", f"{R}/lean/Audit/{pid}.lean"
    if not (os.path.exists(cp) and os.path.exists(mp)):
        rows.append(f"| {pid} | — | — | — | — | — |"); continue
    c, m = json.load(open(cp)), json.load(open(mp))
    models = ", ".join(sorted({x["model"] for x in c.get("components", [])})) or ("(lock table translator)" if c.get("engine") == "locktable" else "")
    thms = re.findall(r"#print axioms\s+(\S+)", open(ap).read()) if os.path.exists(ap) else []
    obs = [t.split(".")[-1] for t in thms if re.search(r"_obs|table_ok|lockset_sound|refines|linearizable", t)]
    nq = sum(x.get("n_quick", 0) for x in c.get("components", []))
    seeds = []
    for d in sorted(os.listdir(f"{R}/seeded")):
        if d.startswith(pid + "-"):
            mm = json.load(open(f"{R}/seeded/{d}/meta.json"))
            lr = mm.get("last_run", {}).get("results", {}).get(pid)
            if "obsolete" in mm: seeds.append(d.split("-")[1] + ":obsolete")
            elif lr is None: seeds.append(d.split("-")[1] + ":not run")
            elif lr["exit"] != 1: seeds.append(d.split("-")[1] + ":MISSED")
            else: seeds.append(d.split("-")[1] + (":replay" if any("no-failing-input-found" not in v for v in lr["violations"]) else ":corr"))
    rows.append(f"| {pid} | {models} | {len(thms)} ({', '.join(obs[:4])}) | {nq} | {m['technique'][:110]} | {' '.join(seeds)} |")
print("| id | models | audited theorems (headline) | quick scenarios | deciding technique | seeded changes (replay = concrete failing history, corr = broken correspondence only) |")
print("|---|---|---|---|---|---|")
print("\n".join(rows))
